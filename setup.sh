#!/bin/sh
# Builds the harness from files on disk only (module cache, no network).
set -eu
HERE=$(cd "$(dirname "$0")" && pwd)
export GOFLAGS=-mod=mod GOPROXY=off GOSUMDB=off GOTOOLCHAIN=local
cd "$HERE/harness"
mkdir -p "$HERE/bin" "$HERE/evidence"
go build -tags verif -o "$HERE/bin/verif" ./cmd/verif
go build -o "$HERE/bin/regen" ./cmd/regen
# warm the -race build cache for C13 (first build of neo-go with -race takes ~1.5 min)
go build -race -tags verif -o "$HERE/bin/verif-race" ./cmd/verif
echo "setup ok: $("$HERE/bin/verif" list | tr '\n' ' ')"
