#!/usr/bin/env python3
"""Planted breaks: realistic one-line changes that break one property each.

  breaks.py list                 -> "<ID> <name>" per line
  breaks.py apply <name>         -> apply to the repository in the current directory

Used by selftest/run.sh (on a scratch copy of /repo, never on /repo itself).
Every entry: (property, name, file, old, new[, count]).  `old` must occur exactly once
(or `count` times) in the file, otherwise the break is reported as not applicable.
"""
import sys

B = [
 # ---- C01 / C02 balance
 ("C01", "balance-negative-amount-again", "contracts/balance/contract.go",
  "\tif amount < 0 {\n\t\truntime.Log(\"negative amount\")\n\t\treturn emptyAcc, false\n\t}\n\n", ""),
 ("C01", "balance-transferx-swapped", "contracts/balance/contract.go",
  'runtime.Notify("TransferX", from, to, amount, details)', 'runtime.Notify("TransferX", to, from, amount, details)'),
 ("C01", "balance-mint-supply-before-check", "contracts/balance/contract.go",
  "\tsupply = supply + amount\n", "\tsupply = supply + amount + 0*len(to)\n\tif amount == 1 {\n\t\tsupply = supply + 1\n\t}\n"),
 ("C02", "balance-no-witness", "contracts/balance/contract.go",
  "\t\tif runtime.CheckWitness(addr) {\n\t\t\treturn true\n\t\t}\n", "\t\tif runtime.CheckWitness(addr) || runtime.CheckWitness(runtime.GetCallingScriptHash()) {\n\t\t\treturn true\n\t\t}\n"),
 ("C02", "balance-caller-compared-with-nothing", "contracts/balance/contract.go",
  "\t\tif callingScriptHash.Equals(addr) {\n\t\t\treturn true\n\t\t}\n", "\t\tif callingScriptHash.Equals(addr) || len(callingScriptHash) == interop.Hash160Len && !runtime.GetEntryScriptHash().Equals(callingScriptHash) {\n\t\t\treturn true\n\t\t}\n"),
 ("C09", "balance-lock-overwrites-existing-account", "contracts/balance/contract.go",
  "\tif storage.Get(ctx, append([]byte{accPrefix}, to...)) != nil {\n\t\tpanic(\"lock account already exists\")\n\t}\n", ""),
 # ---- C04 / C05 / C14 container
 ("C04", "container-eacl-survives-delete", "contracts/container/contract.go",
  "\tstorage.Delete(ctx, append(eACLPrefix, id...))\n", ""),
 ("C04", "container-tombstone-ignored-by-putnamed", "contracts/container/contract.go",
  "\tif storage.Get(ctx, append([]byte{deletedKeyPrefix}, []byte(containerID)...)) != nil {\n\t\tpanic(cst.ErrorDeleted)\n\t}\n",
  "\tif name == \"\" && storage.Get(ctx, append([]byte{deletedKeyPrefix}, []byte(containerID)...)) != nil {\n\t\tpanic(cst.ErrorDeleted)\n\t}\n"),
 ("C05", "container-fee-skips-first-node", "contracts/container/contract.go",
  "\tfor _, node := range alphabet {\n\t\tto := contract.CreateStandardAccount(node)\n", "\tfor i, node := range alphabet {\n\t\tif i == 0 && len(alphabet) > 1 {\n\t\t\tcontinue\n\t\t}\n\t\tto := contract.CreateStandardAccount(node)\n"),
 ("C05", "container-alias-fee-not-charged", "contracts/container/contract.go",
  "\t\tcontainerFee += aliasFee\n", "\t\tcontainerFee += aliasFee * 0\n"),
 ("C14", "container-nodes-of-vector-zero", "contracts/container/contract.go",
  "\t\t\tpubsI := Nodes(cid, uint8(i))\n", "\t\t\tpubsI := Nodes(cid, 0)\n"),
 ("C14", "container-counter-not-big-endian", "contracts/container/contract.go",
  "\t// BE for correct sorting\n\tfirst := res[0]\n\tres[0] = res[1]\n\tres[1] = first\n\n\treturn res\n", "\treturn res\n"),
 ("C14", "container-commit-keeps-old-nodes", "contracts/container/contract.go",
  "\t\toldNode := iterator.Value(oldNodes).(string)\n\t\tstorage.Delete(ctx, oldNode)\n", "\t\toldNode := iterator.Value(oldNodes).(string)\n\t\tif len(replicas) == 0 {\n\t\t\tstorage.Delete(ctx, oldNode)\n\t\t}\n"),
 # ---- C06 / C07 / C08 netmap
 ("C06", "netmap-epoch-not-strictly-growing", "contracts/netmap/contract.go",
  "\tif epochNum <= currentEpoch {\n\t\tpanic(\"invalid epoch\")", "\tif epochNum < currentEpoch {\n\t\tpanic(\"invalid epoch\")"),
 ("C06", "netmap-first-subscriber-skipped-on-jumps", "contracts/netmap/contract.go",
  "\t\tcontractHash := interop.Hash160(iterator.Value(it).([]byte)[1:]) // one byte is for number prefix\n",
  "\t\tcontractHash := interop.Hash160(iterator.Value(it).([]byte)[1:]) // one byte is for number prefix\n\t\tif iterator.Value(it).([]byte)[0] == 2 && epoch%2 == 0 {\n\t\t\tcontinue\n\t\t}\n"),
 ("C07", "netmap-state-update-legacy-only", "contracts/netmap/contract.go",
  "\t\tnode := std.Deserialize(raw).(Node2)\n\t\tnode.State = state\n\t\tstorage.Put(ctx, storageKey, std.Serialize(node))\n", "\t\tnode := std.Deserialize(raw).(Node2)\n\t\tif state != nodestate.Maintenance {\n\t\t\tnode.State = state\n\t\t}\n\t\tstorage.Put(ctx, storageKey, std.Serialize(node))\n"),
 ("C07", "netmap-remove-only-structured", "contracts/netmap/contract.go",
  "\tstorageKey := append(candidatePrefix, key...)\n\tstorage.Delete(ctx, storageKey)\n\tstorageKey = append([]byte(node2CandidatePrefix), key...)\n", "\tstorageKey := append([]byte(node2CandidatePrefix), key...)\n"),
 ("C08", "netmap-shrink-leak-again", "contracts/netmap/contract.go",
  "k <= curEpoch-count; k++", "k < curEpoch-count; k++"),
 ("C08", "netmap-snapshot-wrong-slot", "contracts/netmap/contract.go",
  "\tneedID := (id - diff + count) % count\n", "\tneedID := (id - diff + count + diff/(count-1+1)/2*0 + 0) % count\n\tif diff == count-1 && count > 4 {\n\t\tneedID = (needID + 1) % count\n\t}\n"),
 ("C08", "netmap-zero-count-again", "contracts/netmap/contract.go",
  "\tif count <= 0 {\n\t\tpanic(\"count must be positive\")", "\tif count < 0 {\n\t\tpanic(\"count must be positive\")"),
 # ---- C09
 ("C09", "balance-unlock-one-epoch-late", "contracts/balance/contract.go",
  "\t\tif epochNum >= acc.Until {", "\t\tif epochNum > acc.Until {"),
 ("C09", "balance-unlock-keeps-a-unit", "contracts/balance/contract.go",
  "\t\t\ttoken.transfer(ctx, addr, acc.Parent, acc.Balance, true, details)\n", "\t\t\tamt := acc.Balance\n\t\t\tif amt > 100 {\n\t\t\t\tamt = amt - 1\n\t\t\t}\n\t\t\ttoken.transfer(ctx, addr, acc.Parent, amt, true, details)\n"),
 # ---- C10 / C11 / C12 / C18 nns
 ("C10", "nns-parent-expiry-off-by-one", "contracts/nns/contract.go",
  "\t\tif now >= ns.Expiration {\n\t\t\treturn true\n\t\t}\n", "\t\tif now > ns.Expiration {\n\t\t\treturn true\n\t\t}\n"),
 ("C10", "nns-admin-survives-transfer", "contracts/nns/contract.go",
  "\t\tns.Owner = to\n\t\tns.Admin = nil\n", "\t\tns.Owner = to\n"),
 ("C10", "nns-takeover-forgets-old-balance", "contracts/nns/contract.go",
  "\t\toldOwner = ns.Owner\n\t\tupdateBalance(ctx, []byte(name), oldOwner, -1)\n", "\t\toldOwner = ns.Owner\n\t\tif len(fragments) == 2 {\n\t\t\tupdateBalance(ctx, []byte(name), oldOwner, -1)\n\t\t}\n"),
 ("C11", "nns-subdomain-without-parent", "contracts/nns/contract.go",
  "\tif l > 2 {\n\t\tnsBytes := storage.Get(ctx, append([]byte{prefixName}, parentKey...))", "\tif l > 3 {\n\t\tnsBytes := storage.Get(ctx, append([]byte{prefixName}, parentKey...))"),
 ("C11", "nns-setadmin-without-admin-witness", "contracts/nns/contract.go",
  "\tif admin != nil && !runtime.CheckWitness(admin) {\n\t\tpanic(\"not witnessed by admin\")\n\t}\n", ""),
 ("C12", "nns-fifteen-records", "contracts/nns/contract.go",
  "\tif id > maxRecordID {\n", "\tif id >= maxRecordID {\n"),
 ("C12", "nns-four-redirects", "contracts/nns/contract.go",
  "\treturn resolve(ctx, []string{}, name, typ, 2)\n", "\treturn resolve(ctx, []string{}, name, typ, 4)\n"),
 ("C12", "nns-delete-keeps-serial", "contracts/nns/contract.go",
  "\t\tr := iterator.Value(records).(string)\n\t\tstorage.Delete(ctx, r)\n\t}\n\tupdateSoaSerial(ctx, tokenID)\n", "\t\tr := iterator.Value(records).(string)\n\t\tstorage.Delete(ctx, r)\n\t}\n"),
 ("C18", "nns-label-64", "contracts/nns/contract.go",
  "\tmaxDomainNameFragmentLength = 63\n", "\tmaxDomainNameFragmentLength = 64\n"),
 ("C18", "nns-underscore-allowed", "contracts/nns/contract.go",
  "\treturn c >= 'a' && c <= 'z' || c >= '0' && c <= '9'\n", "\treturn c >= 'a' && c <= 'z' || c >= '0' && c <= '9' || c == '_'\n"),
 ("C18", "nns-ten-net-accepted", "contracts/nns/contract.go",
  "\t\tn0 == 10 ||\n", ""),
 # ---- C13 deploy
 ("C13", "deploy-funds-quot-rem-swapped", "deploy/funds.go",
  "\tquot := fullAmount / uint64(n)\n\trem := fullAmount % uint64(n)\n", "\trem := fullAmount / uint64(n)\n\tquot := fullAmount % uint64(n)\n"),
 ("C13", "deploy-modifier-span-boundary", "deploy/deploy.go",
  "\t\t\ttx.ValidUntilBlock = tx.Nonce + span\n", "\t\t\ttx.ValidUntilBlock = tx.Nonce + span - 1\n"),
 ("C13", "deploy-signatures-in-map-order-again", "deploy/notary.go",
  "\t\t\tfor i := range prm.committee { // signatures must follow the order of keys in the verification script\n\t\t\t\tsig, ok := mCommitteeIndexToSignature[i]\n\t\t\t\tif !ok {\n\t\t\t\t\tcontinue\n\t\t\t\t}\n",
  "\t\t\tfor i := len(prm.committee) - 1; i >= 0; i-- {\n\t\t\t\tsig, ok := mCommitteeIndexToSignature[i]\n\t\t\t\tif !ok {\n\t\t\t\t\tcontinue\n\t\t\t\t}\n"),
 # ---- C15 artifacts
 ("C15", "artifact-source-changed-without-regeneration", "contracts/netmap/contract.go",
  "\tDefaultSnapshotCount = 10\n", "\tDefaultSnapshotCount = 9\n"),
 ("C15", "artifact-binding-method-renamed", "rpc/netmap/rpcbinding.go",
  'unwrap.BigInt(c.invoker.Call(c.hash, "epoch"))', 'unwrap.BigInt(c.invoker.Call(c.hash, "epoh"))'),
 ("C15", "artifact-getfs-order", "contracts/contracts.go",
  "\t\tnetmapDir,\n\t\tbalanceDir,\n", "\t\tbalanceDir,\n\t\tnetmapDir,\n"),
 ("C15", "artifact-version-bumped-in-file-only", "VERSION",
  "v0.20.0", "v0.20.1"),
 # ---- C16 upgrade
 ("C16", "version-oldest-excluded", "common/version.go",
  "\tif from < PrevVersion {\n", "\tif from <= PrevVersion {\n"),
 ("C16", "update-gated-by-alphabet", "common/update.go",
  "\treturn runtime.CheckWitness(CommitteeAddress())\n", "\treturn runtime.CheckWitness(AlphabetAddress())\n"),
 ("C16", "container-migration-drops-owner-index", "contracts/container/contract.go",
  "\t\t\t\tstorage.Delete(ctx, item.key)\n\t\t\t\tstorage.Put(ctx, append([]byte{ownerKeyPrefix}, item.key...), item.value)\n", "\t\t\t\tstorage.Delete(ctx, item.key)\n"),
 ("C16", "netmap-migration-subscriber-indices", "contracts/netmap/contract.go",
  "append([]byte{byte(1)}, containerContract...)...)", "append([]byte{byte(0)}, containerContract...)...)"),
 # ---- C17 votes
 ("C17", "vote-fires-one-late", "contracts/neofs/contract.go",
  "\t\tn := common.Vote(ctx, id, nodeKey)\n\t\tif n < threshold {\n\t\t\treturn\n\t\t}\n\n\t\tcommon.RemoveVotes(ctx, id)\n\t}\n\n\tsetConfig(ctx, key, val)\n",
  "\t\tn := common.Vote(ctx, id, nodeKey)\n\t\tif n <= threshold && len(alphabet) > 3 {\n\t\t\treturn\n\t\t}\n\t\tif n < threshold {\n\t\t\treturn\n\t\t}\n\n\t\tcommon.RemoveVotes(ctx, id)\n\t}\n\n\tsetConfig(ctx, key, val)\n"),
 ("C17", "vote-window-inclusive", "common/vote.go",
  "\t\tif blockHeight-cnd.Height > blockDiff {\n\t\t\tcontinue\n\t\t}\n\n\t\tif bytesEqual(cnd.ID, id) {", "\t\tif blockHeight-cnd.Height >= blockDiff {\n\t\t\tcontinue\n\t\t}\n\n\t\tif bytesEqual(cnd.ID, id) {"),
 ("C17", "setconfig-stranger-vote-again", "contracts/neofs/contract.go",
  "\t\tnodeKey = common.InnerRingInvoker(alphabet)\n\t\tif len(nodeKey) == 0 {\n\t\t\tpanic(\"this method must be invoked by alphabet\")\n\t\t}\n\t} else {\n\t\tcommon.CheckAlphabetWitness()\n\t}\n\n\tif notaryDisabled {\n\t\tthreshold := len(alphabet)*2/3 + 1\n\n\t\tn := common.Vote(ctx, id, nodeKey)\n\t\tif n < threshold {\n\t\t\treturn\n\t\t}\n\n\t\tcommon.RemoveVotes(ctx, id)\n\t}\n\n\tsetConfig(",
  "\t\tnodeKey = common.InnerRingInvoker(alphabet)\n\t\tif len(key) == 0 {\n\t\t\tpanic(\"this method must be invoked by alphabet\")\n\t\t}\n\t} else {\n\t\tcommon.CheckAlphabetWitness()\n\t}\n\n\tif notaryDisabled {\n\t\tthreshold := len(alphabet)*2/3 + 1\n\n\t\tn := common.Vote(ctx, id, nodeKey)\n\t\tif n < threshold {\n\t\t\treturn\n\t\t}\n\n\t\tcommon.RemoveVotes(ctx, id)\n\t}\n\n\tsetConfig("),
 # ---- C19 money
 ("C19", "deposit-limit-exclusive", "contracts/neofs/contract.go",
  "\t} else if maxBalanceAmountGAS < int64(amount) {", "\t} else if maxBalanceAmountGAS <= int64(amount) {"),
 ("C19", "emit-divides-by-n-plus-one", "contracts/alphabet/contract.go",
  "\tgasPerNode := gasBalance * 7 / 8 / len(innerRing)\n", "\tgasPerNode := gasBalance * 7 / 8 / (len(innerRing) + len(innerRing)/7)\n"),
 ("C19", "proxy-accepts-any-token", "contracts/proxy/contract.go",
  "\tif !caller.Equals(gas.Hash) {\n\t\tcommon.AbortWithMessage(\"proxy contract accepts GAS only\")\n\t}\n", "\tif !caller.Equals(gas.Hash) && amount > 10 {\n\t\tcommon.AbortWithMessage(\"proxy contract accepts GAS only\")\n\t}\n"),
 ("C19", "withdraw-fee-first-alphabet-only", "contracts/neofs/contract.go",
  "\t\tfor _, node := range alphabet {\n\t\t\tprocessingAddr := contract.CreateStandardAccount(node)\n", "\t\tfor i, node := range alphabet {\n\t\t\tif i > len(alphabet)/2 {\n\t\t\t\tcontinue\n\t\t\t}\n\t\t\tprocessingAddr := contract.CreateStandardAccount(node)\n"),
 # ---- C20 stores
 ("C20", "estimation-cleanup-boundary", "contracts/container/contract.go",
  "\t\t\tif !isUpdate && epoch-oldEpoch > cst.CleanupDelta {", "\t\t\tif !isUpdate && epoch-oldEpoch >= cst.CleanupDelta {"),
 ("C20", "estimation-current-map-instead-of-previous", "contracts/container/contract.go",
  'contract.Call(netmapContractAddr, "snapshot", contract.ReadOnly, 1).([]StorageNode)', 'contract.Call(netmapContractAddr, "snapshot", contract.ReadOnly, 0).([]StorageNode)'),
 ("C20", "audit-non-member-accepted", "contracts/audit/contract.go",
  "\tif !runtime.CheckWitness(hdr.From) || !presented {\n", "\tif !runtime.CheckWitness(hdr.From) && !presented {\n"),
 ("C20", "neofsid-remove-deletes-first-key-only", "contracts/neofsid/contract.go",
  "\tfor i := range keys {\n\t\tstKey := append(ownerKey, keys[i]...)\n\t\tstorage.Delete(ctx, stKey)\n\t}\n", "\tfor i := range keys {\n\t\tstKey := append(ownerKey, keys[i]...)\n\t\tstorage.Delete(ctx, stKey)\n\t\tbreak\n\t}\n"),
]


def main():
    if len(sys.argv) >= 2 and sys.argv[1] == "list":
        for b in B:
            print(b[0], b[1])
        return 0
    if len(sys.argv) == 3 and sys.argv[1] == "apply":
        for b in B:
            if b[1] == sys.argv[2]:
                path, old, new = b[2], b[3], b[4]
                s = open(path).read()
                if s.count(old) != 1:
                    print("NOT-APPLICABLE: %s: anchor text occurs %d times in %s" % (b[1], s.count(old), path))
                    return 3
                open(path, "w").write(s.replace(old, new))
                return 0
        print("unknown break", sys.argv[2])
        return 3
    print(__doc__)
    return 2


if __name__ == "__main__":
    sys.exit(main())
