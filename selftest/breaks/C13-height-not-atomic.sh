# the block monitor's height becomes a plain field (written by the monitor goroutine, read by the deployment stages)
python3 - <<'PY'
p='deploy/util.go'
s=open(p).read()
assert s.count("\theight atomic.Uint32\n")==1
s=s.replace("\theight atomic.Uint32\n","\theight plainUint32\n")
s+='''
type plainUint32 struct{ v uint32 }

func (p *plainUint32) Store(v uint32) { p.v = v }
func (p *plainUint32) Load() uint32   { return p.v }

var _ atomic.Bool
'''
open(p,'w').write(s)
PY
