# delete common.CheckAlphabetWitness() from container.SetEACL
python3 - <<'PY'
p='contracts/container/contract.go'
s=open(p).read()
old='''		panic(cst.NotFoundError)
	}

	common.CheckAlphabetWitness()

	rule := ExtendedACL{'''
assert old in s
s=s.replace(old,'''		panic(cst.NotFoundError)
	}

	rule := ExtendedACL{''')
open(p,'w').write(s)
PY
