# netmap.UpdateSnapshotCount checks the committee (majority) address instead of the Alphabet one
python3 - <<'PY'
p='contracts/netmap/contract.go'
s=open(p).read()
old='''func UpdateSnapshotCount(count int) {
	common.CheckAlphabetWitness()'''
assert old in s
s=s.replace(old,'''func UpdateSnapshotCount(count int) {
	if !common.HasUpdateAccess() {
		panic(common.ErrAlphabetWitnessFailed)
	}''')
open(p,'w').write(s)
PY
