#!/bin/sh
# selftest/run.sh <ID> <break.patch|break.sh> [tier]
# Applies a planted break to a scratch copy of /repo (outside /repo and /verif), runs the
# check against it with VERIF_REPO, and expects exit 1 with a VIOLATION line. The scratch
# copy and all output are removed afterwards. Evidence and replays go to a temp dir.
set -u
HERE=$(cd "$(dirname "$0")/.." && pwd)
ID=$1; BRK=$2; TIER=${3:-quick}
: "${TMPDIR:=/var/tmp}"
S=$(mktemp -d "$TMPDIR/neofs-scratch-XXXXXX")
trap 'rm -rf "$S"' EXIT
rsync -a --exclude .git /repo/ "$S/repo/"
case "$BRK" in
  [a-z]*-*[a-z0-9]) [ -f "$BRK" ] || { (cd "$S/repo" && python3 "$HERE/selftest/breaks.py" apply "$BRK") || { echo "SELFTEST-ERROR: break not applicable: $BRK"; exit 3; }; } ;;
esac
case "$BRK" in
  *.patch|*.diff) (cd "$S/repo" && patch -p1 -s < "$BRK") || { echo "SELFTEST-ERROR: patch does not apply: $BRK"; exit 3; } ;;
  *.sh) (cd "$S/repo" && sh "$BRK") || { echo "SELFTEST-ERROR: script failed: $BRK"; exit 3; } ;;
esac
if [ "${SELFTEST_REGEN:-0}" = "1" ]; then
  VERIF_REPO="$S/repo" "$HERE/bin/regen" >/dev/null || { echo "SELFTEST-ERROR: regen failed"; exit 3; }
fi
OUT="$S/out.txt"
VERIF_REPO="$S/repo" VERIF_EVIDENCE_DIR="$S/evidence" VERIF_REPLAY_DIR="$S/replays" "$HERE/run" "$ID" "$TIER" > "$OUT" 2>&1
RC=$?
NV=$(grep -c '^VIOLATION' "$OUT")
FIRST=$(grep -m1 -A1 '^VIOLATION' "$OUT" | tail -1 | cut -c1-200)
if [ $RC -eq 1 ] && [ "$NV" -gt 0 ]; then
  echo "CAUGHT   $ID $(basename "$BRK"): $NV violation lines; e.g.$FIRST"
  exit 0
fi
echo "MISSED   $ID $(basename "$BRK"): exit $RC, $NV violation lines; tail: $(tail -2 "$OUT" | tr '\n' ' ' | cut -c1-300)"
exit 1
