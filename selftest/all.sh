#!/bin/sh
# Runs every planted break of selftest/breaks.py (and breaks/*.sh) against its check; prints one line per break.
# usage: selftest/all.sh [ID-regex]
HERE=$(cd "$(dirname "$0")/.." && pwd)
PAT=${1:-.}
"$HERE/setup.sh" >/dev/null 2>&1
FAIL=0
python3 "$HERE/selftest/breaks.py" list | grep -E "^$PAT" | while read ID NAME; do
  "$HERE/selftest/run.sh" "$ID" "$NAME" || FAIL=1
done
for f in "$HERE"/selftest/breaks/*.sh; do
  ID=$(basename "$f" | cut -d- -f1)
  echo "$ID" | grep -Eq "^$PAT" && "$HERE/selftest/run.sh" "$ID" "$f"
done
exit 0
