package runner

import (
	"encoding/json"
	"fmt"
	"os"
	"os/exec"
	"path/filepath"
	"runtime"
	"runtime/debug"
	"sort"
	"strconv"
	"strings"
	"sync"
	"time"

	"verif/harness/world"
)

// Check describes the machinery deciding one property.
type Check struct {
	ID          string
	Level       string // evidence level
	Rule        string
	Assumptions []string
	// Batches returns the number of batches of a tier.
	Batches func(tier string) int
	// Run executes batch b.Index.
	Run func(b *Batch)
	// Floors are hit names that must have been observed at least once in the
	// whole run for the verdict "held"; otherwise the run is inconclusive.
	Floors []string
	// Chunk is the number of batches one child process handles (default 4).
	Chunk int
	// Helpers lists helper contracts (directories under /verif/helpers) to compile.
	Helpers []string
	// NeedsTree: compile the 11 contracts from the working tree (default true).
	NoTree bool
	// ChildTimeout per chunk (watchdog; firing = inconclusive). Default 10 min.
	ChildTimeout func(tier string) time.Duration
	// Race: children run from the -race binary.
	Race bool
	// Exhaustive tells the evidence writer which tiers enumerate a finite space completely.
	Exhaustive func(tier string) (bool, string)
	// Prepare runs once in the parent before children start (e.g. scratch copies).
	Prepare func(tier string, work string) error
	// Extra evidence coverage keys computed from the merged result.
	Finish func(m *Merged, cov map[string]any)
	// MaxParallel limits concurrent children (0 = NumCPU).
	MaxParallel int
}

var registry = map[string]*Check{}

// Register adds a check.
func Register(c *Check) { registry[c.ID] = c }

// Get returns a check.
func Get(id string) *Check { return registry[id] }

// IDs lists registered checks.
func IDs() []string {
	var res []string
	for k := range registry {
		res = append(res, k)
	}
	sort.Strings(res)
	return res
}

// Finding is an entry of KNOWN_FINDINGS.json.
type Finding struct {
	Property string `json:"property"`
	ID       string `json:"id"`
	Status   string `json:"status"` // known | fixed
	Commit   string `json:"commit,omitempty"`
	What     string `json:"what"`
	Matcher  string `json:"matcher,omitempty"`
}

func loadFindings() ([]Finding, map[string]string) {
	data, err := os.ReadFile(filepath.Join(VerifDir(), "KNOWN_FINDINGS.json"))
	if err != nil {
		return nil, map[string]string{}
	}
	var f struct {
		Findings []Finding `json:"findings"`
	}
	if err := json.Unmarshal(data, &f); err != nil {
		fmt.Fprintln(os.Stderr, "KNOWN_FINDINGS.json:", err)
		return nil, map[string]string{}
	}
	m := map[string]string{}
	for _, x := range f.Findings {
		m[x.ID] = x.Status
	}
	return f.Findings, m
}

// Seed from the environment.
func Seed() uint64 {
	if s := os.Getenv("VERIF_SEED"); s != "" {
		if v, err := strconv.ParseUint(s, 10, 64); err == nil {
			return v
		}
		if v, err := strconv.ParseInt(s, 10, 64); err == nil {
			return uint64(v)
		}
	}
	return 1
}

// Merged is the union of all batch results.
type Merged struct {
	Batches      int
	Conclusive   int
	Evaluations  int
	Txs, Reads   int
	Distinct     map[uint64]struct{}
	States       map[uint64]struct{}
	Hits         map[string]int
	Extra        map[string]int
	Violations   []Violation
	Known        map[string]*KnownHit
	Observations map[string]int
	Samples      []any
	Inconclusive []string
}

func loadHelpers(names []string) (world.Set, error) {
	res := world.Set{}
	for _, n := range names {
		dir := filepath.Join(VerifDir(), "harness", "helpers", n)
		a, err := world.CompileDir(n, dir)
		if err != nil {
			return nil, err
		}
		res[n] = a
	}
	return res, nil
}

// Main is the entry point of the verif binary.
func Main(args []string) int {
	if len(args) < 1 {
		fmt.Fprintln(os.Stderr, "usage: verif run <ID> [quick|thorough] | verif replay <ID> <file> | verif child ...")
		return 2
	}
	switch args[0] {
	case "run":
		if len(args) < 2 {
			return 2
		}
		tier := os.Getenv("VERIF_TIER")
		if len(args) > 2 {
			if args[2] == "--replay" && len(args) > 3 {
				return replay(args[1], args[3])
			}
			tier = args[2]
		}
		if tier != "thorough" {
			tier = "quick"
		}
		return parent(args[1], tier)
	case "replay":
		if len(args) < 3 {
			return 2
		}
		return replay(args[1], args[2])
	case "child":
		return child(args[1:])
	case "list":
		for _, id := range IDs() {
			fmt.Println(id)
		}
		return 0
	}
	return 2
}

func workRoot() string {
	if d := os.Getenv("TMPDIR"); d != "" {
		return d
	}
	return "/var/tmp"
}

func parent(id, tier string) int {
	c := Get(id)
	if c == nil {
		fmt.Fprintln(os.Stderr, "unknown check", id)
		return 2
	}
	t0 := time.Now()
	seed := Seed()
	work, err := os.MkdirTemp(workRoot(), "verif-"+id+"-")
	if err != nil {
		fmt.Fprintln(os.Stderr, err)
		return 2
	}
	defer os.RemoveAll(work)
	evPath := filepath.Join(EvidenceDir(), id+".json")
	os.MkdirAll(filepath.Dir(evPath), 0o755)
	os.Remove(evPath)

	fail := func(why string) int {
		fmt.Printf("INCONCLUSIVE: %s: %s\n", id, why)
		writeEvidence(c, tier, seed, &Merged{Distinct: map[uint64]struct{}{}, States: map[uint64]struct{}{}, Hits: map[string]int{}, Inconclusive: []string{why}}, time.Since(t0), nil, "inconclusive")
		return 2
	}
	if !c.NoTree {
		set, err := world.CompileTree(world.RepoDir())
		if err != nil {
			return fail("contracts do not compile: " + err.Error())
		}
		if err := set.Save(filepath.Join(work, "artifacts")); err != nil {
			return fail(err.Error())
		}
	}
	if len(c.Helpers) > 0 {
		hs, err := loadHelpers(c.Helpers)
		if err != nil {
			return fail("helper contracts do not compile: " + err.Error())
		}
		if err := hs.Save(filepath.Join(work, "helpers")); err != nil {
			return fail(err.Error())
		}
	}
	if c.Prepare != nil {
		if err := c.Prepare(tier, work); err != nil {
			return fail("prepare: " + err.Error())
		}
	}
	n := c.Batches(tier)
	chunk := c.Chunk
	if chunk <= 0 {
		chunk = 4
	}
	type job struct{ from, to int }
	var jobs []job
	for i := 0; i < n; i += chunk {
		jobs = append(jobs, job{i, min(i+chunk, n)})
	}
	par := runtime.NumCPU()
	if c.MaxParallel > 0 && c.MaxParallel < par {
		par = c.MaxParallel
	}
	if v := os.Getenv("VERIF_PAR"); v != "" {
		if x, err := strconv.Atoi(v); err == nil && x > 0 {
			par = x
		}
	}
	exe, _ := os.Executable()
	if c.Race {
		if r := os.Getenv("VERIF_RACE_BIN"); r != "" {
			exe = r
		}
	}
	to := 10 * time.Minute
	if c.ChildTimeout != nil {
		to = c.ChildTimeout(tier)
	}
	var mu sync.Mutex
	var results []*BatchResult
	var incon []string
	jobCh := make(chan job)
	var wg sync.WaitGroup
	for p := 0; p < par; p++ {
		wg.Add(1)
		go func() {
			defer wg.Done()
			for j := range jobCh {
				out := filepath.Join(work, fmt.Sprintf("res-%d.json", j.from))
				logf := filepath.Join(work, fmt.Sprintf("log-%d.txt", j.from))
				cmd := exec.Command("timeout", "-s", "QUIT", fmt.Sprintf("%d", int(to.Seconds())), exe, "child", id, tier, fmt.Sprint(seed), fmt.Sprint(j.from), fmt.Sprint(j.to), work, out)
				lf, _ := os.Create(logf)
				cmd.Stdout = lf
				cmd.Stderr = lf
				cmd.Env = append(os.Environ(), "GORACE=halt_on_error=0 log_path="+filepath.Join(work, "race"))
				err := cmd.Run()
				lf.Close()
				var rs []*BatchResult
				data, rerr := os.ReadFile(out)
				if rerr == nil {
					rerr = json.Unmarshal(data, &rs)
				}
				mu.Lock()
				if rerr != nil {
					tail := tailOf(logf, 30)
					incon = append(incon, fmt.Sprintf("batches %d..%d: child died (%v): %s", j.from, j.to-1, err, tail))
				} else {
					results = append(results, rs...)
					if len(rs) < j.to-j.from {
						incon = append(incon, fmt.Sprintf("batches %d..%d: child returned %d results (%v): %s", j.from, j.to-1, len(rs), err, tailOf(logf, 30)))
					}
				}
				mu.Unlock()
			}
		}()
	}
	for _, j := range jobs {
		jobCh <- j
	}
	close(jobCh)
	wg.Wait()

	m := &Merged{Batches: n, Distinct: map[uint64]struct{}{}, States: map[uint64]struct{}{}, Hits: map[string]int{}, Extra: map[string]int{}, Known: map[string]*KnownHit{}, Observations: map[string]int{}, Inconclusive: incon}
	sort.Slice(results, func(i, j int) bool { return results[i].Index < results[j].Index })
	for _, r := range results {
		if r.Inconclusive != "" {
			m.Inconclusive = append(m.Inconclusive, fmt.Sprintf("batch %d: %s", r.Index, r.Inconclusive))
			// violations found before the batch became inconclusive are still violations
			m.Violations = append(m.Violations, r.Violations...)
			continue
		}
		m.Conclusive++
		m.Evaluations += r.Evaluations
		m.Txs += r.Txs
		m.Reads += r.Reads
		for _, d := range r.Distinct {
			m.Distinct[d] = struct{}{}
		}
		for _, d := range r.States {
			m.States[d] = struct{}{}
		}
		for k, v := range r.Hits {
			m.Hits[k] += v
		}
		for k, v := range r.Extra {
			m.Extra[k] += v
		}
		for k, v := range r.Observations {
			m.Observations[k] += v
		}
		for k, v := range r.Known {
			if m.Known[k] == nil {
				m.Known[k] = &KnownHit{ID: k, What: v.What}
			}
			m.Known[k].Count += v.Count
		}
		m.Violations = append(m.Violations, r.Violations...)
		if len(m.Samples) < 6 {
			for _, s := range r.Samples {
				if len(m.Samples) < 6 {
					m.Samples = append(m.Samples, s)
				}
			}
		}
	}
	// race reports (only C13 builds with -race; harmless otherwise)
	races := collectRaces(work)
	for _, rr := range races {
		if rr.inRepo {
			p := filepath.Join(ReplayDir(), fmt.Sprintf("%s-race-%d.txt", id, h64(rr.key)%100000))
			os.MkdirAll(filepath.Dir(p), 0o755)
			os.WriteFile(p, []byte(rr.text), 0o644)
			m.Violations = append(m.Violations, Violation{Property: id, Msg: "data race with a frame in neofs-contract/deploy: " + rr.key, Replay: p})
		} else {
			m.Observations["data race outside neofs-contract (neo-go internals): "+rr.key]++
		}
	}
	if c.Race {
		m.Extra["race_reports_total"] = len(races)
	}

	var missing []string
	for _, f := range c.Floors {
		if m.Hits[f] == 0 {
			missing = append(missing, f)
		}
	}
	verdict := "held"
	code := 0
	if len(m.Violations) > 0 {
		verdict = "violated"
		code = 1
	} else if len(missing) > 0 || m.Conclusive == 0 || m.Evaluations == 0 {
		verdict = "inconclusive"
		code = 2
	} else if len(m.Inconclusive) > 0 {
		// some batches were not judged: a panic of the harness itself is a defect of the machinery and
		// never yields "held"; otherwise (watchdogs, refused preparations) a tenth of the batches is tolerated
		panicked := false
		for _, s := range m.Inconclusive {
			if strings.Contains(s, "harness panic") {
				panicked = true
			}
		}
		if panicked || 10*len(m.Inconclusive) > n {
			verdict = "inconclusive"
			code = 2
		}
	}
	for _, s := range m.Inconclusive {
		fmt.Printf("INCONCLUSIVE: %s %s\n", id, s)
	}
	if len(missing) > 0 {
		fmt.Printf("INCONCLUSIVE: %s floor not met, never observed: %s\n", id, strings.Join(missing, ", "))
	}
	findings, _ := loadFindings()
	var kids []string
	for k := range m.Known {
		kids = append(kids, k)
	}
	sort.Strings(kids)
	for _, k := range kids {
		fmt.Printf("KNOWN-FINDING: property=%s %s: %s (seen %d times)\n", id, k, m.Known[k].What, m.Known[k].Count)
	}
	_ = findings
	seen := map[string]bool{}
	for _, v := range m.Violations {
		fmt.Printf("VIOLATION property=%s replay=%s\n", id, v.Replay)
		if !seen[v.Msg] {
			seen[v.Msg] = true
			fmt.Printf("  batch %d: %s\n", v.Batch, v.Msg)
		}
	}
	writeEvidence(c, tier, seed, m, time.Since(t0), missing, verdict)
	fmt.Printf("%s %s seed=%d: %s — %d batches (%d conclusive), %d evaluations, %d distinct non-trivial, %d states, %d tx, %d reads, %.1fs\n",
		id, tier, seed, verdict, n, m.Conclusive, m.Evaluations, len(m.Distinct), len(m.States), m.Txs, m.Reads, time.Since(t0).Seconds())
	return code
}

func tailOf(path string, n int) string {
	data, err := os.ReadFile(path)
	if err != nil {
		return ""
	}
	lines := strings.Split(strings.TrimSpace(string(data)), "\n")
	if len(lines) > n {
		lines = lines[len(lines)-n:]
	}
	return strings.Join(lines, " | ")
}

type raceReport struct {
	key    string
	text   string
	inRepo bool
}

func collectRaces(work string) []raceReport {
	files, _ := filepath.Glob(filepath.Join(work, "race.*"))
	seen := map[string]bool{}
	var res []raceReport
	for _, f := range files {
		data, err := os.ReadFile(f)
		if err != nil {
			continue
		}
		blocks := strings.Split(string(data), "==================")
		for _, b := range blocks {
			if !strings.Contains(b, "WARNING: DATA RACE") {
				continue
			}
			// key: function names of the first frame of each stack, line numbers stripped
			var fr []string
			lines := strings.Split(b, "\n")
			for i, l := range lines {
				t := strings.TrimSpace(l)
				if strings.HasPrefix(t, "Read at") || strings.HasPrefix(t, "Write at") || strings.HasPrefix(t, "Previous read at") || strings.HasPrefix(t, "Previous write at") {
					if i+1 < len(lines) {
						fn := strings.TrimSpace(lines[i+1])
						fn = strings.TrimSuffix(fn, "()")
						fr = append(fr, fn)
					}
				}
			}
			key := strings.Join(fr, " <-> ")
			if seen[key] {
				continue
			}
			seen[key] = true
			res = append(res, raceReport{key: key, text: b, inRepo: strings.Contains(b, "neofs-contract/deploy")})
		}
	}
	return res
}

func child(args []string) int {
	// child <ID> <tier> <seed> <from> <to> <work> <out>
	if len(args) < 7 {
		return 2
	}
	id, tier := args[0], args[1]
	seed, _ := strconv.ParseUint(args[2], 10, 64)
	from, _ := strconv.Atoi(args[3])
	to, _ := strconv.Atoi(args[4])
	work, out := args[5], args[6]
	c := Get(id)
	if c == nil {
		return 2
	}
	var set, helpers world.Set
	var err error
	if !c.NoTree {
		if set, err = world.LoadSet(filepath.Join(work, "artifacts")); err != nil {
			fmt.Println("load artifacts:", err)
			return 2
		}
	}
	if len(c.Helpers) > 0 {
		if helpers, err = world.LoadSet(filepath.Join(work, "helpers")); err != nil {
			fmt.Println("load helpers:", err)
			return 2
		}
	}
	_, known := loadFindings()
	var rs []*BatchResult
	flush := func() {
		data, _ := json.Marshal(rs)
		os.WriteFile(out+".tmp", data, 0o644)
		os.Rename(out+".tmp", out)
	}
	for i := from; i < to; i++ {
		fmt.Printf("batch %d start\n", i)
		rs = append(rs, runOne(c, id, tier, seed, i, set, helpers, known, work, false))
		flush()
	}
	return 0
}

func runOne(c *Check, id, tier string, seed uint64, i int, set, helpers world.Set, known map[string]string, work string, isReplay bool) (res *BatchResult) {
	b := newBatch(id, tier, seed, i, set, helpers, known, work)
	b.Replay = isReplay
	t0 := time.Now()
	defer func() {
		if r := recover(); r != nil {
			b.Inconclusive(fmt.Sprintf("harness panic: %v\n%s", r, debug.Stack()))
			res = b.finish(t0)
		}
	}()
	c.Run(b)
	return b.finish(t0)
}

func replay(id, path string) int {
	c := Get(id)
	if c == nil {
		fmt.Fprintln(os.Stderr, "unknown check", id)
		return 2
	}
	data, err := os.ReadFile(path)
	if err != nil {
		fmt.Fprintln(os.Stderr, err)
		return 2
	}
	var rep struct {
		Tier  string `json:"tier"`
		Seed  uint64 `json:"seed"`
		Batch int    `json:"batch"`
		Msg   string `json:"msg"`
	}
	if err := json.Unmarshal(data, &rep); err != nil {
		fmt.Fprintln(os.Stderr, err)
		return 2
	}
	work, err := os.MkdirTemp(workRoot(), "verif-replay-")
	if err != nil {
		return 2
	}
	defer os.RemoveAll(work)
	var set, helpers world.Set
	if !c.NoTree {
		if set, err = world.CompileTree(world.RepoDir()); err != nil {
			fmt.Fprintln(os.Stderr, err)
			return 2
		}
	}
	if len(c.Helpers) > 0 {
		if helpers, err = loadHelpers(c.Helpers); err != nil {
			fmt.Fprintln(os.Stderr, err)
			return 2
		}
	}
	if c.Prepare != nil {
		if err := c.Prepare(rep.Tier, work); err != nil {
			fmt.Fprintln(os.Stderr, err)
			return 2
		}
	}
	_, known := loadFindings()
	fmt.Printf("replaying %s tier=%s seed=%d batch=%d (recorded: %s)\n", id, rep.Tier, rep.Seed, rep.Batch, rep.Msg)
	r := runOne(c, id, rep.Tier, rep.Seed, rep.Batch, set, helpers, known, work, true)
	for _, v := range r.Violations {
		d, _ := json.MarshalIndent(v.Detail, "  ", " ")
		fmt.Printf("VIOLATION property=%s replay=%s\n  %s\n  %s\n", id, path, v.Msg, d)
	}
	if r.Inconclusive != "" {
		fmt.Println("INCONCLUSIVE:", r.Inconclusive)
		return 2
	}
	if len(r.Violations) > 0 {
		return 1
	}
	fmt.Println("no violation reproduced")
	return 0
}

func writeEvidence(c *Check, tier string, seed uint64, m *Merged, wall time.Duration, missing []string, verdict string) {
	cov := map[string]any{
		"evaluations":         m.Evaluations,
		"distinct_nontrivial": len(m.Distinct),
		"rule":                c.Rule,
		"samples":             m.Samples,
		"states":              len(m.States),
		"transactions_run":    m.Txs,
		"reads_judged":        m.Reads,
		"batches":             m.Batches,
		"batches_conclusive":  m.Conclusive,
		"hits":                m.Hits,
		"verdict":             verdict,
	}
	if len(m.Samples) == 0 {
		cov["samples"] = []any{}
	}
	if len(m.Extra) > 0 {
		for k, v := range m.Extra {
			cov[k] = v
		}
	}
	if len(m.Observations) > 0 {
		cov["observations_not_judged"] = m.Observations
	}
	if len(m.Known) > 0 {
		var ks []any
		for _, k := range m.Known {
			ks = append(ks, k)
		}
		cov["known_findings_fired"] = ks
	}
	if len(m.Inconclusive) > 0 {
		inc := m.Inconclusive
		if len(inc) > 20 {
			inc = inc[:20]
		}
		cov["inconclusive"] = inc
	}
	if len(missing) > 0 {
		cov["floors_missing"] = missing
	}
	cov["floors"] = c.Floors
	if c.Exhaustive != nil {
		if ex, what := c.Exhaustive(tier); ex {
			cov["exhaustive"] = true
			cov["exhaustive_scope"] = what
		}
	}
	if c.Finish != nil {
		c.Finish(m, cov)
	}
	if len(m.Violations) > 0 {
		var vs []any
		for i, v := range m.Violations {
			if i >= 10 {
				break
			}
			vs = append(vs, map[string]any{"batch": v.Batch, "msg": v.Msg, "replay": v.Replay})
		}
		cov["violations_found"] = vs
	}
	ev := map[string]any{
		"property_id": c.ID,
		"tier":        tier,
		"seed":        int64(seed),
		"level":       c.Level,
		"coverage":    cov,
		"assumptions": c.Assumptions,
		"wall_s":      wall.Seconds(),
		"violations":  len(m.Violations),
	}
	data, _ := json.MarshalIndent(ev, "", " ")
	p := filepath.Join(EvidenceDir(), c.ID+".json")
	os.MkdirAll(filepath.Dir(p), 0o755)
	os.WriteFile(p, data, 0o644)
}
