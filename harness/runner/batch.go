// Package runner executes the batches of a check in child processes, merges
// what the monitors observed, matches known findings, writes the evidence file
// and decides the exit status (0 held / 1 violation / 2 inconclusive).
package runner

import (
	"encoding/json"
	"fmt"
	"hash/fnv"
	"math/rand/v2"
	"os"
	"path/filepath"
	"sort"
	"time"

	"verif/harness/world"
)

// Violation is one refuted expectation with its witness.
type Violation struct {
	Property string `json:"property"`
	Batch    int    `json:"batch"`
	Msg      string `json:"msg"`
	Detail   any    `json:"detail,omitempty"`
	Replay   string `json:"replay,omitempty"`
}

// KnownHit is a discrepancy completely explained by a KNOWN_FINDINGS entry.
type KnownHit struct {
	ID    string `json:"id"`
	Count int    `json:"count"`
	What  string `json:"what"`
}

// BatchResult is what a batch reports to the parent.
type BatchResult struct {
	Index        int                  `json:"index"`
	Evaluations  int                  `json:"evaluations"`
	Txs          int                  `json:"txs"`
	Reads        int                  `json:"reads"`
	Distinct     []uint64             `json:"distinct"`
	States       []uint64             `json:"states"`
	Hits         map[string]int       `json:"hits"`
	Violations   []Violation          `json:"violations,omitempty"`
	Known        map[string]*KnownHit `json:"known,omitempty"`
	Observations map[string]int       `json:"observations,omitempty"`
	Samples      []any                `json:"samples,omitempty"`
	Inconclusive string               `json:"inconclusive,omitempty"`
	WallS        float64              `json:"wall_s"`
	Extra        map[string]int       `json:"extra,omitempty"`
}

// Batch is the context a check's batch function works in.
type Batch struct {
	ID      string
	Tier    string
	Seed    uint64
	Index   int
	Rng     *rand.Rand
	Set     world.Set // contracts compiled from the working tree
	Helpers world.Set // helper contracts compiled from /verif/helpers
	WorkDir string
	Replay  bool

	res      *BatchResult
	distinct map[uint64]struct{}
	states   map[uint64]struct{}
	known    map[string]string // id -> status from KNOWN_FINDINGS.json
	// history provider for replays (set by checks: usually world.History rendering)
	HistoryFn func() []any
	maxViol   int
}

// Thorough reports the thorough tier.
func (b *Batch) Thorough() bool { return b.Tier == "thorough" }

func h64(s string) uint64 {
	h := fnv.New64a()
	h.Write([]byte(s))
	return h.Sum64()
}

// Eval counts one judged case. key identifies its class (operation kind,
// outcome class, abstract pre-state class); nontrivial says whether the case
// changed state or was a refusal of a state-changing request.
func (b *Batch) Eval(key string, nontrivial bool) {
	b.res.Evaluations++
	if nontrivial {
		b.distinct[h64(key)] = struct{}{}
	}
}

// EvalN counts n judged cases of one class.
func (b *Batch) EvalN(key string, n int, nontrivial bool) {
	b.res.Evaluations += n
	if nontrivial && n > 0 {
		b.distinct[h64(key)] = struct{}{}
	}
}

// State records an abstract state seen.
func (b *Batch) State(s string) { b.states[h64(s)] = struct{}{} }

// Hit counts an event class (floors and the per-branch table).
func (b *Batch) Hit(name string) { b.res.Hits[name]++ }

// HitN counts n.
func (b *Batch) HitN(name string, n int) { b.res.Hits[name] += n }

// Tx counts executed transactions, Read counts judged reads.
func (b *Batch) Tx(n int)   { b.res.Txs += n }
func (b *Batch) Read(n int) { b.res.Reads += n }

// Extra adds to a free-form counter.
func (b *Batch) Extra(name string, n int) {
	if b.res.Extra == nil {
		b.res.Extra = map[string]int{}
	}
	b.res.Extra[name] += n
}

// Observe logs a behaviour that is deliberately not judged.
func (b *Batch) Observe(what string) {
	if b.res.Observations == nil {
		b.res.Observations = map[string]int{}
	}
	b.res.Observations[what]++
}

// Sample keeps a literal case for the evidence file (first few only).
func (b *Batch) Sample(v any) {
	if len(b.res.Samples) < 3 {
		b.res.Samples = append(b.res.Samples, v)
	}
}

// Inconclusive marks the batch as not judged.
func (b *Batch) Inconclusive(why string) {
	if b.res.Inconclusive == "" {
		b.res.Inconclusive = why
	}
}

// Violations so far.
func (b *Batch) NViolations() int { return len(b.res.Violations) }

// Violation records a refutation and writes the replay file.
func (b *Batch) Violation(msg string, detail any) {
	if len(b.res.Violations) >= b.maxViol {
		return
	}
	v := Violation{Property: b.ID, Batch: b.Index, Msg: msg, Detail: detail}
	if !b.Replay {
		dir := ReplayDir()
		os.MkdirAll(dir, 0o755)
		p := filepath.Join(dir, fmt.Sprintf("%s-%s-%d-%d-%d.json", b.ID, b.Tier, b.Seed, b.Index, len(b.res.Violations)))
		rep := map[string]any{"property": b.ID, "tier": b.Tier, "seed": b.Seed, "batch": b.Index, "msg": msg, "detail": detail}
		if b.HistoryFn != nil {
			h := b.HistoryFn()
			if len(h) > 400 {
				h = h[len(h)-400:]
			}
			rep["history_tail"] = h
		}
		data, _ := json.MarshalIndent(rep, "", " ")
		if err := os.WriteFile(p, data, 0o644); err == nil {
			v.Replay = p
		}
	}
	b.res.Violations = append(b.res.Violations, v)
}

// Violationf formats.
func (b *Batch) Violationf(detail any, format string, a ...any) {
	b.Violation(fmt.Sprintf(format, a...), detail)
}

// Known downgrades a discrepancy to a known finding — only if the committed
// KNOWN_FINDINGS.json lists id with status "known". Otherwise it is a violation.
func (b *Batch) Known(id, what string, detail any) {
	if b.known[id] != "known" {
		b.Violation(fmt.Sprintf("[%s] %s", id, what), detail)
		return
	}
	if b.res.Known == nil {
		b.res.Known = map[string]*KnownHit{}
	}
	k := b.res.Known[id]
	if k == nil {
		k = &KnownHit{ID: id, What: what}
		b.res.Known[id] = k
	}
	k.Count++
}

// KnownStatus returns the status of a finding id in KNOWN_FINDINGS.json ("" if absent).
func (b *Batch) KnownStatus(id string) string { return b.known[id] }

func newBatch(id, tier string, seed uint64, index int, set, helpers world.Set, known map[string]string, work string) *Batch {
	return &Batch{
		ID: id, Tier: tier, Seed: seed, Index: index,
		Rng:      rand.New(rand.NewPCG(seed, uint64(index)*0x9e3779b97f4a7c15+h64(id))),
		Set:      set,
		Helpers:  helpers,
		WorkDir:  work,
		res:      &BatchResult{Index: index, Hits: map[string]int{}},
		distinct: map[uint64]struct{}{}, states: map[uint64]struct{}{},
		known:   known,
		maxViol: 5,
	}
}

func (b *Batch) finish(t0 time.Time) *BatchResult {
	b.res.WallS = time.Since(t0).Seconds()
	b.res.Distinct = keysOf(b.distinct)
	b.res.States = keysOf(b.states)
	return b.res
}

func keysOf(m map[uint64]struct{}) []uint64 {
	res := make([]uint64, 0, len(m))
	for k := range m {
		res = append(res, k)
	}
	sort.Slice(res, func(i, j int) bool { return res[i] < res[j] })
	return res
}

// VerifDir is the root of the verification tree.
func VerifDir() string {
	if d := os.Getenv("VERIF_DIR"); d != "" {
		return d
	}
	return "/verif"
}

// EvidenceDir is where evidence files go (VERIF_EVIDENCE_DIR redirects self-test runs).
func EvidenceDir() string {
	if d := os.Getenv("VERIF_EVIDENCE_DIR"); d != "" {
		return d
	}
	return filepath.Join(VerifDir(), "evidence")
}

// ReplayDir is where replay files go.
func ReplayDir() string {
	if d := os.Getenv("VERIF_REPLAY_DIR"); d != "" {
		return d
	}
	return filepath.Join(VerifDir(), "replays")
}

// Pick returns a random element.
func Pick[T any](r *rand.Rand, xs []T) T { return xs[r.IntN(len(xs))] }
