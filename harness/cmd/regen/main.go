// Command regen regenerates contract.nef / manifest.json / rpcbinding.go of the
// repository (VERIF_REPO or /repo) with the pinned compiler library, the way
// `make` does with neo-go v0.107.0. With -check it only reports differences.
package main

import (
	"bytes"
	"flag"
	"fmt"
	"os"
	"path/filepath"

	"verif/harness/world"
)

func main() {
	check := flag.Bool("check", false, "report differences, write nothing")
	flag.Parse()
	repo := world.RepoDir()
	names := flag.Args()
	if len(names) == 0 {
		names = world.ContractNames
	}
	diff := 0
	for _, n := range names {
		g, err := world.Regenerate(repo, n)
		if err != nil {
			fmt.Fprintln(os.Stderr, err)
			os.Exit(2)
		}
		ch := ""
		for _, f := range []struct {
			p string
			b []byte
		}{{filepath.Join(repo, "contracts", n, "contract.nef"), g.NEF}, {filepath.Join(repo, "contracts", n, "manifest.json"), g.Manifest}, {filepath.Join(repo, "rpc", n, "rpcbinding.go"), g.Binding}} {
			old, _ := os.ReadFile(f.p)
			if !bytes.Equal(old, f.b) {
				diff++
				ch += " " + filepath.Base(f.p)
				if !*check {
					if err := os.WriteFile(f.p, f.b, 0o644); err != nil {
						fmt.Fprintln(os.Stderr, err)
						os.Exit(2)
					}
				}
			}
		}
		fmt.Printf("%-11s changed:%s\n", n, ch)
	}
	if *check && diff > 0 {
		os.Exit(1)
	}
}
