package main

import (
	"fmt"
	"time"

	"verif/harness/world"
)

func main() {
	t0 := time.Now()
	set, err := world.CompileTree(world.RepoDir())
	if err != nil {
		panic(err)
	}
	fmt.Println("compiled in", time.Since(t0))
	for _, n := range []int{1, 3, 4, 7} {
		t0 = time.Now()
		w, err := world.New(world.Options{N: n, Seed: 1})
		if err != nil {
			panic(err)
		}
		if err := w.DeployFS(set, world.FSOptions{Alphabet: true}); err != nil {
			panic(err)
		}
		fmt.Println("n", n, "world in", time.Since(t0), "height", w.Height())
		r := w.Invoke(w.Alpha(), w.H("netmap"), "newEpoch", int64(1))
		fmt.Println(" tick:", r.State, r.Fault, len(r.Events), r.Diff.Count())
		r = w.Invoke(w.Major(), w.H("netmap"), "newEpoch", int64(2))
		fmt.Println(" tick by majority:", r.State, r.Fault)
		rr := w.Read(w.H("netmap"), "epoch")
		fmt.Println(" epoch:", world.RenderItems(rr.Stack), rr.Err)
		t0 = time.Now()
		for i := 0; i < 200; i++ {
			w.Invoke(w.Alpha(), w.H("balance"), "mint", world.Hash160Of(w.Privs[0]), int64(5), []byte{1})
		}
		fmt.Println(" 200 mints:", time.Since(t0))
		t0 = time.Now()
		for i := 0; i < 1000; i++ {
			w.Read(w.H("balance"), "balanceOf", world.Hash160Of(w.Privs[0]))
		}
		fmt.Println(" 1000 reads:", time.Since(t0))
		w.Close()
	}
}
