// Command verif runs the runtime monitors of /verif against the working tree of /repo.
package main

import (
	"os"

	_ "verif/harness/checks/artifacts"
	_ "verif/harness/checks/balance"
	_ "verif/harness/checks/container"
	_ "verif/harness/checks/deployc"
	_ "verif/harness/checks/gov"
	_ "verif/harness/checks/netmap"
	_ "verif/harness/checks/nns"
	_ "verif/harness/checks/stores"
	_ "verif/harness/checks/upgrade"
	_ "verif/harness/checks/witness"
	"verif/harness/runner"
)

func main() { os.Exit(runner.Main(os.Args[1:])) }
