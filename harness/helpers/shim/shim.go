// Package shim is a helper contract (lives in /verif only): it stands in for an
// old deployment of a NeoFS contract. Storage is written through Poke in the
// layout of the chosen old version; Update forwards to ContractManagement with
// the caller-supplied data (whose last element is the version to report), so
// the real _deploy(isUpdate) of the tree runs over that storage.
package shim

import (
	"github.com/nspcc-dev/neo-go/pkg/interop"
	"github.com/nspcc-dev/neo-go/pkg/interop/contract"
	"github.com/nspcc-dev/neo-go/pkg/interop/native/management"
	"github.com/nspcc-dev/neo-go/pkg/interop/storage"
)

// Poke writes a raw storage item.
func Poke(key, value []byte) {
	storage.Put(storage.GetContext(), key, value)
}

// PokeMany writes raw storage items given as [key, value, key, value, ...].
func PokeMany(kvs [][]byte) {
	ctx := storage.GetContext()
	for i := 0; i < len(kvs); i += 2 {
		storage.Put(ctx, kvs[i], kvs[i+1])
	}
}

// Update forwards to ContractManagement.update with data as given.
func Update(nef []byte, manifest []byte, data any) {
	contract.Call(interop.Hash160(management.Hash), "update", contract.All, nef, manifest, data)
}

// SubscribeForNewEpoch lets the shim stand in for Netmap during deployments of its subscribers.
func SubscribeForNewEpoch(h interop.Hash160) {}
