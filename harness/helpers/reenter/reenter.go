// Package reenter is a helper contract (lives in /verif only): a GAS receiver that,
// once armed, calls NeoFS.cheque again from inside its NEP-17 payment callback,
// i.e. while the paying cheque invocation is still running.
package reenter

import (
	"github.com/nspcc-dev/neo-go/pkg/interop"
	"github.com/nspcc-dev/neo-go/pkg/interop/contract"
	"github.com/nspcc-dev/neo-go/pkg/interop/runtime"
	"github.com/nspcc-dev/neo-go/pkg/interop/storage"
)

// Arm stores the cheque to ask for on the next payment.
func Arm(neofs interop.Hash160, id []byte, amount int) {
	ctx := storage.GetContext()
	storage.Put(ctx, "neofs", neofs)
	storage.Put(ctx, "id", id)
	storage.Put(ctx, "amount", amount)
	storage.Put(ctx, "armed", 1)
}

// OnNEP17Payment re-enters once if armed and paid by the NeoFS contract.
func OnNEP17Payment(from interop.Hash160, amount int, data any) {
	ctx := storage.GetContext()
	if storage.Get(ctx, "armed") == nil {
		return
	}
	neofs := storage.Get(ctx, "neofs").(interop.Hash160)
	if from == nil || !from.Equals(neofs) {
		return
	}
	storage.Delete(ctx, "armed")
	contract.Call(neofs, "cheque", contract.All, storage.Get(ctx, "id"), runtime.GetExecutingScriptHash(), storage.Get(ctx, "amount").(int), []byte{1, 2})
}
