// Package token is a helper contract (lives in /verif only): a foreign "NEP-17"
// token whose transfer only delivers the onNEP17Payment callback.
package token

import (
	"github.com/nspcc-dev/neo-go/pkg/interop"
	"github.com/nspcc-dev/neo-go/pkg/interop/contract"
	"github.com/nspcc-dev/neo-go/pkg/interop/runtime"
)

// Transfer pretends to move amount from `from` to `to` and calls the receiver's callback.
func Transfer(from, to interop.Hash160, amount int, data any) bool {
	contract.Call(to, "onNEP17Payment", contract.All, from, amount, data)
	runtime.Notify("Transfer", from, to, amount)
	return true
}
