// Package registrar is a helper contract (lives in /verif only): a contract that
// registers NNS names for itself and passes each one on to a buyer from inside
// its NEP-11 payment callback, i.e. it re-enters NNS while `register` is still
// running.
package registrar

import (
	"github.com/nspcc-dev/neo-go/pkg/interop"
	"github.com/nspcc-dev/neo-go/pkg/interop/contract"
	"github.com/nspcc-dev/neo-go/pkg/interop/runtime"
	"github.com/nspcc-dev/neo-go/pkg/interop/storage"
)

// Buy registers name with the registrar as the owner; when buyer is a 20-byte
// address the token is forwarded to it from OnNEP11Payment.
func Buy(nns interop.Hash160, name string, buyer []byte, expire int) bool {
	ctx := storage.GetContext()
	storage.Put(ctx, "nns", nns)
	storage.Put(ctx, "buyer", buyer)
	ok := contract.Call(nns, "register", contract.All, name, runtime.GetExecutingScriptHash(), "ops@x.io", 3600, 600, expire, 3600).(bool)
	// nobody is waiting any more (a refused registration never reaches the callback)
	storage.Put(ctx, "buyer", []byte{})
	return ok
}

// OnNEP11Payment forwards the received name once if a buyer is waiting for it.
func OnNEP11Payment(from interop.Hash160, amount int, token []byte, data any) {
	ctx := storage.GetContext()
	b := storage.Get(ctx, "buyer")
	if b == nil || len(b.([]byte)) != 20 {
		return
	}
	storage.Put(ctx, "buyer", []byte{})
	nns := storage.Get(ctx, "nns").(interop.Hash160)
	if !runtime.GetCallingScriptHash().Equals(nns) {
		return
	}
	// b is handed on as it came out of the storage (a ByteString): a type assertion to Hash160 would
	// turn it into a Buffer, which NNS would store as the owner as it is
	contract.Call(nns, "transfer", contract.All, b, token, nil)
}

// KeepAgain transfers a name the registrar owns to the registrar itself, naming itself by a freshly built byte
// slice (a Buffer, as any address computed inside a contract is) rather than by the stored ByteString.
func KeepAgain(nns interop.Hash160, name string) bool {
	me := append([]byte{}, runtime.GetExecutingScriptHash()...)
	return contract.Call(nns, "transfer", contract.All, me, name, nil).(bool)
}
