// Package probe is a helper contract (lives in /verif only): a NewEpoch
// subscriber that records every call and can be told to reject.
package probe

import (
	"github.com/nspcc-dev/neo-go/pkg/interop"
	"github.com/nspcc-dev/neo-go/pkg/interop/contract"
	"github.com/nspcc-dev/neo-go/pkg/interop/native/management"
	"github.com/nspcc-dev/neo-go/pkg/interop/runtime"
	"github.com/nspcc-dev/neo-go/pkg/interop/storage"
)

// _deploy stores the probe's id.
// nolint:deadcode,unused
func _deploy(data any, isUpdate bool) {
	if isUpdate {
		return
	}
	ctx := storage.GetContext()
	storage.Put(ctx, "id", data.(int))
	storage.Put(ctx, "calls", 0)
}

// NewEpoch is the subscriber callback.
func NewEpoch(epoch int) {
	ctx := storage.GetContext()
	if storage.Get(ctx, "reject") != nil {
		panic("probe rejects the epoch")
	}
	n := storage.Get(ctx, "calls").(int)
	storage.Put(ctx, "calls", n+1)
	storage.Put(ctx, "last", epoch)
	runtime.Notify("Tick", storage.Get(ctx, "id").(int), epoch)
	// armed: call back into the notifier once, from inside the callback
	if t := storage.Get(ctx, "reenter"); t != nil {
		d := storage.Get(ctx, "delta").(int)
		storage.Delete(ctx, "reenter")
		contract.Call(t.(interop.Hash160), "newEpoch", contract.All, epoch+d)
	}
}

// SetReenter arms (or disarms) the probe: its next accepted callback calls newEpoch(epoch+delta) on target, once.
func SetReenter(target interop.Hash160, delta int, on bool) {
	ctx := storage.GetContext()
	if on {
		storage.Put(ctx, "reenter", target)
		storage.Put(ctx, "delta", delta)
	} else {
		storage.Delete(ctx, "reenter")
	}
}

// SetReject switches the rejecting mode.
func SetReject(on bool) {
	ctx := storage.GetContext()
	if on {
		storage.Put(ctx, "reject", 1)
	} else {
		storage.Delete(ctx, "reject")
	}
}

// Calls returns the number of accepted callbacks.
func Calls() int {
	return storage.Get(storage.GetReadOnlyContext(), "calls").(int)
}

// Destroy removes the probe from the chain: a subscriber that can no longer be called.
func Destroy() {
	management.Destroy()
}

// Subscribe asks the notifier to subscribe this very contract: the request comes from the contract it is about.
func Subscribe(target interop.Hash160) {
	contract.Call(target, "subscribeForNewEpoch", contract.All, runtime.GetExecutingScriptHash())
}
