// Package holder is a helper contract (lives in /verif only): a contract that
// owns NEOFS balance and calls Balance.transfer, for itself and — as an
// attacker — for other accounts.
package holder

import (
	"github.com/nspcc-dev/neo-go/pkg/interop"
	"github.com/nspcc-dev/neo-go/pkg/interop/contract"
	"github.com/nspcc-dev/neo-go/pkg/interop/runtime"
)

// Move transfers the holder's own funds.
func Move(balance interop.Hash160, to interop.Hash160, amount int) bool {
	return contract.Call(balance, "transfer", contract.All, runtime.GetExecutingScriptHash(), to, amount, nil).(bool)
}

// MoveFrom asks Balance to move funds of another account.
func MoveFrom(balance, from, to interop.Hash160, amount int) bool {
	return contract.Call(balance, "transfer", contract.All, from, to, amount, nil).(bool)
}

// OnNEP17Payment accepts anything.
func OnNEP17Payment(from interop.Hash160, amount int, data any) {}

// OnNEP11Payment accepts anything.
func OnNEP11Payment(from interop.Hash160, amount int, token []byte, data any) {}
