// Package artifacts holds the monitors of C15: the shipped executables, manifests and RPC
// bindings correspond to the sources of the same tree.
package artifacts

import (
	"bytes"
	"errors"
	"fmt"
	"math/big"
	"os"
	"path/filepath"
	"reflect"
	"strings"

	"github.com/google/uuid"
	"github.com/nspcc-dev/neo-go/pkg/core/transaction"
	"github.com/nspcc-dev/neo-go/pkg/crypto/keys"
	"github.com/nspcc-dev/neo-go/pkg/neorpc/result"
	"github.com/nspcc-dev/neo-go/pkg/smartcontract"
	"github.com/nspcc-dev/neo-go/pkg/util"
	"github.com/nspcc-dev/neo-go/pkg/vm/stackitem"
	"github.com/nspcc-dev/neofs-contract/contracts"
	rpcalphabet "github.com/nspcc-dev/neofs-contract/rpc/alphabet"
	rpcaudit "github.com/nspcc-dev/neofs-contract/rpc/audit"
	rpcbalance "github.com/nspcc-dev/neofs-contract/rpc/balance"
	rpccontainer "github.com/nspcc-dev/neofs-contract/rpc/container"
	rpcneofs "github.com/nspcc-dev/neofs-contract/rpc/neofs"
	rpcneofsid "github.com/nspcc-dev/neofs-contract/rpc/neofsid"
	rpcnetmap "github.com/nspcc-dev/neofs-contract/rpc/netmap"
	rpcnns "github.com/nspcc-dev/neofs-contract/rpc/nns"
	rpcprocessing "github.com/nspcc-dev/neofs-contract/rpc/processing"
	rpcproxy "github.com/nspcc-dev/neofs-contract/rpc/proxy"
	rpcreputation "github.com/nspcc-dev/neofs-contract/rpc/reputation"

	"verif/harness/checks/witness"
	"verif/harness/runner"
	"verif/harness/world"
)

// ---- part 1: the build pipeline is run and compared byte for byte

func runRegenerate(b *runner.Batch) {
	repo := world.RepoDir()
	for _, name := range world.ContractNames {
		g, err := world.Regenerate(repo, name)
		if err != nil {
			b.Violation(fmt.Sprintf("the build pipeline fails for %s: %v", name, err), nil)
			continue
		}
		for _, f := range []struct {
			path string
			data []byte
		}{{filepath.Join("contracts", name, "contract.nef"), g.NEF}, {filepath.Join("contracts", name, "manifest.json"), g.Manifest}, {filepath.Join("rpc", name, "rpcbinding.go"), g.Binding}} {
			have, err := os.ReadFile(filepath.Join(repo, f.path))
			eq := err == nil && bytes.Equal(have, f.data)
			if !eq {
				at := -1
				for i := 0; i < len(have) && i < len(f.data); i++ {
					if have[i] != f.data[i] {
						at = i
						break
					}
				}
				b.Violation(fmt.Sprintf("%s is not what the pinned compiler and binding generator produce from the sources (committed %d bytes, regenerated %d bytes, first difference at byte %d)", f.path, len(have), len(f.data), at),
					map[string]any{"artifact": f.path})
			}
			b.Eval("artifact|"+f.path, true)
			b.Extra("artifacts_compared", 1)
		}
	}
	b.Hit("artifacts-regenerated")
	b.Sample(map[string]any{"pipeline": "compile with neo-go v0.107.0 library (config.Version=0.107.0, options from config.yml) -> manifest -> bindings config -> rpcbinding.Generate", "artifacts": "contracts/<c>/contract.nef, contracts/<c>/manifest.json, rpc/<c>/rpcbinding.go for 11 contracts"})
}

// embeddedSet: the executables and manifests embedded in the Go package /repo/contracts (what deploy gets).
func embeddedSet() (world.Set, error) {
	fs, err := contracts.GetFS()
	if err != nil {
		return nil, err
	}
	mn, err := contracts.GetMain()
	if err != nil {
		return nil, err
	}
	names := []string{"nns", "proxy", "audit", "netmap", "balance", "reputation", "neofsid", "container", "alphabet"}
	if len(fs) != len(names) || len(mn) != 2 {
		return nil, fmt.Errorf("GetFS returned %d contracts, GetMain %d", len(fs), len(mn))
	}
	set := world.Set{}
	add := func(name string, c contracts.Contract) error {
		ne, m := c.NEF, c.Manifest
		a, err := world.NewArtifact(name, &ne, &m)
		if err != nil {
			return err
		}
		set[name] = a
		return nil
	}
	for i, n := range names {
		if err := add(n, fs[i]); err != nil {
			return nil, err
		}
	}
	if err := add("neofs", mn[0]); err != nil {
		return nil, err
	}
	if err := add("processing", mn[1]); err != nil {
		return nil, err
	}
	// sanity: the slots hold what their position promises
	want := map[string]string{"nns": "NameService"}
	for n, w := range want {
		if set[n].Manifest.Name != w {
			return nil, fmt.Errorf("GetFS position of %s holds %q", n, set[n].Manifest.Name)
		}
	}
	return set, nil
}

// ---- part 2: differential execution of embedded vs freshly compiled contracts

func runDifferential(b *runner.Batch, part, parts int) {
	emb, err := embeddedSet()
	if err != nil {
		b.Violation("embedded contracts cannot be read: "+err.Error(), nil)
		return
	}
	for name, a := range emb {
		f := b.Set[name]
		if f == nil {
			continue
		}
		if a.Manifest.Name != f.Manifest.Name {
			b.Violation(fmt.Sprintf("embedded slot %s holds contract %q, the sources compile to %q", name, a.Manifest.Name, f.Manifest.Name), nil)
			return
		}
	}
	n := []int{3, 1, 7}[(part/parts)%3]
	cnt := witness.Differential(b, n, emb, b.Set, "embedded", "freshly compiled", func(i int) bool { return i%parts == part%parts })
	b.Extra("differential_transactions", cnt)
	if cnt > 0 {
		b.Hit("differential-executed")
	}
}

// ---- part 3: every generated binding method is exercised

// inv implements the Invoker/Actor interfaces the generated bindings ask for, on top of a world.
type inv struct {
	w       *world.World
	signers []world.SignerSpec
	calls   int
}

func (i *inv) script(contract util.Uint160, op string, params ...any) ([]byte, error) {
	ps, err := smartcontract.NewParametersFromValues(params...)
	if err != nil {
		return nil, err
	}
	em := make([]any, len(ps))
	for k := range ps {
		if em[k], err = smartcontract.ExpandParameterToEmitable(ps[k]); err != nil {
			return nil, err
		}
	}
	return smartcontract.CreateCallScript(contract, op, em...)
}

func (i *inv) run(script []byte, asRPC bool) *result.Invoke {
	i.calls++
	rd := i.w.ReadScript(world.ReadOpts{Signers: i.signers, IterAsRPC: asRPC}, script)
	res := &result.Invoke{State: "HALT", GasConsumed: rd.Gas, Script: script, Stack: rd.Stack}
	if !rd.OK() {
		res.State = "FAULT"
		res.FaultException = rd.Err
	}
	return res
}

func (i *inv) Call(contract util.Uint160, operation string, params ...any) (*result.Invoke, error) {
	s, err := i.script(contract, operation, params...)
	if err != nil {
		return nil, err
	}
	return i.run(s, true), nil
}

func (i *inv) CallAndExpandIterator(contract util.Uint160, method string, maxItems int, params ...any) (*result.Invoke, error) {
	s, err := i.script(contract, method, params...)
	if err != nil {
		return nil, err
	}
	return i.run(s, false), nil
}

func (i *inv) TerminateSession(sessionID uuid.UUID) error { return nil }

func (i *inv) TraverseIterator(sessionID uuid.UUID, iterator *result.Iterator, num int) ([]stackitem.Item, error) {
	v := iterator.Values
	if num < len(v) {
		iterator.Values = v[num:]
		return v[:num], nil
	}
	iterator.Values = nil
	return v, nil
}

func (i *inv) checked(script []byte) (*transaction.Transaction, error) {
	r := i.run(script, false)
	if r.State != "HALT" {
		return nil, fmt.Errorf("script failed (%s state) due to an error: %s", r.State, r.FaultException)
	}
	return transaction.New(script, r.GasConsumed), nil
}

func (i *inv) MakeCall(contract util.Uint160, method string, params ...any) (*transaction.Transaction, error) {
	// like neo-go's actor: the call goes through Invoker.Call, i.e. smartcontract.NewParametersFromValues
	s, err := i.script(contract, method, params...)
	if err != nil {
		return nil, err
	}
	return i.checked(s)
}
func (i *inv) MakeRun(script []byte) (*transaction.Transaction, error) { return i.checked(script) }
func (i *inv) MakeUnsignedCall(contract util.Uint160, method string, attrs []transaction.Attribute, params ...any) (*transaction.Transaction, error) {
	return i.MakeCall(contract, method, params...)
}
func (i *inv) MakeUnsignedRun(script []byte, attrs []transaction.Attribute) (*transaction.Transaction, error) {
	return i.checked(script)
}
func (i *inv) SendCall(contract util.Uint160, method string, params ...any) (util.Uint256, uint32, error) {
	return util.Uint256{}, 0, errors.New("sending is not part of this exercise")
}
func (i *inv) SendRun(script []byte) (util.Uint256, uint32, error) {
	return util.Uint256{}, 0, errors.New("sending is not part of this exercise")
}

type bindingPkg struct {
	name      string
	reader    func(i *inv, h util.Uint160) any
	writer    func(i *inv, h util.Uint160) any
	instance  string
	rawMethod map[string]string // Go method -> contract method for the raw comparison (readers)
}

var bindingPkgs = []bindingPkg{
	{name: "alphabet", instance: "alphabet0", reader: func(i *inv, h util.Uint160) any { return rpcalphabet.NewReader(i, h) }, writer: func(i *inv, h util.Uint160) any { return rpcalphabet.New(i, h) }},
	{name: "audit", instance: "audit", reader: func(i *inv, h util.Uint160) any { return rpcaudit.NewReader(i, h) }, writer: func(i *inv, h util.Uint160) any { return rpcaudit.New(i, h) }},
	{name: "balance", instance: "balance", reader: func(i *inv, h util.Uint160) any { return rpcbalance.NewReader(i, h) }, writer: func(i *inv, h util.Uint160) any { return rpcbalance.New(i, h) }},
	{name: "container", instance: "container", reader: func(i *inv, h util.Uint160) any { return rpccontainer.NewReader(i, h) }, writer: func(i *inv, h util.Uint160) any { return rpccontainer.New(i, h) }},
	{name: "neofs", instance: "neofs", reader: func(i *inv, h util.Uint160) any { return rpcneofs.NewReader(i, h) }, writer: func(i *inv, h util.Uint160) any { return rpcneofs.New(i, h) }},
	{name: "neofsid", instance: "neofsid", reader: func(i *inv, h util.Uint160) any { return rpcneofsid.NewReader(i, h) }, writer: func(i *inv, h util.Uint160) any { return rpcneofsid.New(i, h) }},
	{name: "netmap", instance: "netmap", reader: func(i *inv, h util.Uint160) any { return rpcnetmap.NewReader(i, h) }, writer: func(i *inv, h util.Uint160) any { return rpcnetmap.New(i, h) }},
	{name: "nns", instance: "nns", reader: func(i *inv, h util.Uint160) any { return rpcnns.NewReader(i, h) }, writer: func(i *inv, h util.Uint160) any { return rpcnns.New(i, h) }},
	{name: "processing", instance: "processing", reader: func(i *inv, h util.Uint160) any { return rpcprocessing.NewReader(i, h) }, writer: func(i *inv, h util.Uint160) any { return rpcprocessing.New(i, h) }},
	{name: "proxy", instance: "proxy", reader: func(i *inv, h util.Uint160) any { return rpcproxy.NewReader(i, h) }, writer: func(i *inv, h util.Uint160) any { return rpcproxy.New(i, h) }},
	{name: "reputation", instance: "reputation", reader: func(i *inv, h util.Uint160) any { return rpcreputation.NewReader(i, h) }, writer: func(i *inv, h util.Uint160) any { return rpcreputation.New(i, h) }},
}

// canned argument per Go parameter type
func canned(t reflect.Type, key *keys.PublicKey, h util.Uint160) reflect.Value {
	switch t {
	case reflect.TypeOf((*big.Int)(nil)):
		return reflect.ValueOf(big.NewInt(1))
	case reflect.TypeOf([]byte(nil)):
		return reflect.ValueOf(bytes.Repeat([]byte{7}, 32))
	case reflect.TypeOf(util.Uint160{}):
		return reflect.ValueOf(h)
	case reflect.TypeOf(util.Uint256{}):
		return reflect.ValueOf(util.Uint256{1, 2, 3})
	case reflect.TypeOf((*keys.PublicKey)(nil)):
		return reflect.ValueOf(key)
	case reflect.TypeOf(""):
		return reflect.ValueOf("name.neofs")
	case reflect.TypeOf(true):
		return reflect.ValueOf(true)
	case reflect.TypeOf(0):
		return reflect.ValueOf(10)
	case reflect.TypeOf(keys.PublicKeys(nil)):
		return reflect.ValueOf(keys.PublicKeys{key})
	}
	switch t.Kind() {
	case reflect.Interface:
		return reflect.Zero(t)
	case reflect.Slice:
		s := reflect.MakeSlice(t, 1, 1)
		s.Index(0).Set(canned(t.Elem(), key, h))
		return s
	case reflect.Ptr:
		v := reflect.New(t.Elem())
		if v.Elem().Kind() == reflect.Struct {
			for i := 0; i < v.Elem().NumField(); i++ {
				f := v.Elem().Field(i)
				if f.CanSet() {
					f.Set(canned(f.Type(), key, h))
				}
			}
		}
		return v
	case reflect.Map:
		return reflect.MakeMap(t)
	}
	return reflect.Zero(t)
}

var callFailure = []string{"method not found", "unknown method", "invalid number of", "wrong number of", "not found in the contract"}

func runBindings(b *runner.Batch) {
	emb, err := embeddedSet()
	if err != nil {
		b.Violation("embedded contracts cannot be read: "+err.Error(), nil)
		return
	}
	w, err := world.New(world.Options{N: 1, Seed: b.Seed, Batch: b.Index})
	if err != nil {
		b.Inconclusive(err.Error())
		return
	}
	defer w.Close()
	w.SysFee = 150_0000_0000
	cfg := []any{[]byte("ContainerFee"), int64(0), []byte("ContainerAliasFee"), int64(0)}
	if err := w.DeployFS(emb, world.FSOptions{NetmapConfig: cfg, Alphabet: true}); err != nil {
		b.Violation("the embedded contracts do not deploy: "+err.Error(), nil)
		return
	}
	var pubs []any
	for _, pk := range w.Pubs {
		pubs = append(pubs, pk.Bytes())
	}
	if _, err := w.Deploy("processing", emb["processing"], []any{util.Uint160{1}}); err != nil {
		b.Violation("embedded processing does not deploy: "+err.Error(), nil)
		return
	}
	if _, err := w.Deploy("neofs", emb["neofs"], []any{false, w.H("processing"), pubs, []any{[]byte("WithdrawFee"), int64(5)}}); err != nil {
		b.Violation("embedded neofs does not deploy: "+err.Error(), nil)
		return
	}
	// some state so that readers have something to decode
	A := w.Alpha()
	key := world.Key(b.Seed, b.Index, "c15-node", 0)
	pub := key.PublicKey()
	w.Invoke(A, w.H("netmap"), "addPeerIR", append(append([]byte{0x0a, 0x21}, pub.Bytes()...), 1))
	w.Invoke(A, w.H("netmap"), "newEpoch", int64(1))
	w.Invoke(A, w.H("netmap"), "newEpoch", int64(2))
	w.Invoke(A, w.H("balance"), "mint", w.Payer.ScriptHash(), int64(1000), []byte{1})
	w.Invoke(A, w.H("reputation"), "put", int64(1), pub.Bytes(), []byte("v"))
	w.Invoke(A, w.H("netmap"), "setConfig", []byte{1}, []byte("K"), []byte("V"))
	in := &inv{w: w, signers: []world.SignerSpec{world.G(w.Alphabet), world.G(w.Majority)}}
	total := 0
	for _, p := range bindingPkgs {
		h := w.H(p.instance)
		man := emb[p.name].Manifest
		for kind, obj := range map[string]any{"reader": p.reader(in, h), "writer": p.writer(in, h)} {
			v := reflect.ValueOf(obj)
			t := v.Type()
			for mi := 0; mi < t.NumMethod(); mi++ {
				m := t.Method(mi)
				if kind == "writer" {
					// promoted reader methods are exercised through the reader; writers through their Unsigned form
					if _, isReader := reflect.TypeOf(p.reader(in, h)).MethodByName(m.Name); isReader {
						continue
					}
					if !strings.HasSuffix(m.Name, "Unsigned") {
						continue
					}
				}
				args := []reflect.Value{}
				for ai := 1; ai < m.Type.NumIn(); ai++ {
					args = append(args, canned(m.Type.In(ai), pub, h))
				}
				before := in.calls
				name := fmt.Sprintf("rpc/%s.%s", p.name, m.Name)
				outs, panicked := safeCall(v.Method(mi), args)
				if panicked != "" {
					// canned arguments the helper packages of neo-go cannot digest (e.g. promoted NEP-17 multi-transfer)
					b.Observe("binding method not exercised (canned arguments rejected with a panic): " + name)
					continue
				}
				total++
				var callErr error
				if e, ok := outs[len(outs)-1].Interface().(error); ok {
					callErr = e
				}
				if in.calls == before && callErr == nil {
					b.Violation(fmt.Sprintf("%s made no invocation at all", name), nil)
				}
				if callErr != nil {
					msg := callErr.Error()
					bad := false
					for _, pat := range callFailure {
						if strings.Contains(msg, pat) {
							bad = true
						}
					}
					switch {
					case strings.Contains(msg, "unsupported operation") && strings.Contains(msg, "NetmapNode2") && strings.HasPrefix(m.Name, "AddNode"):
						b.Known("rpcbinding-addnode-struct-parameter", "rpc/netmap.AddNode{,Transaction,Unsigned} cannot be called through a neo-go actor: the generated parameter type *NetmapNode2 has no ToSCParameter/ToStackItem, so smartcontract.NewParametersFromValues refuses it before any invocation", map[string]any{"binding": name, "error": msg})
					case strings.Contains(msg, "Null result"):
						// an empty Go slice is Null on the VM side; the generic unwrapper reports it as an error
						b.Observe("binding reports 'Null result' for an empty answer")
					case bad:
						b.Violation(fmt.Sprintf("%s does not reach an existing contract method with the right arity: %s", name, trunc(msg, 200)), map[string]any{"binding": name})
					case strings.Contains(msg, "FAULT") || strings.Contains(msg, "invocation failed") || strings.Contains(msg, "script failed"):
						b.Hit("binding-reaches-contract-fault")
					case nullAnswer(in, h, m.Name, args):
						b.Observe("binding cannot decode a Null answer (empty collection)")
					default:
						// the contract answered (HALT) but the binding could not decode the answer
						b.Violation(fmt.Sprintf("%s cannot decode the contract's answer: %s", name, trunc(msg, 200)), map[string]any{"binding": name})
					}
				} else {
					b.Hit("binding-call-ok")
					if kind == "reader" {
						decodeCheck(b, in, h, name, m.Name, args, outs, man.ABI.GetMethod(lcfirst(m.Name), len(args)) != nil)
					}
				}
				b.Eval(fmt.Sprintf("binding|%s|%s|%v", name, kind, callErr == nil), true)
				b.Extra("binding_methods_invoked", 1)
			}
		}
	}
	if total < 150 {
		b.Inconclusive(fmt.Sprintf("only %d binding methods found by reflection", total))
	}
	b.Hit("bindings-exercised")
	b.Sample(map[string]any{"binding_methods_invoked": total, "how": "reflection over the exported method sets of ContractReader / Contract of the 11 rpc packages; canned arguments per Go parameter type; invoker/actor implemented over the real ledger"})
}

// nullAnswer: does a raw invocation of the same-named method answer Null?
func nullAnswer(in *inv, h util.Uint160, goName string, args []reflect.Value) bool {
	params := make([]any, len(args))
	for i := range args {
		params[i] = args[i].Interface()
	}
	raw, err := in.Call(h, lcfirst(goName), params...)
	return err == nil && raw.State == "HALT" && len(raw.Stack) == 1 && world.IsNull(raw.Stack[0])
}

func safeCall(m reflect.Value, args []reflect.Value) (outs []reflect.Value, panicked string) {
	defer func() {
		if r := recover(); r != nil {
			panicked = fmt.Sprint(r)
		}
	}()
	return m.Call(args), ""
}

func lcfirst(s string) string {
	if s == "" {
		return s
	}
	return strings.ToLower(s[:1]) + s[1:]
}

func trunc(s string, n int) string {
	if len(s) > n {
		return s[:n] + "…"
	}
	return s
}

// decodeCheck compares simple decoded reader results with a raw invocation of the same-named method.
func decodeCheck(b *runner.Batch, in *inv, h util.Uint160, name, goName string, args, outs []reflect.Value, sameName bool) {
	if !sameName || len(outs) != 2 {
		return
	}
	params := make([]any, len(args))
	for i := range args {
		params[i] = args[i].Interface()
	}
	raw, err := in.Call(h, lcfirst(goName), params...)
	if err != nil || raw.State != "HALT" || len(raw.Stack) != 1 {
		b.Violation(fmt.Sprintf("%s succeeded but a raw invocation of %s does not: %v", name, lcfirst(goName), err), nil)
		return
	}
	it := raw.Stack[0]
	switch v := outs[0].Interface().(type) {
	case *big.Int:
		if r := world.Int(it); r == nil || v == nil || r.Cmp(v) != 0 {
			b.Violation(fmt.Sprintf("%s decodes %v, the contract returned %v", name, v, world.RenderItem(it)), nil)
		}
		b.Hit("decoded-value-compared")
	case bool:
		if world.Bool(it) != v {
			b.Violation(fmt.Sprintf("%s decodes %v, the contract returned %v", name, v, world.RenderItem(it)), nil)
		}
		b.Hit("decoded-value-compared")
	case []byte:
		if !bytes.Equal(world.Bytes(it), v) {
			b.Violation(fmt.Sprintf("%s decodes %x, the contract returned %v", name, v, world.RenderItem(it)), nil)
		}
		b.Hit("decoded-value-compared")
	case string:
		if string(world.Bytes(it)) != v {
			b.Violation(fmt.Sprintf("%s decodes %q, the contract returned %v", name, v, world.RenderItem(it)), nil)
		}
		b.Hit("decoded-value-compared")
	case util.Uint160:
		if !bytes.Equal(world.Bytes(it), v.BytesBE()) {
			b.Violation(fmt.Sprintf("%s decodes %s, the contract returned %v", name, v.StringLE(), world.RenderItem(it)), nil)
		}
		b.Hit("decoded-value-compared")
	case [][]byte:
		arr := world.Arr(it)
		ok := len(arr) == len(v)
		for i := 0; ok && i < len(v); i++ {
			ok = bytes.Equal(world.Bytes(arr[i]), v[i])
		}
		if !ok {
			b.Violation(fmt.Sprintf("%s decodes %d byte strings, the contract returned %v", name, len(v), world.RenderItem(it)), nil)
		}
		b.Hit("decoded-value-compared")
	default:
		rv := reflect.ValueOf(v)
		if rv.Kind() == reflect.Slice {
			if arr := world.Arr(it); arr != nil && len(arr) != rv.Len() {
				b.Violation(fmt.Sprintf("%s decodes %d elements, the contract returned %d", name, rv.Len(), len(arr)), nil)
			}
			b.Hit("decoded-length-compared")
		}
	}
}

// ---- part 4: GetFS order and versions

func runOrderAndVersion(b *runner.Batch) {
	emb, err := embeddedSet()
	if err != nil {
		b.Violation("embedded contracts cannot be read: "+err.Error(), nil)
		return
	}
	fs, _ := contracts.GetFS()
	w, err := world.New(world.Options{N: 4, Seed: b.Seed, Batch: b.Index})
	if err != nil {
		b.Inconclusive(err.Error())
		return
	}
	defer w.Close()
	w.SysFee = 150_0000_0000
	domain := map[string]string{"NameService": "nns", "NeoFS Notary Proxy": "proxy", "NeoFS Audit": "audit", "NeoFS Netmap": "netmap", "NeoFS Balance": "balance", "NeoFS Reputation": "reputation", "NeoFS ID": "neofsid", "NeoFS Container": "container", "NeoFS Alphabet": "alphabet0"}
	for i, c := range fs {
		ne, m := c.NEF, c.Manifest
		a, _ := world.NewArtifact(m.Name, &ne, &m)
		name, ok := domain[m.Name]
		if !ok {
			name = strings.ToLower(strings.TrimPrefix(m.Name, "NeoFS "))
		}
		var data any
		switch name {
		case "nns":
			data = []any{[]any{[]any{"neofs", "ops@nspcc.io"}}}
		case "netmap":
			data = []any{false, []byte{}, []byte{}, []any{}, []any{[]byte("ContainerFee"), int64(0), []byte("ContainerAliasFee"), int64(0)}}
		case "balance", "neofsid":
			data = []any{false, []byte{}, []byte{}}
		case "container":
			data = []any{false, []byte{}, []byte{}, []byte{}, []byte{}, ""}
		case "reputation", "audit":
			data = []any{false}
		case "alphabet0":
			data = []any{false, []byte{}, []byte{}, "letter0", int64(0), int64(4)}
		}
		d, err := w.Deploy(name, a, data, w.AM()...)
		if err != nil {
			b.Violation(fmt.Sprintf("deploying the contract set in GetFS() order fails at position %d (%s): %v", i, m.Name, err), nil)
			return
		}
		if i == 0 {
			if d.ID != 1 || m.Name != "NameService" {
				b.Violation("the first contract of GetFS() is not the NameService with ID 1", nil)
				return
			}
			if err := w.DesignateIR(w.Pubs); err != nil {
				b.Inconclusive(err.Error())
				return
			}
			continue
		}
		if err := w.RegisterNNS(name, d.Hash); err != nil {
			b.Violation(fmt.Sprintf("registering %s in NNS fails: %v", name, err), nil)
			return
		}
		b.Eval("order|"+name, true)
	}
	b.Hit("getfs-order-deploys")
	// versions: every contract (embedded and compiled from sources) reports the repository version
	vfile, err := os.ReadFile(filepath.Join(world.RepoDir(), "VERSION"))
	if err != nil {
		b.Inconclusive("VERSION: " + err.Error())
		return
	}
	var maj, min, pat int64
	if _, err := fmt.Sscanf(strings.TrimSpace(string(vfile)), "v%d.%d.%d", &maj, &min, &pat); err != nil {
		b.Inconclusive("VERSION does not parse: " + err.Error())
		return
	}
	want := maj*1_000_000 + min*1_000 + pat
	var pubs []any
	for _, pk := range w.Pubs {
		pubs = append(pubs, pk.Bytes())
	}
	if _, err := w.Deploy("processing", emb["processing"], []any{util.Uint160{1}}); err == nil {
		w.Deploy("neofs", emb["neofs"], []any{false, w.H("processing"), pubs, []any{}})
	}
	for _, name := range []string{"nns", "proxy", "audit", "netmap", "balance", "reputation", "neofsid", "container", "alphabet0", "neofs", "processing"} {
		d := w.C[name]
		if d == nil {
			b.Violation("embedded "+name+" could not be deployed", nil)
			continue
		}
		rd := w.Read(d.Hash, "version")
		if !rd.OK() || world.Int64(rd.Top()) != want {
			b.Violation(fmt.Sprintf("embedded %s reports version %v, the repository version is %s (%d)", name, world.RenderItems(rd.Stack), strings.TrimSpace(string(vfile)), want), nil)
		}
		b.Eval("version|"+name, true)
	}
	b.Hit("versions-checked")
}

func c15Batches(tier string) int {
	if tier == "thorough" {
		return 3 + 12
	}
	return 3 + 6
}

func runC15(b *runner.Batch) {
	switch b.Index {
	case 0:
		runRegenerate(b)
	case 1:
		runBindings(b)
	case 2:
		runOrderAndVersion(b)
	default:
		// batches = 3 committee sizes x `parts` slices of the witness table
		parts := 2
		if b.Thorough() {
			parts = 4
		}
		runDifferential(b, b.Index-3, parts)
	}
}

func init() {
	runner.Register(&runner.Check{
		ID: "C15", Level: "translation_validation",
		Rule: "Four observed executions. (1) The build pipeline is run on the working tree (pinned compiler library, options from config.yml, binding generator) and its 33 outputs are compared byte for byte with contracts/*/contract.nef, manifest.json and rpc/*/rpcbinding.go. (2) Differential execution: the contracts embedded in the Go package (contracts.GetFS/GetMain, as handed to deploy) and the contracts compiled from the sources are deployed in twin worlds and driven with the complete witness table of C03 (every non-safe method under every signer set) on committees of 3, 1 and 7; VM state, fault text, result stack, notifications and storage diffs must agree transaction by transaction. (3) Every method of every generated rpc binding (found by reflection) is invoked against the embedded contracts through an Invoker/Actor over the real ledger: it must reach an existing method with the manifest's arity and decode the answer; simple results are compared with a raw invocation. (4) The set returned by GetFS() is deployed in its order on an empty chain with NNS registration after each step, and version() of all 11 embedded contracts must equal the VERSION file. distinct = artifact / (method, signer set, outcome) / binding method / order position.",
		Assumptions: []string{"neo-go v0.107.0 compiler, binding generator, VM and ledger from the module cache are the trusted base", "the harness binary is rebuilt on every run, so the embedded executables are those of the working tree",
			"the bindings' Invoker/Actor interfaces are implemented over the in-process ledger (no RPC server); writer methods are exercised through their Unsigned form (test execution, nothing is sent)"},
		Batches: c15Batches, Chunk: 1,
		Floors: []string{"artifacts-regenerated", "differential-executed", "bindings-exercised", "binding-call-ok", "binding-reaches-contract-fault", "decoded-value-compared", "getfs-order-deploys", "versions-checked"},
		Run:    runC15,
		Finish: func(m *runner.Merged, cov map[string]any) {
			cov["programs"] = 11
			cov["disagreements_checked"] = m.Extra["differential_transactions"] + m.Extra["artifacts_compared"]
			cov["explanation"] = "programs = the 11 contracts; disagreements_checked = artifacts compared byte for byte + transactions executed differentially on embedded vs freshly compiled contracts"
		},
		Exhaustive: func(string) (bool, string) {
			return true, "all 33 generated artifacts are regenerated and compared; every binding method found by reflection is invoked (differential workloads are finite tables, not a complete input space)"
		},
	})
}
