package balance

import (
	"math/big"
	"strings"

	"github.com/nspcc-dev/neo-go/pkg/core/transaction"
	"github.com/nspcc-dev/neo-go/pkg/util"

	"verif/harness/runner"
	"verif/harness/world"
)

var sizes = []int{4, 1, 7, 3}

func tierN(q, t int) func(string) int {
	return func(tier string) int {
		if tier == "thorough" {
			return t
		}
		return q
	}
}

func init() {
	runner.Register(&runner.Check{
		ID:          "C01",
		Level:       "exploration",
		Rule:        "PRNG-generated sequences of transfer/transferX/mint/burn/lock/newEpoch (direct, via a holder contract, via Netmap fan-out) by owners, strangers, contracts, Alphabet, Majority and single members on committees of 1/3/4/7, amounts from a pool around {-2^63,-balance,-1,0,1,balance-1,balance,balance+1,2^63,10^30}, 1-3 transactions per block; after every block a raw scan of the Balance storage and a shadow ledger rebuilt from Transfer notifications are compared. A case is one transaction; distinct = (method, signer class, scopes/address shape, amount class, outcome); non-trivial = it changed storage, faulted or was refused. One Alphabet operation in six carries details of 0, 32, 255, 256, 600, 899-901, 930 or 1100 bytes (near and past the notification limit).",
		Assumptions: []string{"neo-go v0.107.0 VM, ledger and native contracts are the trusted base", "contracts are compiled at check time from /repo/contracts with the module-cache compiler", "Alphabet-only methods receive 20-byte addresses and lock targets are fresh (property quantifier)"},
		Batches:     tierN(256, 4096),
		Helpers:     []string{"holder"},
		Chunk:       8,
		Floors:      []string{"ok-transfer", "ok-transferX", "ok-mint", "ok-burn", "ok-lock", "ok-unlock", "refused-transfer-false", "faulted-alphabet-call", "self-transfer", "account-emptied", "transfer-with-null-address", "whole-supply-burnt"},
		Run:         func(b *runner.Batch) { runBalance(b, "C01") },
	})
	runner.Register(&runner.Check{
		ID:          "C02",
		Level:       "exploration",
		Rule:        "PRNG-generated (from, to, amount, signer set, scope) combinations for the public transfer, directly and through a holder contract, interleaved with Alphabet operations (transferX, mint, burn, lock, ticks through Netmap) and with Balance.newEpoch asked for directly by every signer class while locks are due; one transaction per block; for every account whose balance decreased (storage diff) the signer set is inspected. distinct = (method, signer class, scopes, address shape, amount class, outcome); non-trivial = changed storage, faulted or refused.",
		Assumptions: []string{"neo-go v0.107.0 VM, ledger and native contracts are the trusted base", "authorisation oracle is the weak form: a signer with any scope but None counts as that account's witness"},
		Batches:     tierN(256, 4096),
		Helpers:     []string{"holder"},
		Chunk:       8,
		Floors:      []string{"debit-by-owner-witness", "debit-by-calling-contract", "debit-by-alphabet", "refused-foreign-signer", "refused-wrong-scope", "refused-foreign-contract-caller", "direct-epoch-unlock-refused", "committee-re-elected"},
		Run:         func(b *runner.Batch) { runBalance(b, "C02") },
	})
	runner.Register(&runner.Check{
		ID:          "C09",
		Level:       "exploration",
		Rule:        "PRNG-generated sequences of lock/burn/transferX/transfer/newEpoch with 1-8 simultaneous locks sharing parents and expiry epochs, until in the past/present/future, zero-amount locks, partial and full burns, epoch jumps; ticks are delivered through Netmap.newEpoch fan-out (and directly). A lock model predicts, per tick, the exact multiset of unlock transfers and balance deltas; after every block every lock account ever created is read. distinct = (method, signer class, amount class, outcome); non-trivial = changed storage, faulted or refused.",
		Assumptions: []string{"neo-go v0.107.0 VM, ledger and native contracts are the trusted base", "until = 0 (the contract's 'not a lock' sentinel) and self-transfers of lock accounts are outside the judged scope"},
		Batches:     tierN(192, 2048),
		Helpers:     []string{"holder"},
		Chunk:       8,
		Floors:      []string{"tick-released>=3", "lock-fully-burnt", "lock-partially-burnt", "zero-amount-lock", "tick-below-until", "zero-lock-released", "nested-locks-released-by-one-tick", "lock-with-a-negative-until", "lock-onto-an-account-that-holds-funds", "more-than-128-locks-fall-due-at-one-tick"},
		Run:         func(b *runner.Batch) { runBalance(b, "C09") },
	})
}

func (e *env) one(mode string, o *op) *op {
	e.runBlock(mode, o)
	return o
}

func (e *env) mintTo(mode string, to util.Uint160, amt int64) {
	o := &op{kind: "mint", amount: big.NewInt(amt), to: to.BytesBE(), class: sAlphabet, className: "alphabet", signers: e.w.Alpha(), preclass: "part"}
	o.p = e.w.Prepare(o.signers, e.bal, "mint", to, amt, []byte{1})
	e.runBlock(mode, o)
}

func (e *env) xfer(mode string, from, to util.Uint160, amt int64, signers []world.SignerSpec) *op {
	o := &op{kind: "transfer", amount: big.NewInt(amt), from: from.BytesBE(), to: to.BytesBE(), signers: signers, preclass: preclassOf(e.modelBalance(from), big.NewInt(amt))}
	o.p = e.w.Prepare(signers, e.bal, "transfer", from, to, amt, nil)
	return e.one(mode, o)
}

func (e *env) alphaOp(mode, kind string, args ...any) *op {
	o := &op{kind: kind, class: sAlphabet, className: "alphabet", signers: e.w.Alpha(), preclass: "canon"}
	switch kind {
	case "transferX":
		o.from, o.to, o.amount = args[0].(util.Uint160).BytesBE(), args[1].(util.Uint160).BytesBE(), big.NewInt(args[2].(int64))
		o.p = e.w.Prepare(o.signers, e.bal, "transferX", args[0], args[1], args[2], []byte{9})
	case "burn":
		o.from, o.amount = args[0].(util.Uint160).BytesBE(), big.NewInt(args[1].(int64))
		o.p = e.w.Prepare(o.signers, e.bal, "burn", args[0], args[1], []byte{9})
	case "lock":
		o.from, o.to, o.amount, o.until = args[0].(util.Uint160).BytesBE(), args[1].(util.Uint160).BytesBE(), big.NewInt(args[2].(int64)), args[3].(int64)
		o.p = e.w.Prepare(o.signers, e.bal, "lock", []byte{7}, args[0], args[1], args[2], args[3])
	case "tick":
		o.epoch = args[0].(int64)
		o.p = e.w.Prepare(o.signers, e.nm, "newEpoch", args[0])
	}
	return e.one(mode, o)
}

func (e *env) canonical(mode string) {
	u0, u1, u2 := e.users[0].ScriptHash(), e.users[1].ScriptHash(), e.users[2].ScriptHash()
	// the whole supply sits on one account and is burnt completely: the supply goes back to zero (seeded change C01-6)
	e.mintTo(mode, u0, 700)
	e.alphaOp(mode, "burn", u0, int64(700))
	e.b.Hit("whole-supply-burnt")
	e.mintTo(mode, u0, 1000)
	e.mintTo(mode, u1, 500)
	e.mintTo(mode, u2, 800)
	e.mintTo(mode, e.holder, 300)
	e.mintTo(mode, e.bal, 200)                                                                                 // the contract's own address holds funds from the start
	e.xfer(mode, u0, u1, 100, []world.SignerSpec{world.G(e.users[0])})                                         // owner
	e.xfer(mode, u0, u1, 100, []world.SignerSpec{world.G(e.stranger)})                                         // refused: foreign signer
	e.xfer(mode, u0, u1, 100, []world.SignerSpec{world.Scoped(e.users[0], transaction.CustomContracts, e.nm)}) // refused: wrong scope
	e.xfer(mode, u0, u0, 50, []world.SignerSpec{world.G(e.users[0])})                                          // self
	e.alphaOp(mode, "transferX", u1, u2, int64(50))
	e.alphaOp(mode, "burn", u2, int64(10))
	e.alphaOp(mode, "burn", u2, int64(1_000_000)) // faults
	// holder moves its own funds; then tries somebody else's
	o := &op{kind: "hmove", viaHolder: true, amount: big.NewInt(30), from: e.holder.BytesBE(), to: u1.BytesBE(), preclass: "part"}
	o.p = e.w.Prepare(nil, e.holder, "move", e.bal, u1, int64(30))
	e.one(mode, o)
	o = &op{kind: "hmoveFrom", viaHolder: true, amount: big.NewInt(30), from: u0.BytesBE(), to: e.holder.BytesBE(), preclass: "part", signers: []world.SignerSpec{world.Scoped(e.users[0], transaction.CalledByEntry)}}
	o.p = e.w.Prepare(o.signers, e.holder, "moveFrom", e.bal, u0, e.holder, int64(30))
	e.one(mode, o)
	// locks: three sharing a parent and an expiry, one zero-amount, one burnt fully, one partially
	l := []util.Uint160{e.freshLock(), e.freshLock(), e.freshLock(), e.freshLock(), e.freshLock(), e.freshLock()}
	e.alphaOp(mode, "lock", u0, l[0], int64(100), int64(2))
	e.alphaOp(mode, "lock", u0, l[1], int64(50), int64(2))
	e.alphaOp(mode, "lock", u1, l[2], int64(70), int64(2))
	e.alphaOp(mode, "lock", u1, l[3], int64(0), int64(2))
	e.alphaOp(mode, "lock", u2, l[4], int64(40), int64(3))
	e.alphaOp(mode, "lock", u2, l[5], int64(60), int64(2))
	e.alphaOp(mode, "burn", l[4], int64(40)) // fully burnt before expiry
	e.alphaOp(mode, "burn", l[5], int64(25)) // partial burn
	e.alphaOp(mode, "tick", int64(1))        // below every until
	e.alphaOp(mode, "tick", int64(2))        // releases l0,l1,l2,l3,l5
	e.alphaOp(mode, "tick", int64(3))        // nothing left (l4 burnt)
	// empty an account completely
	e.xfer(mode, u2, u0, e.modelBalance(u2).Int64(), []world.SignerSpec{world.G(e.users[2])})
}

func runBalance(b *runner.Batch, mode string) {
	n := sizes[b.Index%len(sizes)]
	e, err := newEnv(b, n)
	if err != nil {
		if mode == "C02" && strings.Contains(err.Error(), "alphabet witness check failed") {
			// every set-up call carries the multi-signature of 2/3+1 of the committee: a tree that does not take that for the
			// Alphabet has lost the authority the statement names (seeded change C02-10: the Alphabet built from the block
			// validators, which are fewer than the committee in every third world)
			b.Violation("the Balance contract cannot be set up although the transaction carries the Alphabet's multi-signature (2/3+1 of the committee): "+err.Error(), map[string]any{"committee": n})
			return
		}
		b.Inconclusive("world: " + err.Error())
		return
	}
	defer e.w.Close()
	e.canonical(mode)
	nops := 150
	if b.Thorough() {
		nops = 300
	}
	// locks onto accounts that already hold funds are generated in every mode: they are refused since fix b47f3bd
	// (C09 judges an accepted one by itself; C01 and C02 by their invariants)
	e.relock = true
	if mode == "C09" {
		nops = 80
		if b.Thorough() {
			nops = 200
		}
	}
	// many locks falling due at one tick: "all locks expiring at one tick are released by that tick", whatever their
	// number (seeded change C09-9: the sweep working in batches of 128 and stopping after the first)
	if mode == "C09" && b.Index%16 == 5 {
		nl := 130
		if b.Thorough() && b.Index%32 == 5 {
			nl = 260
		}
		u := e.users[b.Index%3].ScriptHash()
		e.mintTo(mode, u, int64(10*nl))
		due := e.epoch + 1
		for i := 0; i < nl && b.NViolations() == 0; i++ {
			e.alphaOp(mode, "lock", u, e.freshLock(), int64(1+i%7), due)
		}
		e.alphaOp(mode, "tick", due)
		b.Hit("more-than-128-locks-fall-due-at-one-tick")
	}
	reelectAt := -1
	if b.Index%4 == 2 {
		reelectAt = nops / 3 // a third of the way the committee is voted out (seeded change C02-7: a cached Alphabet address)
	}
	for i := 0; i < nops && b.NViolations() == 0; i++ {
		if i == reelectAt {
			if err := e.w.Reelect(world.Keys(b.Seed, b.Index, "committee-2", e.w.N)); err != nil {
				b.Inconclusive("re-election: " + err.Error())
				return
			}
			b.Hit("committee-re-elected")
		}
		hostile := b.Rng.IntN(3) != 0
		var gen func() *op
		switch mode {
		case "C01":
			gen = func() *op {
				switch k := b.Rng.IntN(20); {
				case k < 4:
					return e.opTransfer(hostile)
				case k < 7:
					return e.opTransferX(hostile)
				case k < 9:
					return e.opMint(hostile)
				case k < 11:
					return e.opBurn(hostile)
				case k < 13:
					return e.opLock(hostile)
				case k < 15:
					return e.opTick()
				case k < 16:
					return e.opBalTick()
				case k < 18:
					return e.opHolderMove(hostile)
				default:
					return e.opHolderMoveFrom(hostile)
				}
			}
		case "C02":
			gen = func() *op {
				switch k := b.Rng.IntN(20); {
				case k < 8:
					return e.opTransfer(true)
				case k < 11:
					return e.opHolderMoveFrom(true)
				case k < 13:
					return e.opHolderMove(hostile)
				case k < 15:
					return e.opTransferX(hostile)
				case k < 16:
					return e.opMint(false)
				case k < 17:
					return e.opBurn(hostile)
				case k < 18:
					return e.opLock(false)
				case k < 19:
					// epoch unlock asked for directly, by every signer class (seeded change C02-3)
					return e.opBalTick()
				default:
					return e.opTick()
				}
			}
		case "C09":
			gen = func() *op {
				live := len(e.locks)
				switch k := b.Rng.IntN(20); {
				case k < 7 && live < 8:
					o := e.opLock(b.Rng.IntN(4) == 0)
					return o
				case k < 10:
					return e.opBurn(b.Rng.IntN(3) == 0)
				case k < 12:
					o := e.opTransferX(false)
					if string(o.from) == string(o.to) {
						return e.opMint(false)
					}
					return o
				case k < 13:
					return e.opTransfer(false)
				case k < 14:
					return e.opMint(false)
				case k < 15:
					return e.opBalTick()
				default:
					return e.opTick()
				}
			}
		}
		if mode == "C01" && b.Rng.IntN(5) == 0 {
			k := 2 + b.Rng.IntN(2)
			ops := make([]*op, k)
			for j := range ops {
				ops[j] = gen()
			}
			e.runBlock(mode, ops...)
			b.Hit("multi-tx-block")
			continue
		}
		e.runBlock(mode, gen())
	}
	if b.Index < 2 {
		h := b.HistoryFn()
		if len(h) > 12 {
			h = h[len(h)-12:]
		}
		b.Sample(map[string]any{"committee": n, "tail_of_history": h})
	}
}
