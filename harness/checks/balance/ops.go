package balance

import (
	"fmt"
	"math/big"

	"github.com/nspcc-dev/neo-go/pkg/core/transaction"
	"github.com/nspcc-dev/neo-go/pkg/util"

	"verif/harness/runner"
	"verif/harness/world"
)

type op struct {
	kind      string
	p         *world.Pending
	r         *world.TxResult
	viaHolder bool
	amount    *big.Int
	from, to  []byte
	class     int // signer class for Alphabet-only methods
	className string
	signers   []world.SignerSpec
	epoch     int64
	until     int64
	preclass  string
	// onto: for a lock whose target already holds funds, what it held before
	onto *big.Int
}

func (e *env) addrPool() []util.Uint160 {
	var res []util.Uint160
	for _, u := range e.users {
		res = append(res, u.ScriptHash())
	}
	res = append(res, e.holder)
	res = append(res, e.empties...)
	// accounts nobody holds a key for: the Balance contract's own address (seeded change C02-4: "the account is
	// the contract making the call" compared with the executing contract), Netmap's, and the all-zero address
	res = append(res, e.bal, e.nm, util.Uint160{})
	return res
}

func (e *env) pickAddr() util.Uint160 { return runner.Pick(e.b.Rng, e.addrPool()) }

func (e *env) pickFunded() util.Uint160 {
	var f []util.Uint160
	for _, a := range e.addrPool() {
		if e.modelBalance(a).Sign() > 0 {
			f = append(f, a)
		}
	}
	if len(f) == 0 {
		return e.pickAddr()
	}
	return runner.Pick(e.b.Rng, f)
}

func (e *env) pickLock() (util.Uint160, bool) {
	if len(e.everLock) == 0 {
		return util.Uint160{}, false
	}
	// prefer live locks
	var live []util.Uint160
	for _, a := range sortedAddrs(e.everLock) {
		if e.locks[a] != nil {
			live = append(live, a)
		}
	}
	if len(live) > 0 && e.b.Rng.IntN(4) != 0 {
		return runner.Pick(e.b.Rng, live), true
	}
	return runner.Pick(e.b.Rng, sortedAddrs(e.everLock)), true
}

func (e *env) pickAmount(bal *big.Int, hostile bool) *big.Int {
	pool := amountPool(bal)
	if !hostile {
		// mostly sane amounts
		switch e.b.Rng.IntN(6) {
		case 0:
			return new(big.Int).Set(bal)
		case 1:
			return big.NewInt(0)
		case 2:
			return new(big.Int).Add(bal, big.NewInt(1))
		default:
			if bal.Sign() <= 0 {
				return big.NewInt(int64(1 + e.b.Rng.IntN(5)))
			}
			return randBelow(e.b, bal)
		}
	}
	return runner.Pick(e.b.Rng, pool)
}

func (e *env) pickClass(honestBias int) int {
	if e.b.Rng.IntN(10) < honestBias {
		if e.b.Rng.IntN(8) == 0 {
			return sAlphaEntry
		}
		return sAlphabet
	}
	if e.w.FormerAlphabet != nil && e.b.Rng.IntN(2) == 0 {
		return sFormer
	}
	return runner.Pick(e.b.Rng, []int{sMajority, sMember, sStranger, sNobody})
}

func preclassOf(bal, amount *big.Int) string {
	switch {
	case amount.Sign() < 0:
		return "neg"
	case amount.Sign() == 0:
		return "zero"
	case amount.Cmp(bal) == 0:
		return "all"
	case amount.Cmp(bal) > 0:
		return "over"
	}
	return "part"
}

// details: the free-form field of the Alphabet's operations. Mostly a short id, now and then empty, a transaction
// hash, or long enough to come near (and past) the VM's 1024-byte notification limit — the operation then either
// succeeds with both notifications or fails as a whole (seeded change C01-11: TransferX dropped above 900 bytes).
func (e *env) details(def []byte) []byte {
	if e.b.Rng.IntN(6) != 0 {
		return def
	}
	n := runner.Pick(e.b.Rng, []int{0, 32, 255, 256, 600, 899, 900, 901, 930, 1100})
	e.b.Hit(fmt.Sprintf("details-of-%d-bytes", n))
	d := make([]byte, n)
	for i := range d {
		d[i] = byte(e.b.Rng.IntN(256))
	}
	return d
}

func (e *env) opMint(hostile bool) *op {
	to := e.pickAddr()
	// a deposit may name any address, a live lock account too: it stays a lock (seeded change C09-10: the credited
	// record written anew from the balance alone)
	if l, ok := e.pickLock(); ok && e.modelBalance(l).Sign() > 0 && e.b.Rng.IntN(8) == 0 {
		to = l
		e.b.Hit("mint-onto-a-live-lock-account")
	}
	amt := e.pickAmount(big.NewInt(int64(100+e.b.Rng.IntN(900))), hostile)
	if !hostile && amt.Sign() <= 0 {
		amt = big.NewInt(int64(100 + e.b.Rng.IntN(900)))
	}
	c := e.pickClass(8)
	s, cn := e.classSigners(c)
	o := &op{kind: "mint", amount: amt, to: to.BytesBE(), class: c, className: cn, signers: s, preclass: preclassOf(big.NewInt(1000), amt)}
	o.p = e.w.Prepare(s, e.bal, "mint", to, amt, e.details([]byte{byte(e.b.Rng.IntN(256))}))
	return o
}

func (e *env) opBurn(hostile bool) *op {
	from := e.pickFunded()
	if l, ok := e.pickLock(); ok && e.b.Rng.IntN(2) == 0 {
		from = l
	}
	bal := e.modelBalance(from)
	amt := e.pickAmount(bal, hostile)
	c := e.pickClass(8)
	s, cn := e.classSigners(c)
	o := &op{kind: "burn", amount: amt, from: from.BytesBE(), class: c, className: cn, signers: s, preclass: preclassOf(bal, amt)}
	o.p = e.w.Prepare(s, e.bal, "burn", from, amt, e.details([]byte{2}))
	return o
}

func (e *env) opTransferX(hostile bool) *op {
	from := e.pickFunded()
	to := e.pickAddr()
	if l, ok := e.pickLock(); ok {
		switch e.b.Rng.IntN(5) {
		case 0:
			to = l
		case 1:
			from = l
		}
	}
	if e.b.Rng.IntN(10) == 0 {
		to = from
	}
	bal := e.modelBalance(from)
	amt := e.pickAmount(bal, hostile)
	if _, isLock := e.lockUntil[from]; isLock && to == from && bal.Sign() > 0 {
		// a lock account moves funds onto itself; every other time all it holds (seeded change C01-12: the record
		// written back from a copy that still carries the whole balance)
		if e.b.Rng.IntN(2) == 0 {
			amt = new(big.Int).Set(bal)
		}
		if amt.Cmp(bal) == 0 {
			e.b.Hit("lock-account-moves-all-it-holds-onto-itself")
		}
	}
	c := e.pickClass(8)
	s, cn := e.classSigners(c)
	o := &op{kind: "transferX", amount: amt, from: from.BytesBE(), to: to.BytesBE(), class: c, className: cn, signers: s, preclass: preclassOf(bal, amt)}
	o.p = e.w.Prepare(s, e.bal, "transferX", from, to, amt, e.details([]byte{0x77}))
	return o
}

func (e *env) opLock(hostile bool) *op {
	from := e.pickFunded()
	to := e.freshLock()
	// now and then the funds of a live lock account are locked again (a lock inside a lock), half of the time
	// with the same expiry as the outer one (seeded change C09-5: values read before the tick's own transfers)
	outerUntil, nested := int64(0), false
	if l, ok := e.pickLock(); ok && e.modelBalance(l).Sign() > 0 && e.b.Rng.IntN(6) == 0 {
		// (in every mode: seeded change C01-8 loses the inner lock's funds when both are released by one tick)
		from, outerUntil, nested = l, e.lockUntil[l], true
		e.b.Hit("lock-inside-a-lock")
	}
	// now and then the target is no new address: a live lock account (of the same or of another owner) or an ordinary
	// account that holds funds. One record cannot serve two locks, nor a lock and a plain balance: the only outcome
	// that keeps every clause of the statement is a refusal (found through seeded change C09-8)
	var onto *big.Int
	if e.relock && e.b.Rng.IntN(10) == 0 {
		cand := e.pickFunded()
		if l, ok := e.pickLock(); ok && e.b.Rng.IntN(3) != 0 {
			cand = l
		}
		if cand != from && e.modelBalance(cand).Sign() > 0 {
			to, onto = cand, new(big.Int).Set(e.modelBalance(cand))
			e.b.Hit("lock-onto-an-account-that-holds-funds")
		}
	}
	bal := e.modelBalance(from)
	amt := e.pickAmount(bal, hostile)
	until := e.epoch + runner.Pick(e.b.Rng, []int64{-1, 0, 1, 1, 2, 3})
	if e.b.Rng.IntN(12) == 0 {
		until = -1 - int64(e.b.Rng.IntN(5)) // long past: the first tick releases it (seeded change C09-7)
		e.b.Hit("lock-with-a-negative-until")
	}
	if until == 0 {
		until = 1 // until = 0 is the contract's "not a lock account" sentinel; not in the judged scope
	}
	if nested && outerUntil != 0 && e.b.Rng.IntN(2) == 0 {
		until = outerUntil
	}
	c := e.pickClass(8)
	s, cn := e.classSigners(c)
	o := &op{kind: "lock", amount: amt, from: from.BytesBE(), to: to.BytesBE(), class: c, className: cn, signers: s, until: until, preclass: preclassOf(bal, amt), onto: onto}
	o.p = e.w.Prepare(s, e.bal, "lock", e.details([]byte{byte(e.lockCtr)}), from, to, amt, until)
	return o
}

func (e *env) opTick() *op {
	ep := e.epoch + runner.Pick(e.b.Rng, []int64{1, 1, 1, 1, 2, 3, 0, -1})
	c := e.pickClass(9)
	s, cn := e.classSigners(c)
	o := &op{kind: "tick", epoch: ep, class: c, className: cn, signers: s}
	o.p = e.w.Prepare(s, e.nm, "newEpoch", ep)
	return o
}

// direct Balance.newEpoch (the code only asks for the Alphabet witness)
func (e *env) opBalTick() *op {
	ep := e.epoch + runner.Pick(e.b.Rng, []int64{0, 1, 2})
	c := e.pickClass(5)
	s, cn := e.classSigners(c)
	o := &op{kind: "btick", epoch: ep, class: c, className: cn, signers: s}
	o.p = e.w.Prepare(s, e.bal, "newEpoch", ep)
	return o
}

var scopes = []transaction.WitnessScope{transaction.Global, transaction.CalledByEntry, transaction.None, transaction.CustomContracts}

func odd(h util.Uint160, n int) []byte {
	b := h.BytesBE()
	switch {
	case n <= 20:
		return b[:n]
	default:
		return append(b, make([]byte, n-20)...)
	}
}

// public transfer with arbitrary signer / scope / addresses
func (e *env) opTransfer(hostile bool) *op {
	users := e.users
	from := e.pickFunded()
	to := e.pickAddr()
	if l, ok := e.pickLock(); ok && e.b.Rng.IntN(8) == 0 {
		to = l
	}
	if e.b.Rng.IntN(10) == 0 {
		to = from
	}
	// a live lock account as the sender of a public transfer: it has no key, nobody can witness for it — not its
	// parent either (seeded change C02-8: the authorisation test skipped for records with an expiry)
	var lockParent util.Uint160
	if l, ok := e.pickLock(); ok && e.modelBalance(l).Sign() > 0 && e.b.Rng.IntN(10) == 0 {
		from, lockParent = l, e.lockParent[l]
		e.b.Hit("public-transfer-out-of-a-live-lock")
	}
	bal := e.modelBalance(from)
	amt := e.pickAmount(bal, hostile)
	// signer: the owner of from (if a user), or somebody else
	var signers []world.SignerSpec
	var owner = -1
	for i, u := range users {
		if u.ScriptHash() == from {
			owner = i
		}
	}
	honest := e.b.Rng.IntN(10) < 6
	if !hostile {
		honest = e.b.Rng.IntN(10) < 9
	}
	if honest && owner >= 0 {
		sc := transaction.Global
		if e.b.Rng.IntN(3) == 0 {
			sc = transaction.CalledByEntry
		}
		signers = []world.SignerSpec{world.Scoped(users[owner], sc)}
	} else {
		k := e.b.Rng.IntN(7)
		switch {
		case k == 0:
			signers = nil
		case k == 1:
			signers = []world.SignerSpec{world.G(e.stranger)}
		case k == 2 && owner >= 0:
			sc := runner.Pick(e.b.Rng, scopes[2:])
			signers = []world.SignerSpec{world.Scoped(users[owner], sc, e.nm)}
		case k == 3:
			// the receiver signs
			for _, u := range users {
				if u.ScriptHash() == to {
					signers = []world.SignerSpec{world.G(u)}
				}
			}
		case k == 4:
			signers = []world.SignerSpec{world.G(e.w.Members[0])}
		case k == 5 && owner >= 0:
			signers = []world.SignerSpec{world.Scoped(users[owner], transaction.CustomContracts, e.bal)}
		default:
			other := users[e.b.Rng.IntN(len(users))]
			signers = []world.SignerSpec{world.G(other)}
		}
		// half of the time the lock's parent is the one who asks
		for _, u := range users {
			if u.ScriptHash() == lockParent && e.b.Rng.IntN(2) == 0 {
				signers = []world.SignerSpec{world.G(u)}
			}
		}
	}
	fromB, toB := from.BytesBE(), to.BytesBE()
	if hostile && e.b.Rng.IntN(6) == 0 {
		n := runner.Pick(e.b.Rng, []int{0, 19, 21})
		if e.b.Rng.IntN(2) == 0 {
			fromB = odd(from, n)
		} else {
			toB = odd(to, n)
		}
	}
	// Null instead of an address (a Hash160 parameter may be Null; the notification type check refuses an
	// empty byte string but lets Null through: seeded change C03-6)
	var fromArg, toArg any = fromB, toB
	if hostile && e.b.Rng.IntN(8) == 0 {
		if e.b.Rng.IntN(2) == 0 {
			fromArg, fromB = nil, nil
		} else {
			toArg, toB = nil, nil
		}
		e.b.Hit("transfer-with-null-address")
	}
	o := &op{kind: "transfer", amount: amt, from: fromB, to: toB, signers: signers, preclass: preclassOf(bal, amt)}
	o.p = e.w.Prepare(signers, e.bal, "transfer", fromArg, toArg, amt, nil)
	return o
}

// the holder contract moves its own funds
func (e *env) opHolderMove(hostile bool) *op {
	to := e.pickAddr()
	bal := e.modelBalance(e.holder)
	amt := e.pickAmount(bal, hostile)
	var signers []world.SignerSpec
	if e.b.Rng.IntN(2) == 0 {
		signers = []world.SignerSpec{world.G(e.stranger)}
	}
	o := &op{kind: "hmove", viaHolder: true, amount: amt, from: e.holder.BytesBE(), to: to.BytesBE(), signers: signers, preclass: preclassOf(bal, amt)}
	o.p = e.w.Prepare(signers, e.holder, "move", e.bal, to, amt)
	return o
}

// the holder contract tries to move somebody else's funds
func (e *env) opHolderMoveFrom(hostile bool) *op {
	from := e.pickFunded()
	to := e.pickAddr()
	if e.b.Rng.IntN(3) == 0 {
		to = e.holder
	}
	bal := e.modelBalance(from)
	amt := e.pickAmount(bal, hostile)
	var signers []world.SignerSpec
	var owner = -1
	for i, u := range e.users {
		if u.ScriptHash() == from {
			owner = i
		}
	}
	switch k := e.b.Rng.IntN(5); {
	case k == 0 && owner >= 0:
		signers = []world.SignerSpec{world.G(e.users[owner])} // Global witness reaches Balance: authorised
	case k == 1 && owner >= 0:
		signers = []world.SignerSpec{world.Scoped(e.users[owner], transaction.CalledByEntry)} // valid in the holder only
	case k == 2 && owner >= 0:
		signers = []world.SignerSpec{world.Scoped(e.users[owner], transaction.CustomContracts, e.holder)}
	case k == 3:
		signers = []world.SignerSpec{world.G(e.stranger)}
	}
	o := &op{kind: "hmoveFrom", viaHolder: true, amount: amt, from: from.BytesBE(), to: to.BytesBE(), signers: signers, preclass: preclassOf(bal, amt)}
	o.p = e.w.Prepare(signers, e.holder, "moveFrom", e.bal, from, to, amt)
	return o
}

// randBelow returns a PRNG-determined value in [1, bal].
func randBelow(b *runner.Batch, bal *big.Int) *big.Int {
	if bal.IsUint64() && bal.Uint64() > 0 {
		return new(big.Int).SetUint64(1 + b.Rng.Uint64N(bal.Uint64()))
	}
	return new(big.Int).Rsh(bal, 1)
}
