package balance

import (
	"bytes"
	"fmt"
	"math/big"

	"github.com/nspcc-dev/neo-go/pkg/core/transaction"
	"github.com/nspcc-dev/neo-go/pkg/util"

	"verif/harness/world"
)

func (e *env) detail(ops []*op, extra map[string]any) map[string]any {
	m := map[string]any{}
	var txs []any
	for _, o := range ops {
		if o.r != nil {
			txs = append(txs, e.w.RenderResult(o.r, true))
		}
	}
	m["block"] = txs
	for k, v := range extra {
		m[k] = v
	}
	return m
}

func isTransferKind(o *op) bool {
	return o.kind == "transfer" || o.kind == "hmove" || o.kind == "hmoveFrom"
}

func returnedFalse(o *op) bool {
	return isTransferKind(o) && o.r.Halted() && len(o.r.Stack) == 1 && !world.IsNull(o.r.Stack[0]) && !world.Bool(o.r.Stack[0])
}

func returnedTrue(o *op) bool {
	return isTransferKind(o) && o.r.Halted() && len(o.r.Stack) == 1 && world.Bool(o.r.Stack[0])
}

func outcome(o *op) string {
	switch {
	case o.r.Rejected != "":
		return "rejected"
	case o.r.Faulted():
		return "fault"
	case o.kind == "transfer" || o.kind == "hmove" || o.kind == "hmoveFrom":
		if returnedTrue(o) {
			return "true"
		}
		return "false"
	}
	return "halt"
}

// runBlock executes ops in one block and lets the monitors of `mode` judge it.
func (e *env) runBlock(mode string, ops ...*op) {
	ps := make([]*world.Pending, len(ops))
	for i, o := range ops {
		ps[i] = o.p
	}
	rs := e.w.Block(ps...)
	for i, o := range ops {
		o.r = rs[i]
	}
	e.b.Tx(len(ops))
	single := len(ops) == 1

	switch mode {
	case "C01":
		e.monitorC01(ops, single)
	case "C02":
		e.monitorC02(ops, single)
	case "C09":
		e.monitorC09(ops, single)
	}
	// bookkeeping shared by the generators: the shadow ledger (from events) and the epoch
	for _, o := range ops {
		if !o.r.Halted() {
			continue
		}
		plain, _, _ := e.balanceTransfers(o.r.Events)
		for _, t := range plain {
			if t.amount == nil {
				continue
			}
			if len(t.from) == 20 {
				h, _ := util.Uint160DecodeBytesBE(t.from)
				e.shadow[h] = new(big.Int).Sub(e.modelBalance(h), t.amount)
			}
			if len(t.to) == 20 {
				h, _ := util.Uint160DecodeBytesBE(t.to)
				e.shadow[h] = new(big.Int).Add(e.modelBalance(h), t.amount)
			}
		}
		if o.kind == "tick" && o.epoch > e.epoch {
			e.epoch = o.epoch
		}
		// lock accounts are destinations and sources of later operations in every mode (seeded change C02-5:
		// a public transfer into a live lock account)
		if o.kind == "lock" && len(o.to) == 20 {
			h, _ := util.Uint160DecodeBytesBE(o.to)
			e.everLock[h] = true
			if len(o.from) == 20 {
				e.lockParent[h], _ = util.Uint160DecodeBytesBE(o.from)
			}
			e.lockUntil[h] = o.until
		}
	}
	for _, o := range ops {
		nontrivial := !o.r.Diff.Empty() || o.r.Faulted() || returnedFalse(o)
		sc := ""
		if o.kind == "transfer" || o.kind == "hmoveFrom" || o.kind == "hmove" {
			for _, s := range o.signers {
				sc += s.Scope.String() + "/"
			}
			sc += fmt.Sprintf("len%d-%d", len(o.from), len(o.to))
			if bytes.Equal(o.from, o.to) {
				sc += "/self"
			}
		}
		e.b.Eval(fmt.Sprintf("%s|%s|%s|%s|%s", o.kind, o.className, sc, o.preclass, outcome(o)), nontrivial)
		e.b.Hit(o.kind + ":" + outcome(o))
	}
}

// ---------------------------------------------------------------- C01

func (e *env) monitorC01(ops []*op, single bool) {
	b := e.b
	// (iv) inertness
	if single {
		o := ops[0]
		if (o.r.Faulted() || o.r.Rejected != "") && !o.r.Diff.Empty() {
			b.Violation("failed invocation changed storage", e.detail(ops, nil))
		}
		if returnedFalse(o) {
			pl, x, _ := e.balanceTransfers(o.r.Events)
			if !o.r.Diff.Empty() || len(pl)+len(x) > 0 {
				b.Violation("transfer reported false but changed state or notified", e.detail(ops, nil))
			}
			b.Hit("refused-transfer-false")
		}
		if o.r.Faulted() && o.class == sAlphabet && o.kind != "tick" && o.kind != "btick" {
			b.Hit("faulted-alphabet-call")
		}
	}
	// events: pairing, apply to the shadow ledger (a copy first; committed by runBlock)
	sh := map[util.Uint160]*big.Int{}
	get := func(h util.Uint160) *big.Int {
		if v, ok := sh[h]; ok {
			return v
		}
		return new(big.Int).Set(e.modelBalance(h))
	}
	expSupply := new(big.Int).Set(e.supply)
	for _, o := range ops {
		if !o.r.Halted() {
			continue
		}
		plain, x, _ := e.balanceTransfers(o.r.Events)
		if !multisetEqual(plain, x) {
			b.Violation("Transfer and TransferX notifications do not pair 1:1 on (from,to,amount)", e.detail(ops, nil))
		}
		for _, t := range plain {
			if t.amount == nil {
				b.Violation("Transfer notification with a non-integer amount", e.detail(ops, nil))
				continue
			}
			if len(t.from) == 20 {
				h, _ := util.Uint160DecodeBytesBE(t.from)
				sh[h] = new(big.Int).Sub(get(h), t.amount)
			} else if len(t.from) != 0 {
				b.Violation("Transfer notification with malformed sender", e.detail(ops, nil))
			}
			if len(t.to) == 20 {
				h, _ := util.Uint160DecodeBytesBE(t.to)
				sh[h] = new(big.Int).Add(get(h), t.amount)
			} else if len(t.to) != 0 {
				b.Violation("Transfer notification with malformed receiver", e.detail(ops, nil))
			}
			if bytes.Equal(t.from, t.to) && len(t.from) == 20 {
				b.Hit("self-transfer")
			}
		}
		switch o.kind {
		case "mint":
			expSupply.Add(expSupply, o.amount)
			b.Hit("ok-mint")
		case "burn":
			expSupply.Sub(expSupply, o.amount)
			b.Hit("ok-burn")
		case "transferX":
			b.Hit("ok-transferX")
		case "lock":
			b.Hit("ok-lock")
		case "transfer":
			if returnedTrue(o) {
				b.Hit("ok-transfer")
			}
		case "tick", "btick":
			if len(plain) > 0 {
				b.Hit("ok-unlock")
			}
		}
	}
	// (i) conservation over the raw scan
	accs, supply, problems := e.scan()
	for _, p := range problems {
		b.Violation("raw Balance storage: "+p, e.detail(ops, nil))
	}
	sum := big.NewInt(0)
	for h, a := range accs {
		sum.Add(sum, a.Balance)
		if a.Balance.Sign() < 0 {
			b.Violation(fmt.Sprintf("negative balance %s on account %s", a.Balance, h.StringLE()), e.detail(ops, nil))
		}
	}
	ts := e.w.Read(e.bal, "totalSupply")
	b.Read(1)
	if !ts.OK() || len(ts.Stack) != 1 || world.Int(ts.Stack[0]) == nil {
		b.Violation("totalSupply does not answer", e.detail(ops, nil))
	} else if world.Int(ts.Stack[0]).Cmp(supply) != 0 {
		b.Violation(fmt.Sprintf("totalSupply() = %s but stored supply = %s", world.Int(ts.Stack[0]), supply), e.detail(ops, nil))
	}
	if sum.Cmp(supply) != 0 {
		b.Violation(fmt.Sprintf("sum of balances %s != totalSupply %s", sum, supply), e.detail(ops, map[string]any{"sum": sum.String(), "supply": supply.String()}))
	}
	// (iii) supply changes only by successful mint/burn
	if supply.Cmp(expSupply) != 0 {
		b.Violation(fmt.Sprintf("totalSupply is %s, expected %s (previous %s changed only by successful mint/burn amounts)", supply, expSupply, e.supply), e.detail(ops, nil))
	}
	e.supply = supply
	// (ii) shadow ledger == chain, for every account known to either side
	seen := map[util.Uint160]bool{}
	for h := range accs {
		seen[h] = true
	}
	for h := range sh {
		seen[h] = true
	}
	for h := range e.shadow {
		seen[h] = true
	}
	for h := range seen {
		want := get(h)
		have := big.NewInt(0)
		if a, ok := accs[h]; ok {
			have = a.Balance
		}
		if want.Cmp(have) != 0 {
			b.Violation(fmt.Sprintf("replaying notifications gives %s for %s, chain has %s", want, h.StringLE(), have), e.detail(ops, nil))
			// resynchronise so that one defect is not reported for ever
			e.shadow[h] = new(big.Int).Set(have)
		}
	}
	// balanceOf agrees with the raw scan for a few accounts
	for _, h := range e.addrPool()[:3] {
		v := e.chainBalance(h)
		b.Read(1)
		have := big.NewInt(0)
		if a, ok := accs[h]; ok {
			have = a.Balance
		}
		if v == nil || v.Cmp(have) != 0 {
			b.Violation(fmt.Sprintf("balanceOf(%s) = %v, raw storage has %s", h.StringLE(), v, have), e.detail(ops, nil))
		}
	}
	for _, o := range ops {
		if o.r.Halted() && len(o.from) == 20 {
			h, _ := util.Uint160DecodeBytesBE(o.from)
			if _, ok := accs[h]; !ok && o.amount != nil && o.amount.Sign() > 0 && o.kind != "mint" {
				b.Hit("account-emptied")
			}
		}
	}
	b.State(fmt.Sprintf("%d accounts, supply class %d, %d locks", len(accs), supply.BitLen(), e.countLocks(accs)))
}

func (e *env) countLocks(accs map[util.Uint160]account) int {
	n := 0
	for _, a := range accs {
		if a.Until.Sign() != 0 {
			n++
		}
	}
	return n
}

// ---------------------------------------------------------------- C02

// witnessed: the transaction carries account h's witness with a scope other than None.
func witnessed(signers []world.SignerSpec, h util.Uint160) bool {
	for _, s := range signers {
		if s.Account() == h && s.Scope != transaction.None {
			return true
		}
	}
	return false
}

func (e *env) monitorC02(ops []*op, single bool) {
	b := e.b
	if !single {
		return
	}
	o := ops[0]
	deltas, _ := e.balanceDeltas(o.r.Diff)
	alpha := witnessed(o.r.Signers, e.w.Alphabet.ScriptHash())
	for h, d := range deltas {
		if d.Sign() >= 0 {
			continue
		}
		own := witnessed(o.r.Signers, h)
		caller := o.viaHolder && h == e.holder
		if !(own || alpha || caller) {
			b.Violation(fmt.Sprintf("balance of %s decreased by %s without its witness, the Alphabet's, or being the calling contract", h.StringLE(), new(big.Int).Neg(d)), e.detail(ops, nil))
		}
		switch {
		case caller:
			b.Hit("debit-by-calling-contract")
		case own && !alpha:
			b.Hit("debit-by-owner-witness")
		case alpha:
			b.Hit("debit-by-alphabet")
		}
	}
	if o.kind == "transfer" || o.kind == "hmove" || o.kind == "hmoveFrom" {
		if returnedFalse(o) {
			pl, x, _ := e.balanceTransfers(o.r.Events)
			if !o.r.Diff.Empty() || len(pl)+len(x) > 0 {
				b.Violation("transfer reported false but changed state or notified", e.detail(ops, nil))
			}
		}
		if o.r.Halted() && len(o.r.Stack) == 1 && len(o.from) == 20 {
			from, _ := util.Uint160DecodeBytesBE(o.from)
			auth := witnessed(o.r.Signers, from) || (o.viaHolder && from == e.holder)
			if !auth {
				// a refusal must report false and change nothing
				if !returnedFalse(o) {
					b.Violation("transfer without the holder's authorisation did not report false", e.detail(ops, nil))
				}
				switch {
				case o.kind == "hmoveFrom":
					b.Hit("refused-foreign-contract-caller")
				default:
					hasOwnNone := false
					for _, s := range o.r.Signers {
						if s.Account() == from {
							hasOwnNone = true
						}
					}
					if hasOwnNone {
						b.Hit("refused-wrong-scope")
					} else {
						b.Hit("refused-foreign-signer")
					}
				}
			} else if returnedFalse(o) {
				// witness present but scope does not reach Balance, or not enough funds: fine
				if len(o.r.Signers) > 1 && o.r.Signers[1].Scope != transaction.Global {
					b.Hit("refused-wrong-scope")
				}
			}
		}
	}
	if (o.r.Faulted() || o.r.Rejected != "") && !o.r.Diff.Empty() {
		b.Violation("failed invocation changed storage", e.detail(ops, nil))
	}
	if o.kind == "btick" && !alpha && !o.r.Halted() {
		// was there anything to release? (a refused call leaves the storage as it was)
		accs, _, _ := e.scan()
		for _, a := range accs {
			if a.Until.Sign() != 0 && a.Until.Cmp(big.NewInt(o.epoch)) <= 0 && a.Balance.Sign() > 0 {
				b.Hit("direct-epoch-unlock-refused")
				break
			}
		}
	}
}

// ---------------------------------------------------------------- C09

func unlockDetails(epoch int64) []byte {
	v := big.NewInt(epoch)
	// NeoVM integer → bytes: little-endian two's complement, empty for zero
	return append([]byte{0x04}, leBytes(v)...)
}

func leBytes(v *big.Int) []byte {
	if v.Sign() == 0 {
		return nil
	}
	b := v.Bytes() // big endian magnitude (non-negative values only here)
	// add sign byte if the top bit is set
	if b[0]&0x80 != 0 {
		b = append([]byte{0}, b...)
	}
	for i, j := 0, len(b)-1; i < j; i, j = i+1, j-1 {
		b[i], b[j] = b[j], b[i]
	}
	return b
}

func (e *env) monitorC09(ops []*op, single bool) {
	b := e.b
	if !single {
		return
	}
	o := ops[0]
	if o.kind == "lock" && o.onto != nil && o.r.Halted() {
		to, _ := util.Uint160DecodeBytesBE(o.to)
		now := e.chainBalance(to)
		b.Violation(fmt.Sprintf("lock of %s onto account %s, which held %s, was accepted (it holds %s now): one record cannot keep two locks, or a lock and a plain balance, apart — what was there is either lost or follows the wrong expiry and owner", o.amount, to.StringLE(), o.onto, now), e.detail(ops, nil))
	}
	if (o.r.Faulted() || o.r.Rejected != "") && !o.r.Diff.Empty() {
		b.Violation("failed invocation changed storage", e.detail(ops, nil))
	}
	if returnedFalse(o) && !o.r.Diff.Empty() {
		b.Violation("transfer reported false but changed state", e.detail(ops, nil))
	}
	if o.r.Halted() {
		plain, x, _ := e.balanceTransfers(o.r.Events)
		switch o.kind {
		case "tick", "btick":
			// predicted releases
			exp := map[util.Uint160]*lockInfo{}
			for a, l := range e.locks {
				if l.until <= o.epoch {
					exp[a] = l
				}
			}
			var want []transferEvent
			wantDelta := map[util.Uint160]*big.Int{}
			add := func(h util.Uint160, v *big.Int) {
				if wantDelta[h] == nil {
					wantDelta[h] = big.NewInt(0)
				}
				wantDelta[h].Add(wantDelta[h], v)
			}
			// a lock whose parent is a lock released by the same tick: the amounts then depend on the order in
			// which the tick visits the two (either order satisfies the statement), so only the shape of the
			// releases and the final state are judged for such a tick
			nested := false
			for _, l := range exp {
				if exp[l.parent] != nil {
					nested = true
				}
			}
			for a, l := range exp {
				// a parent that is a live lock itself and stays one gets the funds on top of its own
				if pl := e.locks[l.parent]; pl != nil && exp[l.parent] == nil && a != l.parent {
					pl.remaining = new(big.Int).Add(pl.remaining, l.remaining)
					b.Hit("released-into-a-live-lock")
				}
				want = append(want, transferEvent{from: a.BytesBE(), to: l.parent.BytesBE(), amount: l.remaining})
				add(a, new(big.Int).Neg(l.remaining))
				add(l.parent, l.remaining)
			}
			if nested {
				b.Hit("nested-locks-released-by-one-tick")
				seen := map[util.Uint160]int{}
				for _, t := range plain {
					h, _ := util.Uint160DecodeBytesBE(t.from)
					l := exp[h]
					if len(t.from) != 20 || l == nil || !bytes.Equal(t.to, l.parent.BytesBE()) {
						b.Violation(fmt.Sprintf("tick %d: a transfer that is not the release of an expired lock to its parent", o.epoch), e.detail(ops, map[string]any{"got": renderTransfers(plain)}))
						continue
					}
					seen[h]++
					isParent := false
					for _, l2 := range exp {
						if l2.parent == h {
							isParent = true
						}
					}
					if !isParent && (t.amount == nil || t.amount.Cmp(l.remaining) != 0) {
						b.Violation(fmt.Sprintf("tick %d: lock %s released %v, it held %s", o.epoch, h.StringLE(), t.amount, l.remaining), e.detail(ops, nil))
					}
					if isParent && t.amount != nil {
						// it passes on its own funds plus whatever expired locks below it returned before it was visited:
						// between its own remainder and that plus everything held below it
						below := new(big.Int).Set(l.remaining)
						var sum func(p util.Uint160, depth int)
						sum = func(p util.Uint160, depth int) {
							for a2, l2 := range exp {
								if l2.parent == p && a2 != p && depth < 16 {
									below.Add(below, l2.remaining)
									sum(a2, depth+1)
								}
							}
						}
						sum(h, 0)
						if t.amount.Cmp(l.remaining) < 0 || t.amount.Cmp(below) > 0 {
							b.Violation(fmt.Sprintf("tick %d: lock %s released %v, it held %s and the expired locks below it %s in all", o.epoch, h.StringLE(), t.amount, l.remaining, below), e.detail(ops, nil))
						} else if pl := e.locks[l.parent]; pl != nil && exp[l.parent] == nil && h != l.parent {
							// a live lock above the chain received what was really passed on (the loop above booked the own remainder)
							pl.remaining.Add(pl.remaining, new(big.Int).Sub(t.amount, l.remaining))
							if t.amount.Cmp(l.remaining) != 0 {
								b.Hit("chain-of-locks-passed-on-funds-from-below")
							}
						}
					}
				}
				for a := range exp {
					if seen[a] != 1 {
						b.Violation(fmt.Sprintf("tick %d: expired lock %s was released %d times", o.epoch, a.StringLE(), seen[a]), e.detail(ops, map[string]any{"got": renderTransfers(plain)}))
					}
				}
				if _, ds := e.balanceDeltas(o.r.Diff); ds.Sign() != 0 {
					b.Violation("epoch tick changed totalSupply", e.detail(ops, nil))
				}
				for a := range exp {
					delete(e.locks, a)
					e.released[a] = true
				}
				break
			}
			if !multisetEqual(plain, want) {
				b.Violation(fmt.Sprintf("tick %d: unlock transfers differ from the expired locks (expected %d, got %d)", o.epoch, len(want), len(plain)), e.detail(ops, map[string]any{"expected": renderTransfers(want), "got": renderTransfers(plain)}))
			}
			for _, t := range x {
				if !bytes.Equal(t.details, unlockDetails(o.epoch)) {
					b.Violation(fmt.Sprintf("unlock TransferX details %x, expected %x", t.details, unlockDetails(o.epoch)), e.detail(ops, nil))
				}
			}
			deltas, ds := e.balanceDeltas(o.r.Diff)
			if ds.Sign() != 0 {
				b.Violation("epoch tick changed totalSupply", e.detail(ops, nil))
			}
			for h, d := range wantDelta {
				if d.Sign() == 0 {
					continue
				}
				if deltas[h] == nil || deltas[h].Cmp(d) != 0 {
					b.Violation(fmt.Sprintf("tick %d: balance of %s changed by %v, expected %s", o.epoch, h.StringLE(), deltas[h], d), e.detail(ops, nil))
				}
			}
			for h, d := range deltas {
				if wantDelta[h] == nil || wantDelta[h].Cmp(d) != 0 {
					b.Violation(fmt.Sprintf("tick %d: unexpected balance change of %s by %s", o.epoch, h.StringLE(), d), e.detail(ops, nil))
				}
			}
			for a := range exp {
				delete(e.locks, a)
				e.released[a] = true
			}
			switch {
			case len(exp) >= 3:
				b.Hit("tick-released>=3")
				fallthrough
			case len(exp) >= 1:
				b.Hit("tick-released>=1")
			default:
				if len(e.locks) > 0 {
					b.Hit("tick-below-until")
				}
			}
			for _, l := range exp {
				if l.remaining.Sign() == 0 {
					b.Hit("zero-lock-released")
				}
			}
		default:
			if o.kind == "lock" {
				to, _ := util.Uint160DecodeBytesBE(o.to)
				from, _ := util.Uint160DecodeBytesBE(o.from)
				e.locks[to] = &lockInfo{parent: from, until: o.until, remaining: big.NewInt(0)}
				e.everLock[to] = true
				if o.amount.Sign() == 0 {
					b.Hit("zero-amount-lock")
				}
				// Lock notification
				found := 0
				for _, ev := range o.r.Events {
					if ev.Contract == e.bal && ev.Name == "Lock" {
						found++
						if len(ev.Items) != 5 || !bytes.Equal(world.Bytes(ev.Items[1]), o.from) || !bytes.Equal(world.Bytes(ev.Items[2]), o.to) || world.Int(ev.Items[3]) == nil || world.Int(ev.Items[3]).Cmp(o.amount) != 0 || world.Int64(ev.Items[4]) != o.until {
							b.Violation("Lock notification does not carry the call's from/to/amount/until", e.detail(ops, nil))
						}
					}
				}
				if found != 1 {
					b.Violation(fmt.Sprintf("successful lock emitted %d Lock notifications", found), e.detail(ops, nil))
				}
			}
			for _, t := range plain {
				if t.amount == nil {
					continue
				}
				if len(t.from) == 20 {
					h, _ := util.Uint160DecodeBytesBE(t.from)
					if l := e.locks[h]; l != nil {
						whole := l.remaining.Cmp(t.amount) == 0
						l.remaining = new(big.Int).Sub(l.remaining, t.amount)
						if whole {
							delete(e.locks, h)
							if o.kind == "burn" {
								b.Hit("lock-fully-burnt")
							}
						} else if o.kind == "burn" {
							b.Hit("lock-partially-burnt")
						}
					}
				}
				if len(t.to) == 20 {
					h, _ := util.Uint160DecodeBytesBE(t.to)
					if l := e.locks[h]; l != nil {
						l.remaining = new(big.Int).Add(l.remaining, t.amount)
					}
				}
			}
		}
	}
	// state check: every lock ever created
	accs, _, _ := e.scan()
	for _, a := range sortedAddrs(e.everLock) {
		acc, present := accs[a]
		l := e.locks[a]
		v := e.chainBalance(a)
		b.Read(1)
		switch {
		case l != nil:
			if !present {
				b.Violation(fmt.Sprintf("lock account %s disappeared before expiry/burn (model: %s until %d)", a.StringLE(), l.remaining, l.until), e.detail(ops, nil))
				delete(e.locks, a)
				continue
			}
			if acc.Balance.Cmp(l.remaining) != 0 || v == nil || v.Cmp(l.remaining) != 0 {
				b.Violation(fmt.Sprintf("lock account %s holds %s (balanceOf %v), model says %s", a.StringLE(), acc.Balance, v, l.remaining), e.detail(ops, nil))
				l.remaining = new(big.Int).Set(acc.Balance)
			}
			if acc.Until.Int64() != l.until || !bytes.Equal(acc.Parent, l.parent.BytesBE()) {
				b.Violation(fmt.Sprintf("lock account %s metadata changed: until %s parent %x", a.StringLE(), acc.Until, acc.Parent), e.detail(ops, nil))
			}
		default:
			// released or burnt: must not be a lock account any more
			if present && acc.Until.Sign() != 0 {
				b.Violation(fmt.Sprintf("lock account %s still exists as a lock (balance %s until %s) after release/burn", a.StringLE(), acc.Balance, acc.Until), e.detail(ops, nil))
			}
			if !present && v != nil && v.Sign() != 0 {
				b.Violation(fmt.Sprintf("balanceOf(%s) = %s for a removed lock account", a.StringLE(), v), e.detail(ops, nil))
			}
		}
	}
	b.State(fmt.Sprintf("locks=%d released=%d epoch-rel=%v", len(e.locks), len(e.released), e.lockClasses()))
}

func (e *env) lockClasses() []int {
	c := make([]int, 3)
	for _, l := range e.locks {
		switch {
		case l.until <= e.epoch:
			c[0]++
		case l.until == e.epoch+1:
			c[1]++
		default:
			c[2]++
		}
	}
	return c
}

func renderTransfers(ts []transferEvent) []string {
	var res []string
	for _, t := range ts {
		res = append(res, tkey(t))
	}
	return res
}
