// Package balance holds the monitors and workloads of C01, C02 and C09
// (Balance contract: conservation, authorisation of debits, locks).
package balance

import (
	"fmt"
	"math/big"
	"sort"

	"github.com/nspcc-dev/neo-go/pkg/core/transaction"
	"github.com/nspcc-dev/neo-go/pkg/neotest"
	"github.com/nspcc-dev/neo-go/pkg/util"
	"github.com/nspcc-dev/neo-go/pkg/vm/stackitem"

	"verif/harness/runner"
	"verif/harness/world"
)

type lockInfo struct {
	parent    util.Uint160
	until     int64
	remaining *big.Int
}

type env struct {
	b        *runner.Batch
	w        *world.World
	bal, nm  util.Uint160
	balID    int32
	holder   util.Uint160
	users    []neotest.Signer
	stranger neotest.Signer
	empties  []util.Uint160
	lockCtr  int
	epoch    int64

	// C01 state
	shadow map[util.Uint160]*big.Int
	supply *big.Int
	// C09 state
	locks    map[util.Uint160]*lockInfo
	released map[util.Uint160]bool
	everLock map[util.Uint160]bool
	// lockParent: who funded a lock account (every mode)
	lockParent map[util.Uint160]util.Uint160
	lockUntil  map[util.Uint160]int64
	// relock: generate locks onto accounts that already hold funds (C09)
	relock bool
}

func newEnv(b *runner.Batch, n int) (*env, error) {
	w, err := world.New(world.Options{N: n, Seed: b.Seed, Batch: b.Index})
	if err != nil {
		return nil, err
	}
	if err := w.DeployFS(b.Set, world.FSOptions{Contracts: []string{"netmap", "balance"}}); err != nil {
		return nil, err
	}
	e := &env{b: b, w: w, bal: w.H("balance"), nm: w.H("netmap"), balID: w.C["balance"].ID,
		shadow: map[util.Uint160]*big.Int{}, supply: big.NewInt(0),
		locks: map[util.Uint160]*lockInfo{}, released: map[util.Uint160]bool{}, everLock: map[util.Uint160]bool{}, lockParent: map[util.Uint160]util.Uint160{}, lockUntil: map[util.Uint160]int64{}}
	d, err := w.Deploy("holder", b.Helpers["holder"], nil)
	if err != nil {
		return nil, err
	}
	e.holder = d.Hash
	for i := 0; i < 4; i++ {
		e.users = append(e.users, world.Single(world.Key(b.Seed, b.Index, "user", i)))
	}
	e.stranger = world.Single(world.Key(b.Seed, b.Index, "stranger", 0))
	for i := 0; i < 2; i++ {
		e.empties = append(e.empties, world.Hash160Of(world.Key(b.Seed, b.Index, "empty", i)))
	}
	b.HistoryFn = func() []any {
		var res []any
		for _, r := range w.History {
			res = append(res, w.RenderResult(r, true))
		}
		return res
	}
	return e, nil
}

func (e *env) freshLock() util.Uint160 {
	e.lockCtr++
	return world.Hash160Of(world.Key(e.b.Seed, e.b.Index, "lock", e.lockCtr))
}

// account is a parsed storage value of the Balance contract.
type account struct {
	Balance *big.Int
	Until   *big.Int
	Parent  []byte
}

func parseAccount(v []byte) (account, error) {
	it, err := stackitem.Deserialize(v)
	if err != nil {
		return account{}, err
	}
	f := world.Arr(it)
	if len(f) != 3 {
		return account{}, fmt.Errorf("account struct has %d fields", len(f))
	}
	a := account{Balance: world.Int(f[0]), Until: world.Int(f[1]), Parent: world.Bytes(f[2])}
	if a.Balance == nil || a.Until == nil {
		return account{}, fmt.Errorf("non-integer account fields")
	}
	return a, nil
}

// scan parses the raw Balance storage: accounts under prefix 'a' and the supply key.
func (e *env) scan() (accs map[util.Uint160]account, supply *big.Int, problems []string) {
	accs = map[util.Uint160]account{}
	supply = big.NewInt(0)
	for k, v := range e.w.Dump(e.balID) {
		switch {
		case k == "MainnetGAS":
			supply = bigFromLE(v)
		case len(k) > 0 && k[0] == 'a':
			if len(k) != 21 {
				problems = append(problems, fmt.Sprintf("account key of %d bytes: %x", len(k), k))
				continue
			}
			a, err := parseAccount(v)
			if err != nil {
				problems = append(problems, fmt.Sprintf("account %x: %v", k[1:], err))
				continue
			}
			h, _ := util.Uint160DecodeBytesBE([]byte(k[1:]))
			accs[h] = a
		default:
			problems = append(problems, fmt.Sprintf("unexpected key in Balance storage: %q", k))
		}
	}
	return
}

func bigFromLE(v []byte) *big.Int {
	return world.LEInt(v)
}

func (e *env) chainBalance(h util.Uint160) *big.Int {
	r := e.w.Read(e.bal, "balanceOf", h)
	if !r.OK() || len(r.Stack) != 1 {
		return nil
	}
	return world.Int(r.Stack[0])
}

// balanceDeltas computes per-account balance deltas from a storage diff.
func (e *env) balanceDeltas(d world.Diff) (map[util.Uint160]*big.Int, *big.Int) {
	res := map[util.Uint160]*big.Int{}
	ds := big.NewInt(0)
	for k, c := range d[e.balID] {
		if k == "MainnetGAS" {
			o, n := big.NewInt(0), big.NewInt(0)
			if c.Old != nil {
				o = bigFromLE(c.Old)
			}
			if c.New != nil {
				n = bigFromLE(c.New)
			}
			ds.Sub(n, o)
			continue
		}
		if len(k) != 21 || k[0] != 'a' {
			continue
		}
		o, n := big.NewInt(0), big.NewInt(0)
		if c.Old != nil {
			if a, err := parseAccount(c.Old); err == nil {
				o = a.Balance
			}
		}
		if c.New != nil {
			if a, err := parseAccount(c.New); err == nil {
				n = a.Balance
			}
		}
		h, _ := util.Uint160DecodeBytesBE([]byte(k[1:]))
		dl := new(big.Int).Sub(n, o)
		if dl.Sign() != 0 {
			res[h] = dl
		}
	}
	return res, ds
}

// transferEvent is a decoded Transfer / TransferX of the Balance contract.
type transferEvent struct {
	from, to []byte
	amount   *big.Int
	details  []byte
	x        bool
}

func (e *env) balanceTransfers(evs []world.Event) (plain, x []transferEvent, others []world.Event) {
	for _, ev := range evs {
		if ev.Contract != e.bal {
			continue
		}
		switch ev.Name {
		case "Transfer":
			if len(ev.Items) == 3 {
				plain = append(plain, transferEvent{from: world.Bytes(ev.Items[0]), to: world.Bytes(ev.Items[1]), amount: world.Int(ev.Items[2])})
				continue
			}
		case "TransferX":
			if len(ev.Items) == 4 {
				x = append(x, transferEvent{from: world.Bytes(ev.Items[0]), to: world.Bytes(ev.Items[1]), amount: world.Int(ev.Items[2]), details: world.Bytes(ev.Items[3]), x: true})
				continue
			}
		}
		others = append(others, ev)
	}
	return
}

func tkey(t transferEvent) string {
	a := "nil"
	if t.amount != nil {
		a = t.amount.String()
	}
	return fmt.Sprintf("%x>%x:%s", t.from, t.to, a)
}

func multisetEqual(a, b []transferEvent) bool {
	if len(a) != len(b) {
		return false
	}
	m := map[string]int{}
	for _, t := range a {
		m[tkey(t)]++
	}
	for _, t := range b {
		m[tkey(t)]--
	}
	for _, v := range m {
		if v != 0 {
			return false
		}
	}
	return true
}

func sortedAddrs(m map[util.Uint160]bool) []util.Uint160 {
	var res []util.Uint160
	for k := range m {
		res = append(res, k)
	}
	sort.Slice(res, func(i, j int) bool { return res[i].Less(res[j]) })
	return res
}

// signer classes for Alphabet-only methods
const (
	sAlphabet = iota
	sMajority
	sMember
	sStranger
	sNobody
	sAlphaEntry // Alphabet with CalledByEntry scope (valid for direct calls)
	sFormer     // the Alphabet multi-signature of a committee that has been voted out (after a re-election)
)

func (e *env) classSigners(c int) ([]world.SignerSpec, string) {
	switch c {
	case sAlphabet:
		return e.w.Alpha(), "alphabet"
	case sMajority:
		return e.w.Major(), "majority"
	case sMember:
		return []world.SignerSpec{world.G(e.w.Members[0])}, "member"
	case sStranger:
		return []world.SignerSpec{world.G(e.stranger)}, "stranger"
	case sAlphaEntry:
		return []world.SignerSpec{world.Scoped(e.w.Alphabet, transaction.CalledByEntry)}, "alphabet-entry"
	case sFormer:
		if e.w.FormerAlphabet != nil {
			return []world.SignerSpec{world.G(e.w.FormerAlphabet)}, "former-alphabet"
		}
	}
	return nil, "nobody"
}

// alphabetAuthorised: does this signer class carry the Alphabet witness?
func (e *env) classIsAlphabet(c int) bool {
	switch c {
	case sAlphabet, sAlphaEntry:
		return true
	case sMajority:
		return e.w.Majority.ScriptHash() == e.w.Alphabet.ScriptHash()
	case sMember:
		return e.w.Members[0].ScriptHash() == e.w.Alphabet.ScriptHash()
	}
	return false
}

func (e *env) modelBalance(h util.Uint160) *big.Int {
	if v := e.shadow[h]; v != nil {
		return v
	}
	return big.NewInt(0)
}

// amountPool returns hostile amounts around a balance.
func amountPool(bal *big.Int) []*big.Int {
	p := []*big.Int{
		new(big.Int).Neg(new(big.Int).Lsh(big.NewInt(1), 63)),
		new(big.Int).Neg(bal),
		big.NewInt(-1),
		big.NewInt(0),
		big.NewInt(1),
		new(big.Int).Sub(bal, big.NewInt(1)),
		new(big.Int).Set(bal),
		new(big.Int).Add(bal, big.NewInt(1)),
		new(big.Int).Lsh(big.NewInt(1), 63),
		new(big.Int).Exp(big.NewInt(10), big.NewInt(30), nil),
		new(big.Int).Rsh(bal, 1),
		big.NewInt(7),
		new(big.Int).Neg(new(big.Int).Add(bal, big.NewInt(1))),
	}
	return p
}
