// Package container holds the monitors and workloads of C04, C05 and C14.
package container

import (
	"crypto/sha256"
	"encoding/hex"
	"fmt"
	"github.com/nspcc-dev/neo-go/pkg/core/transaction"
	"math/big"
	"sort"
	"strings"

	"github.com/mr-tron/base58"
	"github.com/nspcc-dev/neo-go/pkg/crypto/keys"
	"github.com/nspcc-dev/neo-go/pkg/util"
	"github.com/nspcc-dev/neo-go/pkg/vm/stackitem"

	"verif/harness/runner"
	"verif/harness/world"
)

type eaclRec struct {
	blob, sig, pub, token []byte
}

type cnr struct {
	blob, sig, pub, token []byte
	owner                 []byte // 25 bytes
	cid                   []byte
	eacl                  *eaclRec
	alias                 string
	meta                  bool
	// reserved: the alias lives in a domain the committee registered for itself; its records can be changed
	// only with the committee's witness
	reserved bool
}

type cmodel struct {
	live      map[string]*cnr
	dead      map[string]bool
	txt       map[string][]string // alias domain -> TXT values
	everAlias map[string]bool
	fee       int64
	aliasFee  int64
}

type ownerT struct {
	priv *keys.PrivateKey
	sh   util.Uint160
	id   []byte // 25-byte owner id
}

type blobT struct {
	owner int
	data  []byte
	cid   []byte
}

type env struct {
	b      *runner.Batch
	w      *world.World
	cn     util.Uint160
	cnID   int32
	bal    util.Uint160
	balID  int32
	nm     util.Uint160
	nns    util.Uint160
	m      *cmodel
	owners []ownerT
	blobs  []blobT
	seq    int
}

func ownerID(sh util.Uint160) []byte {
	b := append([]byte{0x35}, sh.BytesBE()...)
	h := sha256.Sum256(b)
	h = sha256.Sum256(h[:])
	return append(b, h[:4]...)
}

// makeBlob builds a container BLOB (V2 layout): 0x0a, L, version[L], 4 bytes, owner[25], tail.
func makeBlob(owner []byte, verLen int, nonce int) []byte {
	return makeBlobPad(owner, verLen, nonce, 0)
}

// makeBlobPad: the same with the tail grown until the whole BLOB is `total` bytes long (0: shortest). Lengths of 253
// bytes and more take a three-byte length prefix in the VM's serialization of the stored record (seeded change C04-11).
func makeBlobPad(owner []byte, verLen int, nonce int, total int) []byte {
	b := []byte{0x0a, byte(verLen)}
	for i := 0; i < verLen; i++ {
		b = append(b, byte(i+1))
	}
	b = append(b, 0x12, 0x1b, 0x0a, 0x19)
	b = append(b, owner...)
	b = append(b, 0x1a, 0x10)
	h := sha256.Sum256([]byte(fmt.Sprintf("nonce-%d", nonce)))
	b = append(b, h[:16]...)
	for i := 0; len(b) < total; i++ {
		b = append(b, h[i%32]^byte(i))
	}
	return b
}

func cidOf(blob []byte) []byte {
	h := sha256.Sum256(blob)
	return h[:]
}

// makeEACL builds an eACL BLOB referring to cid.
func makeEACL(cid []byte, verLen int, tag int) []byte {
	b := []byte{0x0a, byte(verLen)}
	for i := 0; i < verLen; i++ {
		b = append(b, byte(0xa0+i))
	}
	b = append(b, 0x12, 0x22, 0x0a, 0x20)
	b = append(b, cid...)
	return append(b, byte(tag), byte(tag>>8))
}

func newEnv(b *runner.Batch, n int, fee, aliasFee int64, ownersAreMembers bool) (*env, error) {
	// every third world with a committee of several members has a single consensus node: the Alphabet is the
	// committee, not the validator set (seeded change C05-7)
	nval := 0
	if n > 1 && b.Index%3 == 1 {
		nval = 1
		b.Hit("committee-larger-than-the-validator-set")
	}
	w, err := world.New(world.Options{N: n, Seed: b.Seed, Batch: b.Index, Validators: nval})
	if err != nil {
		return nil, err
	}
	w.SysFee = 60_0000_0000
	cfg := []any{[]byte("ContainerFee"), fee, []byte("ContainerAliasFee"), aliasFee}
	if err := w.DeployFS(b.Set, world.FSOptions{Contracts: []string{"netmap", "balance", "neofsid", "container"}, NetmapConfig: cfg, ExtraTLDs: []string{"zonetwo"}}); err != nil {
		return nil, err
	}
	e := &env{b: b, w: w, cn: w.H("container"), cnID: w.C["container"].ID, bal: w.H("balance"), balID: w.C["balance"].ID, nm: w.H("netmap"), nns: w.H("nns"),
		m: &cmodel{live: map[string]*cnr{}, dead: map[string]bool{}, txt: map[string][]string{}, everAlias: map[string]bool{}, fee: fee, aliasFee: aliasFee}}
	for i := 0; i < 3; i++ {
		p := world.Key(b.Seed, b.Index, "owner", i)
		if ownersAreMembers && i == 0 {
			p = w.Privs[0] // an owner who is an Alphabet node itself
		}
		sh := world.Hash160Of(p)
		e.owners = append(e.owners, ownerT{priv: p, sh: sh, id: ownerID(sh)})
	}
	b.HistoryFn = func() []any {
		var res []any
		for _, r := range w.History {
			res = append(res, w.RenderResult(r, true))
		}
		return res
	}
	return e, nil
}

func (e *env) newBlob(owner int, verLen int) blobT {
	e.seq++
	total := 0
	if e.b.Rng.IntN(5) == 0 {
		total = runner.Pick(e.b.Rng, []int{200, 252, 253, 254, 255, 256, 257, 300, 1000, 4000})
		e.b.Hit(fmt.Sprintf("container-of-%d-bytes", total))
	}
	d := makeBlobPad(e.owners[owner].id, verLen, e.seq+1000*e.b.Index, total)
	bt := blobT{owner: owner, data: d, cid: cidOf(d)}
	e.blobs = append(e.blobs, bt)
	return bt
}

func (e *env) mint(to util.Uint160, amount int64) {
	r := e.w.Invoke(e.w.Alpha(), e.bal, "mint", to, amount, []byte{1})
	e.b.Tx(1)
	if !r.Halted() {
		e.b.Inconclusive("mint failed: " + r.Fault)
	}
}

func (e *env) neofsBalance(h util.Uint160) *big.Int {
	r := e.w.Read(e.bal, "balanceOf", h)
	if !r.OK() {
		return big.NewInt(-1)
	}
	return world.Int(r.Top())
}

func (e *env) detail(rs []*world.TxResult, extra map[string]any) map[string]any {
	m := map[string]any{}
	var txs []any
	for _, r := range rs {
		txs = append(txs, e.w.RenderResult(r, true))
	}
	m["block"] = txs
	for k, v := range extra {
		m[k] = v
	}
	return m
}

// alpha signer classes
func (e *env) alphaSigners(k int) ([]world.SignerSpec, bool, string) {
	majIsAlpha := e.w.Majority.ScriptHash() == e.w.Alphabet.ScriptHash()
	memIsAlpha := e.w.Members[0].ScriptHash() == e.w.Alphabet.ScriptHash()
	switch k {
	case 0:
		return e.w.Alpha(), true, "alphabet"
	case 1:
		return e.w.Major(), majIsAlpha, "majority"
	case 2:
		return []world.SignerSpec{world.G(e.w.Members[0])}, memIsAlpha, "member"
	case 3:
		return []world.SignerSpec{world.G(world.Single(e.owners[1].priv))}, false, "owner-only"
	case 5:
		// the Alphabet's multi-signature is there, but its scope does not reach the call: no witness
		return []world.SignerSpec{world.Scoped(e.w.Alphabet, transaction.None)}, false, "alphabet(scope None)"
	case 6:
		return []world.SignerSpec{world.Scoped(e.w.Alphabet, transaction.CustomContracts, e.w.GAS)}, false, "alphabet(scoped to GAS)"
	}
	return nil, false, "nobody"
}

func (e *env) pickAlpha(honest int) int {
	if e.b.Rng.IntN(10) < honest {
		return 0
	}
	return 1 + e.b.Rng.IntN(6)
}

func hexs(b []byte) string { return hex.EncodeToString(b) }

func b58(b []byte) string { return base58.Encode(b) }

func sortedKeys[V any](m map[string]V) []string {
	var ks []string
	for k := range m {
		ks = append(ks, k)
	}
	sort.Strings(ks)
	return ks
}

func idSet(items []stackitem.Item) (map[string]bool, bool) {
	res := map[string]bool{}
	for _, it := range items {
		k := hexs(world.Bytes(it))
		if res[k] {
			return res, false
		}
		res[k] = true
	}
	return res, true
}

func setString(m map[string]bool) string {
	var ks []string
	for k := range m {
		if len(k) > 8 {
			k = k[:8]
		}
		ks = append(ks, k)
	}
	sort.Strings(ks)
	return "{" + strings.Join(ks, ",") + "}"
}

func sameSet(a, b map[string]bool) bool {
	if len(a) != len(b) {
		return false
	}
	for k := range a {
		if !b[k] {
			return false
		}
	}
	return true
}
