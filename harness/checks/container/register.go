package container

import "verif/harness/runner"

func init() {
	tier := func(q, t int) func(string) int {
		return func(s string) int {
			if s == "thorough" {
				return t
			}
			return q
		}
	}
	tb := []string{"neo-go v0.107.0 VM, ledger and native contracts are the trusted base", "contracts are compiled at check time from /repo/contracts"}
	runner.Register(&runner.Check{
		ID: "C04", Level: "exploration",
		Rule:        "PRNG sequences of put / put(meta) / putNamed (3 names, default and explicit zone) / delete / setEACL over 3 owners and blobs with version-field lengths 0/1/7/127, re-puts of live ids, deletes of missing ids, puts after delete, name reuse, alias expiry (virtual time), signer classes {Alphabet, Majority, member, owner only, nobody}, committees 1/3/4/7; a registry model predicts success and notifications; after every block get/owner/alias/eACL for every id ever used plus unused and wrong-length ids, count, list and containersOf for every owner and the empty owner, NNS TXT records of every alias domain and a raw storage scan are compared with the model. distinct = (operation, signer class, reason/outcome, liveness, fee, committee size). One container in five is 200, 252-257, 300, 1000 or 4000 bytes long (the stored record's length prefix changes at 253).",
		Assumptions: append(tb, "records of an earlier alias after a re-put under a second name and roster/estimation keys of deleted containers are logged, not judged"),
		Batches:     tier(96, 1024), Chunk: 4,
		Floors: []string{"put-ok:put", "put-ok:putmeta", "put-ok:putnamed", "delete-ok", "setEACL-ok", "re-put-of-live-id", "put-refused:tombstoned", "delete-of-missing-id", "name-reused-after-delete", "put-refused:name-taken", "put-refused:no-alphabet-witness", "clock-jump-below-ten-years", "container-named-in-a-committee-owned-domain", "delete-refused:reserved-domain-without-committee"},
		Run:    runC04,
	})
	runner.Register(&runner.Check{
		ID: "C05", Level: "exploration",
		Rule:        "Container puts with ContainerFee and ContainerAliasFee from {0,1,7,10^6} (changed by setConfig between puts), committees of 1/4/7, owner balance driven to {total-1,total,total+1,0,3*total,2^40} before each put, named and unnamed, owners who are Alphabet nodes themselves, repeated puts until the balance runs out; the multiset of TransferX events with container-fee details and the balance deltas from the Balance storage diff must equal N transfers of the fee; refusals must leave an empty diff. distinct = (operation, signer class, reason/outcome, liveness, fee, committee size). Every fourth history re-elects the committee through NEO votes half-way, with no epoch tick in between: fees go to the new Alphabet nodes from then on.",
		Assumptions: tb,
		Batches:     tier(192, 2048), Chunk: 8,
		Floors: []string{"paid-put:N1", "paid-put:N4", "paid-put:N7", "paid-put:named", "paid-put:unnamed", "paid-put:fee0", "fee-changed-between-puts", "refused-at-total-1", "accepted-at-total", "put-refused:insufficient-balance", "puts-until-balance-runs-out", "paid-put:named-reusing-a-freed-domain", "putNamed-without-a-name-with-a-zone", "committee-larger-than-the-validator-set"},
		Run:    runC05,
	})
	runner.Register(&runner.Check{
		ID: "C14", Level: "exploration",
		Rule:        "Roster histories (vectors of 5..300 keys in two batches so the 2-byte counter crosses 127/128/255/256, 1-4 vectors, re-commits, empty commits, non-contiguous vector index, malformed ids/keys, unauthorised callers) compared in order through nodes()/replicasNumbers() and a raw scan of the pending prefix; signature matrices for REP 1..4 assembled from {honest, honest+noise, honest+junk lengths, one member repeated, malleated (r,n-s) twin, one short + duplicate, non-members, members of another vector, another message, short vector, missing vector} judged against an independent crypto/ecdsa oracle counting distinct members per vector; submitObjectPut with valid/expired/wrong-network meta maps. distinct = (operation, class, REP vector / size class, outcome). Every other round also verifies between the announcement of the next roster and its commit (committed members count, announced keys and mixtures do not), right after the replacement (the other way round) and after a dropped announcement.",
		Assumptions: append(tb, "positive control (must accept) only for matrices whose entries are all 64 bytes long"),
		Batches:     tier(96, 768), Chunk: 4,
		Floors: []string{"roster-crossing-256", "second-batch-for-a-vector", "re-commit", "empty-commit", "commit-with-null-replicas-and-pending-roster", "accepted-honest-matrix", "refused:duplicate-member", "refused:non-member", "refused:other-vector-member", "defect-in-one-vector-only", "roster-lists-a-key-twice", "signatures-of-an-earlier-vector's-members", "refused:other-message", "refused:short-vector", "refused:missing-vector", "refused:malleated-twin", "submitObjectPut-ok", "submitObjectPut-refused"},
		Run:    runC14,
	})
}
