package container

import (
	"bytes"
	"crypto/ecdsa"
	"crypto/elliptic"
	"crypto/sha256"
	"fmt"
	"math/big"

	"github.com/nspcc-dev/neo-go/pkg/crypto/keys"
	"github.com/nspcc-dev/neo-go/pkg/vm/stackitem"

	"verif/harness/runner"
	"verif/harness/world"
)

type roster struct {
	pending   map[int][][]byte
	committed map[int][][]byte
	reps      []int64
}

type c14env struct {
	*env
	rost    map[string]*roster
	keyPool []*keys.PrivateKey
	nextKey int
	// vectors whose committed roster lists the first member twice
	dupFirst map[int]bool
	// keys announced for the next commit of the container under verification (or dismissed by the last one), per vector
	outsiders map[int][]*keys.PrivateKey
}

func (c *c14env) ros(cid []byte) *roster {
	r := c.rost[hexs(cid)]
	if r == nil {
		r = &roster{pending: map[int][][]byte{}, committed: map[int][][]byte{}}
		c.rost[hexs(cid)] = r
	}
	return r
}

func (c *c14env) freshKeys(n int) []*keys.PrivateKey {
	res := make([]*keys.PrivateKey, n)
	for i := range res {
		res[i] = world.Key(c.b.Seed, c.b.Index, "member", c.nextKey)
		c.nextKey++
	}
	return res
}

func pubsOf(ks []*keys.PrivateKey) [][]byte {
	res := make([][]byte, len(ks))
	for i, k := range ks {
		res[i] = k.PublicKey().Bytes()
	}
	return res
}

func toAny(bs [][]byte) []any {
	res := make([]any, len(bs))
	for i, b := range bs {
		res[i] = b
	}
	return res
}

// addNodes performs addNextEpochNodes and judges outcome.
func (c *c14env) addNodes(cid []byte, vec int, pubs [][]byte, alphaClass int) bool {
	b := c.b
	s, aw, sd := c.alphaSigners(alphaClass)
	ro := c.ros(cid)
	exp := aw && len(cid) == 32 && vec < 255 && (vec == 0 || len(ro.pending[vec-1]) > 0)
	for _, p := range pubs {
		if len(p) != 33 {
			exp = false
		}
	}
	r := c.w.Invoke(s, c.cn, "addNextEpochNodes", cid, int64(vec), toAny(pubs))
	b.Tx(1)
	rs := []*world.TxResult{r}
	if exp != r.Halted() {
		b.Violation(fmt.Sprintf("addNextEpochNodes(vector %d, %d keys) by %s: expected success=%v, got %s %s", vec, len(pubs), sd, exp, r.State, r.Fault), c.detail(rs, nil))
	}
	if r.Halted() {
		ro.pending[vec] = append(ro.pending[vec], pubs...)
		if len(ro.pending[vec]) > len(pubs) {
			b.Hit("second-batch-for-a-vector")
		}
	} else if !r.Diff.Empty() {
		b.Violation("failed addNextEpochNodes changed storage", c.detail(rs, nil))
	}
	b.Eval(fmt.Sprintf("addNodes|%s|vec%d|n%s|%s", sd, vec, sizeClass(len(ro.pending[vec])), r.State), true)
	return r.Halted()
}

func sizeClass(n int) string {
	switch {
	case n == 0:
		return "0"
	case n < 127:
		return "<127"
	case n < 256:
		return "127-255"
	}
	return ">=256"
}

func (c *c14env) commit(cid []byte, reps []int64, alphaClass int) bool {
	b := c.b
	s, aw, sd := c.alphaSigners(alphaClass)
	ro := c.ros(cid)
	exp := aw && len(cid) == 32
	for _, r := range reps {
		if r > 255 || r < 0 {
			exp = false
		}
	}
	// reps == nil is passed as Null ("no placement policy", documented), an empty slice as an empty array
	var args any
	if reps != nil {
		a := make([]any, len(reps))
		for i, r := range reps {
			a[i] = r
		}
		args = a
	}
	r := c.w.Invoke(s, c.cn, "commitContainerListUpdate", cid, args)
	b.Tx(1)
	rs := []*world.TxResult{r}
	if exp != r.Halted() {
		b.Violation(fmt.Sprintf("commitContainerListUpdate by %s: expected success=%v, got %s %s", sd, exp, r.State, r.Fault), c.detail(rs, nil))
	}
	if r.Halted() {
		empty := len(ro.pending) == 0
		if reps == nil {
			b.Hit("commit-with-null-replicas")
			if !empty {
				b.Hit("commit-with-null-replicas-and-pending-roster")
			}
		}
		if len(ro.committed) > 0 {
			b.Hit("re-commit")
		}
		ro.committed = ro.pending
		ro.pending = map[int][][]byte{}
		ro.reps = reps
		if empty {
			b.Hit("empty-commit")
		}
		n := 0
		for _, ev := range r.Events {
			if ev.Contract == c.cn && ev.Name == "NodesUpdate" && len(ev.Items) == 1 && bytes.Equal(world.Bytes(ev.Items[0]), cid) {
				n++
			}
		}
		if n != 1 {
			b.Violation(fmt.Sprintf("commit emitted %d NodesUpdate notifications", n), c.detail(rs, nil))
		}
	} else if !r.Diff.Empty() {
		b.Violation("failed commit changed storage", c.detail(rs, nil))
	}
	b.Eval(fmt.Sprintf("commit|%s|reps%d|%s", sd, len(reps), r.State), true)
	return r.Halted()
}

// checkRoster reads nodes(cid,i) and replicasNumbers(cid) and compares in order.
func (c *c14env) checkRoster(cid []byte) {
	b := c.b
	ro := c.ros(cid)
	maxVec := 0
	for v := range ro.committed {
		if v > maxVec {
			maxVec = v
		}
	}
	for v := 0; v <= maxVec+1; v++ {
		r := c.w.Read(c.cn, "nodes", cid, int64(v))
		b.Read(1)
		if !r.OK() {
			b.Violation(fmt.Sprintf("nodes(cid, %d) does not answer: %s", v, r.Err), nil)
			continue
		}
		got := world.Arr(r.Top())
		want := ro.committed[v]
		ok := len(got) == len(want)
		for i := 0; ok && i < len(want); i++ {
			ok = bytes.Equal(world.Bytes(got[i]), want[i])
		}
		if !ok {
			first := -1
			for i := 0; i < len(got) && i < len(want); i++ {
				if !bytes.Equal(world.Bytes(got[i]), want[i]) {
					first = i
					break
				}
			}
			b.Violation(fmt.Sprintf("nodes(%s…, %d) returns %d keys, committed %d; first difference at position %d (submission order must be kept)", hexs(cid)[:8], v, len(got), len(want), first), nil)
		}
		if len(want) >= 256 {
			b.Hit("roster-crossing-256")
		}
	}
	r := c.w.Read(c.cn, "replicasNumbers", cid)
	b.Read(1)
	if !r.OK() {
		b.Violation("replicasNumbers does not answer: "+r.Err, nil)
	} else {
		got := world.Arr(r.Top())
		ok := len(got) == len(ro.reps)
		for i := 0; ok && i < len(got); i++ {
			ok = world.Int64(got[i]) == ro.reps[i]
		}
		if !ok {
			b.Violation(fmt.Sprintf("replicasNumbers = %v, committed %v", world.RenderItems(got), ro.reps), nil)
		}
	}
	// raw scan: pending roster must be what the model holds (empty right after a commit)
	pend := 0
	for k := range c.w.Dump(c.cnID) {
		if len(k) > 33 && k[0] == 'u' && bytes.Equal([]byte(k[1:33]), cid) {
			pend++
		}
	}
	wantPend := 0
	for _, p := range ro.pending {
		wantPend += len(p)
	}
	if pend != wantPend {
		b.Violation(fmt.Sprintf("pending roster holds %d keys in storage, model %d (a commit must empty it)", pend, wantPend), nil)
	}
}

// ---- signatures

func verifyP256(pub []byte, msg, sig []byte) bool {
	if len(sig) != 64 {
		return false
	}
	pk, err := keys.NewPublicKeyFromBytes(pub, elliptic.P256())
	if err != nil {
		return false
	}
	h := sha256.Sum256(msg)
	r := new(big.Int).SetBytes(sig[:32])
	s := new(big.Int).SetBytes(sig[32:])
	return ecdsa.Verify((*ecdsa.PublicKey)(pk), h[:], r, s)
}

// distinctSigners: number of distinct members of roster with >=1 valid signature of msg among sigs.
func distinctSigners(rosterPubs [][]byte, msg []byte, sigs [][]byte) int {
	n := 0
	seen := map[string]bool{} // a key listed twice in the roster is still one member
	for _, p := range rosterPubs {
		if seen[string(p)] {
			continue
		}
		seen[string(p)] = true
		for _, s := range sigs {
			if verifyP256(p, msg, s) {
				n++
				break
			}
		}
	}
	return n
}

func malleate(sig []byte) []byte {
	n := elliptic.P256().Params().N
	s := new(big.Int).SetBytes(sig[32:])
	s.Sub(n, s)
	res := append([]byte{}, sig[:32]...)
	sb := s.Bytes()
	res = append(res, make([]byte, 32-len(sb))...)
	return append(res, sb...)
}

type sigMatrix struct {
	sigs    [][][]byte
	classes []string
	honest  bool // every vector holds >= REP distinct valid member signatures and only well-formed (64-byte) entries
	wellLen bool
	// argument shape: the whole matrix passed as Null, or one vector passed as Null; the oracle sees
	// no signatures there
	nullMatrix bool
	nullVector int // index+1; 0: none
}

// arg renders the matrix as the invocation argument.
func (sm sigMatrix) arg() any {
	if sm.nullMatrix {
		return nil
	}
	res := make([]any, len(sm.sigs))
	for i, v := range sm.sigs {
		if i+1 == sm.nullVector {
			res[i] = nil
		} else {
			res[i] = toAny(v)
		}
	}
	return res
}

// oracle: does the matrix satisfy the property's condition?
func (c *c14env) sigOracle(cid, msg []byte, m [][][]byte) bool {
	ro := c.ros(cid)
	for i, rep := range ro.reps {
		if i >= len(m) {
			return false
		}
		if int64(distinctSigners(ro.committed[i], msg, m[i])) < rep {
			return false
		}
	}
	return true
}

func sigsArg(m [][][]byte) []any {
	res := make([]any, len(m))
	for i, v := range m {
		res[i] = toAny(v)
	}
	return res
}

type member struct {
	priv *keys.PrivateKey
}

// buildMatrix assembles a signature matrix for cid from the named defect class.
// target >= 0: only that vector carries the defect, every other vector is signed honestly (a defect in
// one vector must not be masked by the refusal another vector would cause anyway).
func (c *c14env) buildMatrix(cid, msg []byte, members map[int][]*keys.PrivateKey, class0 string, target int) sigMatrix {
	r := c.b.Rng
	ro := c.ros(cid)
	other := []byte("another message")
	nonMember := c.freshKeys(2)
	var m [][][]byte
	sm := sigMatrix{honest: true, wellLen: true}
	switch class0 {
	case "null-matrix", "empty-matrix":
		// no signatures at all, as Null or as an empty array: enough only for a container without REP numbers
		// (seeded change C14-8: a Null guard in front of the verification)
		sm.nullMatrix = class0 == "null-matrix"
		sm.honest = len(ro.reps) == 0
		sm.sigs = [][][]byte{}
		return sm
	}
	for i, rep := range ro.reps {
		ms := members[i]
		var v [][]byte
		need := int(rep)
		perm := r.Perm(len(ms))
		if c.dupFirst[i] {
			// the roster lists ms[0] twice: let that member be the one who signs repeatedly
			for j, k := range perm {
				if k == 0 {
					perm[0], perm[j] = perm[j], perm[0]
				}
			}
		}
		class := class0
		if target >= 0 && i != target {
			class = "honest"
		}
		if class == "null-vector" {
			class = "honest" // signed honestly, then dropped below
		}
		switch class {
		case "honest":
			for _, k := range perm[:min(need, len(ms))] {
				v = append(v, ms[k].Sign(msg))
			}
		case "honest+noise":
			v = append(v, nonMember[0].Sign(msg))
			for _, k := range perm[:min(need, len(ms))] {
				v = append(v, ms[k].Sign(msg))
				if r.IntN(2) == 0 {
					v = append(v, ms[k].Sign(other))
				}
			}
			v = append(v, nonMember[1].Sign(msg))
		case "honest+junk":
			sm.wellLen = false
			v = append(v, bytes.Repeat([]byte{1}, 63))
			for _, k := range perm[:min(need, len(ms))] {
				v = append(v, ms[k].Sign(msg))
			}
			v = append(v, bytes.Repeat([]byte{2}, 65))
		case "duplicate-member":
			s := ms[perm[0]].Sign(msg)
			for j := 0; j < need; j++ {
				v = append(v, s)
			}
			if need > 1 {
				sm.honest = false
			}
		case "malleated-twin":
			s := ms[perm[0]].Sign(msg)
			v = append(v, s, malleate(s))
			for j := 2; j < need; j++ {
				v = append(v, s)
			}
			if need > 1 {
				sm.honest = false
			}
		case "one-short+duplicate":
			for _, k := range perm[:max(need-1, 0)] {
				v = append(v, ms[k].Sign(msg))
			}
			if need >= 2 {
				v = append(v, ms[perm[0]].Sign(msg))
				sm.honest = false
			} else if need == 1 {
				v = append(v, nonMember[0].Sign(msg))
				sm.honest = false
			}
		case "non-member":
			for j := 0; j < need; j++ {
				v = append(v, c.freshKeys(1)[0].Sign(msg))
			}
			sm.honest = false
		case "other-vector-member":
			oth := members[(i+1)%len(ro.reps)]
			if target >= 0 && len(ro.reps) >= 2 {
				// any other vector, earlier or later
				o := r.IntN(len(ro.reps) - 1)
				if o >= i {
					o++
				}
				oth = members[o]
				if o < i {
					c.b.Hit("signatures-of-an-earlier-vector's-members")
				}
			}
			if len(ro.reps) < 2 {
				oth = nonMember
			}
			for j := 0; j < need; j++ {
				v = append(v, oth[j%len(oth)].Sign(msg))
			}
			sm.honest = false
		case "outsiders-of-this-vector":
			// keys that were announced for this very vector but not committed yet, or that the last commit replaced
			out := c.outsiders[i]
			if len(out) == 0 {
				out = nonMember
			}
			for j := 0; j < need; j++ {
				v = append(v, out[j%len(out)].Sign(msg))
			}
			sm.honest = false
		case "members+one-outsider-of-this-vector":
			out := c.outsiders[i]
			if len(out) == 0 {
				out = nonMember
			}
			for _, k := range perm[:max(min(need, len(ms))-1, 0)] {
				v = append(v, ms[k].Sign(msg))
			}
			v = append(v, out[r.IntN(len(out))].Sign(msg))
			sm.honest = false
		case "other-message":
			for _, k := range perm[:min(need, len(ms))] {
				v = append(v, ms[k].Sign(other))
			}
			sm.honest = false
		case "short-vector":
			for _, k := range perm[:max(min(need, len(ms))-1, 0)] {
				v = append(v, ms[k].Sign(msg))
			}
			sm.honest = false
		case "missing-vector":
			for _, k := range perm[:min(need, len(ms))] {
				v = append(v, ms[k].Sign(msg))
			}
		}
		m = append(m, v)
	}
	class := class0
	if class == "missing-vector" && len(m) > 0 {
		m = m[:len(m)-1]
		sm.honest = false
	}
	if class == "null-vector" && len(m) > 0 {
		// honest everywhere, but one vector (the target, else the last) is passed as Null
		k := len(m) - 1
		if target >= 0 && target < len(m) {
			k = target
		}
		m[k] = nil
		sm.nullVector = k + 1
		sm.honest = false
	}
	if class == "honest" && r.IntN(3) == 0 {
		m = append(m, [][]byte{nonMember[0].Sign(msg)}) // an extra vector
	}
	sm.sigs = m
	return sm
}

var sigClasses = []string{"honest", "honest+noise", "honest+junk", "duplicate-member", "malleated-twin", "one-short+duplicate", "non-member", "other-vector-member", "other-message", "short-vector", "missing-vector", "null-matrix", "empty-matrix", "null-vector"}

func (c *c14env) judgeVerify(cid, msg []byte, sm sigMatrix, class string) {
	b := c.b
	r := c.w.Read(c.cn, "verifyPlacementSignatures", cid, msg, sm.arg())
	b.Read(1)
	ok := c.sigOracle(cid, msg, sm.sigs)
	out := "fault"
	if r.OK() {
		out = fmt.Sprint(world.Bool(r.Top()))
	}
	detail := map[string]any{"class": class, "reps": c.ros(cid).reps, "result": out, "fault": r.Err, "signatures_per_vector": lens(sm.sigs)}
	if r.OK() && world.Bool(r.Top()) && !ok {
		b.Violation(fmt.Sprintf("verifyPlacementSignatures returned true although some vector has fewer than REP distinct members with a valid signature (matrix class %s)", class), detail)
	}
	if ok && sm.honest && sm.wellLen && !(r.OK() && world.Bool(r.Top())) {
		b.Violation(fmt.Sprintf("verifyPlacementSignatures refused an honest matrix (class %s): %s %s", class, out, r.Err), detail)
	}
	if ok && r.OK() && world.Bool(r.Top()) {
		b.Hit("accepted-honest-matrix")
	}
	if !ok {
		b.Hit("refused:" + class)
	}
	b.Eval(fmt.Sprintf("verify|%s|reps%v|%s", class, c.ros(cid).reps, out), !ok)
}

func lens(m [][][]byte) []int {
	res := make([]int, len(m))
	for i := range m {
		res[i] = len(m[i])
	}
	return res
}

func (c *c14env) metaMap(cid []byte, oid []byte, network int64, vub int64) []byte {
	mp := stackitem.NewMapWithValue([]stackitem.MapElement{
		{Key: stackitem.Make("cid"), Value: stackitem.NewByteArray(cid)},
		{Key: stackitem.Make("oid"), Value: stackitem.NewByteArray(oid)},
		{Key: stackitem.Make("size"), Value: stackitem.Make(int64(123))},
		{Key: stackitem.Make("validuntil"), Value: stackitem.Make(vub)},
		{Key: stackitem.Make("network"), Value: stackitem.Make(network)},
		{Key: stackitem.Make("deleted"), Value: stackitem.NewArray([]stackitem.Item{})},
		{Key: stackitem.Make("locked"), Value: stackitem.NewArray([]stackitem.Item{})},
	})
	data, err := stackitem.Serialize(mp)
	if err != nil {
		panic(err)
	}
	return data
}

// nonCanonical returns another byte string that deserializes to the same map: the entry count raised by one and the
// "size" entry written once more at the end.
func nonCanonical(meta []byte) []byte {
	k, _ := stackitem.Serialize(stackitem.Make("size"))
	v, _ := stackitem.Serialize(stackitem.Make(int64(123)))
	res := append([]byte{}, meta...)
	res[1]++ // one-byte entry count right after the type byte
	return append(append(res, k...), v...)
}

func runC14(b *runner.Batch) {
	n := []int{4, 1, 3, 7}[b.Index%4]
	e, err := newEnv(b, n, 1, 1, false)
	if err != nil {
		b.Inconclusive("world: " + err.Error())
		return
	}
	defer e.w.Close()
	c := &c14env{env: e, rost: map[string]*roster{}}
	for _, o := range e.owners {
		e.mint(o.sh, 1_000_000)
	}
	alpha, _, _ := e.alphaSigners(0)
	// a meta-enabled container and a plain one
	mkPut := func(meta bool) []byte {
		bt := e.newBlob(0, 3)
		o := &putOp{blob: bt, sig: bytes.Repeat([]byte{1}, 64), pub: e.owners[0].priv.PublicKey().Bytes(), kind: "putmeta", meta: meta, signers: alpha, alpha: true, sdesc: "alphabet"}
		r := e.invokePut(o)
		b.Tx(1)
		if !r.Halted() {
			b.Inconclusive("put failed: " + r.Fault)
		}
		return bt.cid
	}
	metaCID, plainCID := mkPut(true), mkPut(false)
	if b.NViolations() > 0 {
		return
	}

	// --- part 1: roster histories with large vectors (ordering across 127/128/255/256)
	bigCID := cidOf([]byte(fmt.Sprintf("roster-%d", b.Index)))
	total := runner.Pick(b.Rng, []int{130, 260, 300})
	if b.Index%8 != 0 && !b.Thorough() {
		total = runner.Pick(b.Rng, []int{5, 127, 129})
	}
	ks := pubsOf(c.freshKeys(total))
	cut := 1 + b.Rng.IntN(total-1)
	c.addNodes(bigCID, 0, ks[:cut], 0)
	c.addNodes(bigCID, 0, ks[cut:], 0)
	c.addNodes(bigCID, 2, ks[:2], 0) // non-contiguous vector index: refused
	c.addNodes(bigCID, 1, ks[:3], 0)
	c.addNodes(bigCID, 1, [][]byte{ks[0][:32]}, 0) // malformed key: refused
	c.addNodes(bigCID, 0, ks[:1], 1+b.Rng.IntN(4)) // unauthorised
	c.checkRoster(bigCID)                          // nothing committed yet
	c.commit(bigCID, []int64{2, 1}, 1+b.Rng.IntN(4))
	c.commit(bigCID, []int64{2, 1}, 0)
	c.checkRoster(bigCID)
	c.commit(bigCID, []int64{1}, 0) // empty commit clears the roster
	c.checkRoster(bigCID)

	// --- part 2: random roster histories on small vectors
	nops := 25
	if b.Thorough() {
		nops = 60
	}
	cids := [][]byte{metaCID, plainCID, cidOf([]byte("no such container"))}
	for i := 0; i < nops && b.NViolations() == 0; i++ {
		cid := runner.Pick(b.Rng, cids)
		switch b.Rng.IntN(5) {
		case 0:
			var reps []int64
			switch b.Rng.IntN(7) {
			case 0: // Null: commit without a placement policy, whatever is pending (seeded change C14-3)
			case 1:
				reps = []int64{}
			default:
				reps = make([]int64, 1+b.Rng.IntN(3))
				for j := range reps {
					reps[j] = int64(1 + b.Rng.IntN(4))
				}
				if b.Rng.IntN(10) == 0 {
					reps[0] = 256
				}
			}
			c.commit(cid, reps, c.pickAlpha(8))
		default:
			vec := b.Rng.IntN(4)
			k := 1 + b.Rng.IntN(6)
			pubs := pubsOf(c.freshKeys(k))
			if b.Rng.IntN(12) == 0 {
				pubs[0] = pubs[0][:32]
			}
			id := cid
			if b.Rng.IntN(15) == 0 {
				id = cid[:31]
			}
			c.addNodes(id, vec, pubs, c.pickAlpha(8))
		}
		c.checkRoster(cid)
	}

	// --- part 3: signature matrices
	rounds := 3
	if b.Thorough() {
		rounds = 8
	}
	for round := 0; round < rounds && b.NViolations() == 0; round++ {
		cid := metaCID
		if round%3 == 2 {
			cid = plainCID
		}
		nvec := 1 + b.Rng.IntN(3)
		members := map[int][]*keys.PrivateKey{}
		reps := make([]int64, nvec)
		c.dupFirst = map[int]bool{}
		for v := 0; v < nvec; v++ {
			reps[v] = int64(1 + b.Rng.IntN(4))
			members[v] = c.freshKeys(int(reps[v]) + b.Rng.IntN(4))
			c.addNodes(cid, v, pubsOf(members[v]), 0)
			if b.Rng.IntN(3) == 0 {
				// a second batch lists the first member again: still one member (seeded change C14-5)
				c.addNodes(cid, v, pubsOf(members[v][:1]), 0)
				c.dupFirst[v] = true
				b.Hit("roster-lists-a-key-twice")
			}
		}
		c.commit(cid, reps, 0)
		c.checkRoster(cid)
		msg := []byte(fmt.Sprintf("message %d/%d", b.Index, round))
		for _, class := range sigClasses {
			c.judgeVerify(cid, msg, c.buildMatrix(cid, msg, members, class, -1), class)
			if nvec >= 2 && class != "honest" && class != "missing-vector" && class != "null-matrix" && class != "empty-matrix" {
				// the same defect in one vector only (every vector in turn), the others signed honestly
				for t := 0; t < nvec; t++ {
					c.judgeVerify(cid, msg, c.buildMatrix(cid, msg, members, class, t), class)
					b.Hit("defect-in-one-vector-only")
				}
			}
		}
		// the window between the Alphabet's announcement of the next roster and its commit: the committed members still
		// count, the announced keys do not yet (seeded change C14-11: the verifier also reads the pending roster); after the
		// commit it is the other way round
		if round%2 == 0 {
			next := map[int][]*keys.PrivateKey{}
			for v := 0; v < nvec; v++ {
				next[v] = c.freshKeys(int(reps[v]) + b.Rng.IntN(3))
				c.addNodes(cid, v, pubsOf(next[v]), 0)
			}
			c.checkRoster(cid)
			window := func(ms, out map[int][]*keys.PrivateKey, hit string) {
				c.outsiders = out
				for _, class := range []string{"honest", "outsiders-of-this-vector", "members+one-outsider-of-this-vector"} {
					c.judgeVerify(cid, msg, c.buildMatrix(cid, msg, ms, class, -1), class)
					for t := 0; nvec >= 2 && class != "honest" && t < nvec; t++ {
						c.judgeVerify(cid, msg, c.buildMatrix(cid, msg, ms, class, t), class)
					}
				}
				b.Hit(hit)
			}
			window(members, next, "verified-between-announcement-and-commit")
			if b.Rng.IntN(2) == 0 {
				c.commit(cid, reps, 0)
				c.checkRoster(cid)
				c.dupFirst = map[int]bool{}
				window(next, members, "verified-right-after-the-roster-was-replaced")
				members = next
			} else {
				// the announcement is withdrawn by an empty commit followed by the old roster again
				c.commit(cid, nil, 0)
				for v := 0; v < nvec; v++ {
					c.addNodes(cid, v, pubsOf(members[v]), 0)
				}
				c.commit(cid, reps, 0)
				c.checkRoster(cid)
				c.dupFirst = map[int]bool{}
				window(members, next, "verified-after-the-announcement-was-dropped")
			}
			c.outsiders = nil
		}
		// submitObjectPut: the message is the meta information itself
		height := int64(c.w.Height())
		for _, class := range []string{"honest", "duplicate-member", "non-member", "missing-vector", "honest+noise", "null-matrix", "empty-matrix", "null-vector"} {
			network := int64(world.Magic)
			vub := height + 100
			variant := "valid"
			switch b.Rng.IntN(6) {
			case 0:
				network++
				variant = "wrong-network"
			case 1:
				vub = height
				variant = "expired-vub"
			}
			oid := cidOf([]byte(fmt.Sprintf("obj %d %d %s", b.Index, round, class)))
			meta := c.metaMap(cid, oid, network, vub)
			// half of the time the defect sits in one PRNG-chosen vector only
			tgt := -1
			if nvec >= 2 && b.Rng.IntN(2) == 0 {
				tgt = b.Rng.IntN(nvec)
			}
			// what the members sign and what is submitted are the same bytes — except now and then: the same map has other
			// encodings (an entry written twice: the later one replaces the earlier), and a signature of one byte string is
			// no signature of another (seeded change C14-12: signatures checked against the re-encoded map)
			signed, sent := meta, meta
			switch b.Rng.IntN(6) {
			case 0:
				sent = nonCanonical(meta)
				variantEnc := "another-encoding-of-the-signed-map-submitted"
				b.Hit(variantEnc)
			case 1:
				signed, sent = nonCanonical(meta), nonCanonical(meta)
				b.Hit("non-canonical-encoding-signed-and-submitted")
			}
			sm := c.buildMatrix(cid, signed, members, class, tgt)
			r := c.w.Invoke(nil, c.cn, "submitObjectPut", sent, sm.arg())
			b.Tx(1)
			rs := []*world.TxResult{r}
			sigOK := c.sigOracle(cid, sent, sm.sigs)
			if !bytes.Equal(signed, sent) {
				// honest signatures of other bytes: the matrix is not an honest one for what was submitted
				sm.honest = false
			}
			hasMeta := bytes.Equal(cid, metaCID)
			cond := sigOK && hasMeta && variant == "valid"
			nput := 0
			for _, ev := range r.Events {
				if ev.Contract == c.cn && ev.Name == "ObjectPut" {
					nput++
					if len(ev.Items) != 3 || !bytes.Equal(world.Bytes(ev.Items[0]), cid) || !bytes.Equal(world.Bytes(ev.Items[1]), oid) {
						b.Violation("ObjectPut notification carries wrong ids", c.detail(rs, nil))
					}
				}
			}
			if r.Halted() && !cond {
				b.Violation(fmt.Sprintf("submitObjectPut succeeded although its conditions do not hold (signatures ok=%v, meta container=%v, %s, class %s)", sigOK, hasMeta, variant, class), c.detail(rs, nil))
			}
			if cond && sm.honest && sm.wellLen && (!r.Halted() || nput != 1) {
				b.Violation(fmt.Sprintf("submitObjectPut with an honest matrix: %s %s, %d ObjectPut notifications", r.State, r.Fault, nput), c.detail(rs, nil))
			}
			if !r.Halted() && (!r.Diff.Empty() || nput > 0) {
				b.Violation("failed submitObjectPut had an effect", c.detail(rs, nil))
			}
			if r.Halted() {
				b.Hit("submitObjectPut-ok")
			} else {
				b.Hit("submitObjectPut-refused")
			}
			b.Eval(fmt.Sprintf("submit|%s|%s|meta%v|%s", class, variant, hasMeta, r.State), true)
		}
	}
	// the container itself is removed: that is no commit — the roster stays what the last commit fixed, what was
	// accumulated since is fixed by the next one (seeded change C14-9: the removal sweeping the roster away, after
	// which any signature matrix passes because no REP number is left)
	if b.Index%2 == 0 && b.NViolations() == 0 {
		for _, cid := range [][]byte{metaCID, plainCID} {
			ks := pubsOf(c.freshKeys(3))
			c.addNodes(cid, 0, ks[:2], 0)
			c.commit(cid, []int64{1}, 0)
			c.addNodes(cid, 0, ks[2:], 0)
			r := e.w.Invoke(alpha, e.cn, "delete", cid, bytes.Repeat([]byte{2}, 64), []byte{})
			b.Tx(1)
			if !r.Halted() {
				b.Inconclusive("delete failed: " + r.Fault)
				break
			}
			c.checkRoster(cid)
			msg := []byte("after the removal")
			c.judgeVerify(cid, msg, c.buildMatrix(cid, msg, map[int][]*keys.PrivateKey{}, "null-matrix", -1), "null-matrix")
			c.commit(cid, []int64{1}, 0)
			c.checkRoster(cid)
			b.Hit("roster-of-a-removed-container")
		}
	}
	if b.Index < 2 {
		h := b.HistoryFn()
		if len(h) > 5 {
			h = h[len(h)-5:]
		}
		b.Sample(map[string]any{"committee": n, "tail_of_history": h})
	}
}
