package container

import (
	"bytes"
	"encoding/hex"
	"fmt"
	"math/big"
	"strings"

	"github.com/nspcc-dev/neo-go/pkg/util"

	"verif/harness/runner"
	"verif/harness/world"
)

type putOp struct {
	blob     blobT
	sig, pub []byte
	token    []byte
	kind     string // put, putmeta, putnamed
	meta     bool
	name     string
	zone     string
	// nullName: putNamed is given Null where the name belongs (name is "" then): neither a name nor the empty
	// string, the call cannot go through (seeded change C05-9: an unnamed container charged the alias fee)
	nullName bool
	signers  []world.SignerSpec
	alpha    bool
	sdesc    string
}

func (e *env) domainOf(name, zone string) string {
	if zone == "" {
		zone = "container"
	}
	return name + "." + zone
}

// predictPut: "" when the put must succeed, otherwise the reason of refusal.
func (e *env) predictPut(o *putOp) string {
	cidh := hexs(o.blob.cid)
	if o.nullName {
		return "null-name"
	}
	if e.m.dead[cidh] {
		return "tombstoned"
	}
	if o.name != "" {
		if len(e.m.txt[e.domainOf(o.name, o.zone)]) > 0 {
			return "name-taken"
		}
	}
	total := e.m.fee
	if o.name != "" {
		total += e.m.aliasFee
	}
	total *= int64(e.w.N)
	if e.neofsBalance(e.owners[o.blob.owner].sh).Cmp(big.NewInt(total)) < 0 {
		return "insufficient-balance"
	}
	if !o.alpha {
		return "no-alphabet-witness"
	}
	return ""
}

var namePool = []string{"alpha", "beta-1", "gamma"}

func (e *env) genPut(reuseBias int) *putOp {
	r := e.b.Rng
	var bt blobT
	if len(e.blobs) > 0 && r.IntN(10) < reuseBias {
		bt = runner.Pick(r, e.blobs)
	} else {
		bt = e.newBlob(r.IntN(len(e.owners)), runner.Pick(r, []int{0, 1, 7, 127}))
	}
	e.seq++
	o := &putOp{blob: bt, sig: bytes.Repeat([]byte{byte(e.seq)}, 64), pub: e.owners[bt.owner].priv.PublicKey().Bytes()}
	if r.IntN(3) == 0 {
		o.token = []byte{0x0a, byte(e.seq), 0x01}
	}
	switch k := r.IntN(10); {
	case k < 4:
		o.kind = "put"
	case k < 6:
		o.kind = "putmeta"
		o.meta = r.IntN(3) != 0
	default:
		o.kind = "putnamed"
		o.name = runner.Pick(r, namePool)
		if r.IntN(3) == 0 {
			o.zone = "zonetwo"
		}
		if r.IntN(7) == 0 {
			// putNamed without a name is an unnamed put, whatever the zone argument says (seeded change C05-5)
			o.name = ""
			o.zone = runner.Pick(r, []string{"", "zonetwo", "container"})
		}
	}
	o.signers, o.alpha, o.sdesc = e.alphaSigners(e.pickAlpha(8))
	return o
}

func (e *env) invokePut(o *putOp) *world.TxResult {
	var tok any = o.token
	if o.token == nil {
		tok = []byte{}
	}
	switch o.kind {
	case "putmeta":
		return e.w.Invoke(o.signers, e.cn, "put", o.blob.data, o.sig, o.pub, tok, o.meta)
	case "putnamed":
		var nm any = o.name
		if o.nullName {
			nm = nil
		}
		return e.w.Invoke(o.signers, e.cn, "putNamed", o.blob.data, o.sig, o.pub, tok, nm, o.zone)
	}
	return e.w.Invoke(o.signers, e.cn, "put", o.blob.data, o.sig, o.pub, tok)
}

func (e *env) cnEvents(r *world.TxResult) []string {
	var res []string
	for _, ev := range r.Events {
		switch ev.Name {
		case "PutSuccess", "DeleteSuccess", "SetEACLSuccess":
			who := "container"
			if ev.Contract != e.cn {
				who = e.w.NameOf(ev.Contract)
			}
			if len(ev.Items) >= 1 {
				res = append(res, fmt.Sprintf("%s:%s:%s", who, ev.Name, hexs(world.Bytes(ev.Items[0]))))
			} else {
				res = append(res, fmt.Sprintf("%s:%s:?", who, ev.Name))
			}
		}
	}
	return res
}

func (e *env) expectEvents(r *world.TxResult, want []string, rs []*world.TxResult) {
	got := e.cnEvents(r)
	if strings.Join(got, ",") != strings.Join(want, ",") {
		e.b.Violation(fmt.Sprintf("container notifications %v, expected %v", got, want), e.detail(rs, nil))
	}
}

// doPut runs a put and judges it for C04 (registry) or C05 (fees).
func (e *env) doPut(o *putOp, mode string) {
	b := e.b
	cidh := hexs(o.blob.cid)
	reason := e.predictPut(o)
	wasLive := e.m.live[cidh] != nil
	ownerSh := e.owners[o.blob.owner].sh
	fee := e.m.fee
	if o.name != "" {
		fee += e.m.aliasFee
	}
	r := e.invokePut(o)
	b.Tx(1)
	rs := []*world.TxResult{r}
	if (reason == "") != r.Halted() {
		b.Violation(fmt.Sprintf("%s of %s…: expected %s, got %s %s", o.kind, cidh[:8], orOK(reason), r.State, r.Fault), e.detail(rs, nil))
	}
	if r.Halted() {
		c := e.m.live[cidh]
		if c == nil {
			c = &cnr{cid: o.blob.cid}
			e.m.live[cidh] = c
		}
		c.blob, c.sig, c.pub, c.token, c.owner = o.blob.data, o.sig, o.pub, o.token, e.owners[o.blob.owner].id
		if o.meta {
			c.meta = true
		}
		if o.name != "" {
			d := e.domainOf(o.name, o.zone)
			c.alias = d
			e.m.txt[d] = append(e.m.txt[d], b58(o.blob.cid))
			e.m.everAlias[d] = true
		}
		e.expectEvents(r, []string{"container:PutSuccess:" + cidh}, rs)
		if mode == "C05" {
			e.judgePayment(r, o, ownerSh, fee, rs)
		}
		b.Hit("put-ok:" + o.kind)
		if wasLive {
			b.Hit("re-put-of-live-id")
		}
		if o.name != "" && e.reusedName(e.domainOf(o.name, o.zone)) {
			b.Hit("name-reused-after-delete")
		}
	} else {
		if !r.Diff.Empty() {
			b.Violation("failed put changed storage", e.detail(rs, nil))
		}
		b.Hit("put-refused:" + orOK(reason))
	}
	b.Eval(fmt.Sprintf("%s|%s|%s|live%v|fee%d|N%d", o.kind, o.sdesc, orOK(reason), wasLive, fee, e.w.N), true)
}

func (e *env) reusedName(d string) bool { return e.m.everAlias[d+"#deleted"] }

func orOK(s string) string {
	if s == "" {
		return "ok"
	}
	return s
}

func (e *env) doDelete(cid []byte, alphaClass int) {
	s, aw, sd := e.alphaSigners(alphaClass)
	e.doDeleteAs(cid, s, aw, sd, e.w.Majority.ScriptHash() == e.w.Alphabet.ScriptHash() && aw)
}

// doDeleteAs: committee = the transaction carries the committee-majority witness as well.
func (e *env) doDeleteAs(cid []byte, s []world.SignerSpec, aw bool, sd string, committee bool) {
	b := e.b
	cidh := hexs(cid)
	c := e.m.live[cidh]
	r := e.w.Invoke(s, e.cn, "delete", cid, bytes.Repeat([]byte{9}, 64), []byte{})
	b.Tx(1)
	rs := []*world.TxResult{r}
	class := "live"
	switch {
	case c == nil:
		class = "missing"
		// a missing container: nothing may change (the contract returns quietly)
		if !r.Diff.Empty() || len(e.cnEvents(r)) > 0 {
			b.Violation("delete of a container that is not live had an effect", e.detail(rs, nil))
		}
		b.Hit("delete-of-missing-id")
	case !aw:
		class = "live-unauthorised"
		if r.Halted() || !r.Diff.Empty() {
			b.Violation(fmt.Sprintf("delete by %s succeeded or changed storage", sd), e.detail(rs, nil))
		}
	case c.reserved && !committee:
		// the NNS record of a committee-owned domain cannot be removed without the committee: the deletion is
		// refused as a whole (a container removed with its record left behind would be a trace, seeded change C04-7)
		class = "live-reserved-domain-without-committee"
		if r.Halted() || !r.Diff.Empty() {
			b.Violation(fmt.Sprintf("delete by %s of a container named in a committee-owned domain succeeded or changed storage without the committee's witness", sd), e.detail(rs, nil))
		}
		b.Hit("delete-refused:reserved-domain-without-committee")
	default:
		if !r.Halted() {
			b.Violation(fmt.Sprintf("delete of a live container failed: %s", r.Fault), e.detail(rs, nil))
			break
		}
		e.expectEvents(r, []string{"container:DeleteSuccess:" + cidh}, rs)
		if c.alias != "" {
			e.m.txt[c.alias] = nil
			e.m.everAlias[c.alias+"#deleted"] = true
		}
		delete(e.m.live, cidh)
		e.m.dead[cidh] = true
		b.Hit("delete-ok")
	}
	b.Eval(fmt.Sprintf("delete|%s|%s|%s", sd, class, r.State), true)
}

func (e *env) doSetEACL(cid []byte, alphaClass int) {
	b := e.b
	s, aw, sd := e.alphaSigners(alphaClass)
	cidh := hexs(cid)
	c := e.m.live[cidh]
	e.seq++
	blob := makeEACL(cid, runner.Pick(b.Rng, []int{0, 3, 40}), e.seq)
	sig := bytes.Repeat([]byte{byte(e.seq)}, 64)
	pub := e.owners[0].priv.PublicKey().Bytes()
	tok := []byte{}
	if b.Rng.IntN(3) == 0 {
		tok = []byte{1, 2, 3}
	}
	if c != nil && c.eacl != nil && b.Rng.IntN(4) == 0 {
		// the stored record once more, byte for byte: a successful call like any other, with its notification
		// (seeded change C04-8: "nothing to rewrite" returning before the notification)
		blob, sig, pub, tok = c.eacl.blob, c.eacl.sig, c.eacl.pub, c.eacl.token
		b.Hit("setEACL-repeats-the-stored-record")
	}
	r := e.w.Invoke(s, e.cn, "setEACL", blob, sig, pub, tok)
	b.Tx(1)
	rs := []*world.TxResult{r}
	expOK := c != nil && aw
	if expOK != r.Halted() {
		b.Violation(fmt.Sprintf("setEACL (live=%v, %s): got %s %s", c != nil, sd, r.State, r.Fault), e.detail(rs, nil))
	}
	if r.Halted() {
		if c != nil {
			c.eacl = &eaclRec{blob: blob, sig: sig, pub: pub, token: tok}
		}
		e.expectEvents(r, []string{"container:SetEACLSuccess:" + cidh}, rs)
		b.Hit("setEACL-ok")
	} else if !r.Diff.Empty() {
		b.Violation("failed setEACL changed storage", e.detail(rs, nil))
	}
	b.Eval(fmt.Sprintf("setEACL|%s|live%v|%s", sd, c != nil, r.State), true)
}

// ---- read sweep ----------------------------------------------------------

func (e *env) allIDs() [][]byte {
	seen := map[string]bool{}
	var res [][]byte
	for _, bt := range e.blobs {
		if !seen[hexs(bt.cid)] {
			seen[hexs(bt.cid)] = true
			res = append(res, bt.cid)
		}
	}
	never := cidOf([]byte("never used"))
	res = append(res, never, never[:31], append(append([]byte{}, never...), 0), []byte{})
	return res
}

func (e *env) sweepC04(rs []*world.TxResult) {
	b := e.b
	viol := func(msg string, extra map[string]any) { b.Violation(msg, e.detail(rs, extra)) }
	notFound := func(what string, r world.ReadResult, id []byte) {
		if r.OK() {
			viol(fmt.Sprintf("%s answers for an id that is not live (%x)", what, id), map[string]any{"got": world.RenderItems(r.Stack)})
		} else if len(id) == 32 && !strings.Contains(r.Err, "container does not exist") {
			viol(fmt.Sprintf("%s fails with %q instead of 'container does not exist'", what, r.Err), nil)
		}
	}
	for _, id := range e.allIDs() {
		c := e.m.live[hexs(id)]
		get := e.w.Read(e.cn, "get", id)
		own := e.w.Read(e.cn, "owner", id)
		al := e.w.Read(e.cn, "alias", id)
		ea := e.w.Read(e.cn, "eACL", id)
		b.Read(4)
		if c == nil {
			notFound("get", get, id)
			notFound("owner", own, id)
			notFound("alias", al, id)
			notFound("eACL", ea, id)
			continue
		}
		f := world.Arr(get.Top())
		if !get.OK() || len(f) != 4 || !bytes.Equal(world.Bytes(f[0]), c.blob) || !bytes.Equal(world.Bytes(f[1]), c.sig) || !bytes.Equal(world.Bytes(f[2]), c.pub) || !bytes.Equal(world.Bytes(f[3]), c.token) {
			viol(fmt.Sprintf("get(%x…) does not return the stored container", id[:4]), map[string]any{"got": world.RenderItems(get.Stack), "err": get.Err})
		} else if !bytes.Equal(cidOf(world.Bytes(f[0])), id) {
			viol("SHA-256 of the stored blob is not the container id", nil)
		}
		if !own.OK() || !bytes.Equal(world.Bytes(own.Top()), c.owner) {
			viol(fmt.Sprintf("owner(%x…) = %v, expected %x", id[:4], world.RenderItems(own.Stack), c.owner), nil)
		}
		if !al.OK() || string(world.Bytes(al.Top())) != c.alias {
			viol(fmt.Sprintf("alias(%x…) = %v, expected %q", id[:4], world.RenderItems(al.Stack), c.alias), nil)
		}
		ef := world.Arr(ea.Top())
		switch {
		case !ea.OK() || len(ef) != 4:
			viol(fmt.Sprintf("eACL(%x…) does not answer: %s", id[:4], ea.Err), nil)
		case c.eacl == nil:
			if len(world.Bytes(ef[0])) != 0 {
				viol("eACL returns a table that was never set", nil)
			}
		default:
			if !bytes.Equal(world.Bytes(ef[0]), c.eacl.blob) || !bytes.Equal(world.Bytes(ef[1]), c.eacl.sig) || !bytes.Equal(world.Bytes(ef[2]), c.eacl.pub) || !bytes.Equal(world.Bytes(ef[3]), c.eacl.token) {
				viol("eACL is not the last table set", map[string]any{"got": world.RenderItems(ea.Stack)})
			}
		}
	}
	// count, list, containersOf
	cnt := e.w.Read(e.cn, "count")
	b.Read(1)
	if !cnt.OK() || world.Int64(cnt.Top()) != int64(len(e.m.live)) {
		viol(fmt.Sprintf("count() = %v, %d containers are live", world.RenderItems(cnt.Stack), len(e.m.live)), nil)
	}
	owners := [][]byte{{}}
	for _, o := range e.owners {
		owners = append(owners, o.id)
	}
	owners = append(owners, ownerID(util.Uint160{1, 2, 3}))
	for _, oid := range owners {
		want := map[string]bool{}
		for k, c := range e.m.live {
			if len(oid) == 0 || bytes.Equal(c.owner, oid) {
				want[k] = true
			}
		}
		for _, method := range []string{"list", "containersOf"} {
			r := e.w.Read(e.cn, method, oid)
			b.Read(1)
			if !r.OK() {
				viol(fmt.Sprintf("%s(%x) does not answer: %s", method, oid, r.Err), nil)
				continue
			}
			got, uniq := idSet(world.Arr(r.Top()))
			if !uniq || !sameSet(got, want) {
				viol(fmt.Sprintf("%s(owner %x…) = %s, live ids of that owner are %s", method, oid, setString(got), setString(want)), nil)
			}
		}
	}
	// NNS TXT records of every alias domain ever used
	for d := range e.m.everAlias {
		if strings.HasSuffix(d, "#deleted") {
			continue
		}
		r := e.w.Read(e.nns, "getRecords", d, int64(16))
		b.Read(1)
		var got []string
		if r.OK() {
			for _, it := range world.Arr(r.Top()) {
				got = append(got, string(world.Bytes(it)))
			}
		}
		if strings.Join(got, ",") != strings.Join(e.m.txt[d], ",") {
			viol(fmt.Sprintf("NNS TXT records of %s are %v, expected %v", d, got, e.m.txt[d]), nil)
		}
	}
	// raw scan: residue of dead ids, satellites of live ids
	dump := e.w.Dump(e.cnID)
	for k := range dump {
		for dead := range e.m.dead {
			raw, _ := hexDecode(dead)
			if bytes.Contains([]byte(k), raw) && k != "d"+string(raw) {
				switch k[0] {
				case 'n', 'r', 'u':
					if !strings.HasPrefix(k, "nnsHasAlias") {
						b.Observe("roster keys (n/r/u) of a deleted container stay in storage")
						continue
					}
				case 'c':
					if strings.HasPrefix(k, "cnr") {
						continue
					}
				case 'e':
					if strings.HasPrefix(k, "est") {
						continue
					}
				}
				viol(fmt.Sprintf("storage key %q… still refers to the deleted container %s…", trunc(k, 12), dead[:8]), nil)
			}
		}
	}
	for dead := range e.m.dead {
		raw, _ := hexDecode(dead)
		if _, ok := dump["d"+string(raw)]; !ok {
			viol("tombstone of a deleted container is missing", nil)
		}
	}
	for k, c := range e.m.live {
		raw, _ := hexDecode(k)
		if _, ok := dump["x"+string(raw)]; !ok {
			viol("live container has no 'x' record", nil)
		}
		if _, ok := dump["o"+string(c.owner)+string(raw)]; !ok {
			viol("live container is missing from the owner index", nil)
		}
		if _, ok := dump["m"+string(raw)]; ok != c.meta {
			viol(fmt.Sprintf("meta flag of %s… is %v, expected %v", k[:8], ok, c.meta), nil)
		}
	}
	b.State(fmt.Sprintf("live%d dead%d alias%d", len(e.m.live), len(e.m.dead), len(e.m.everAlias)))
}

func trunc(s string, n int) string {
	if len(s) > n {
		return s[:n]
	}
	return s
}

func hexDecode(s string) ([]byte, error) { return hex.DecodeString(s) }

func (e *env) pickID() []byte {
	if len(e.blobs) == 0 || e.b.Rng.IntN(12) == 0 {
		return runner.Pick(e.b.Rng, e.allIDs())
	}
	return runner.Pick(e.b.Rng, e.blobs).cid
}

func runC04(b *runner.Batch) {
	n := []int{4, 1, 3, 7}[b.Index%4]
	e, err := newEnv(b, n, 3, 2, false)
	if err != nil {
		b.Inconclusive("world: " + err.Error())
		return
	}
	defer e.w.Close()
	for _, o := range e.owners {
		e.mint(o.sh, 1_000_000)
	}
	// canonical scenario: put, meta put, named put, setEACL, re-put, delete, refused put of a tombstone,
	// delete of a missing id, name reuse after delete
	alpha, _, _ := e.alphaSigners(0)
	mk := func(kind string, owner int, name string) *putOp {
		bt := e.newBlob(owner, 7)
		return &putOp{blob: bt, sig: bytes.Repeat([]byte{1}, 64), pub: e.owners[owner].priv.PublicKey().Bytes(), kind: kind, name: name, meta: kind == "putmeta", signers: alpha, alpha: true, sdesc: "alphabet"}
	}
	p1, p2, p3 := mk("put", 0, ""), mk("putmeta", 1, ""), mk("putnamed", 2, "alpha")
	for _, p := range []*putOp{p1, p2, p3} {
		e.doPut(p, "C04")
		e.sweepC04(nil)
	}
	e.doSetEACL(p1.blob.cid, 0)
	e.doPut(p1, "C04") // re-put of a live id
	e.doDelete(p3.blob.cid, 0)
	e.sweepC04(nil)
	e.doPut(p3, "C04") // tombstoned
	e.doDelete(p3.blob.cid, 0)
	p4 := mk("putnamed", 0, "alpha") // the name is free again
	e.doPut(p4, "C04")
	e.sweepC04(nil)

	nops := 120
	if b.Thorough() {
		nops = 250
	}
	var jumped uint64
	for i := 0; i < nops && b.NViolations() == 0; i++ {
		// time passes (hours, weeks, years — less than the ten years names are registered for): nothing may change
		if b.Rng.IntN(15) == 0 {
			d := runner.Pick(b.Rng, []uint64{2 * 3600, 40 * 24 * 3600, 3 * 365 * 24 * 3600}) * 1000
			if jumped+d < 9*365*24*3600*1000 {
				jumped += d
				e.w.Now += d
				b.Hit("clock-jump-below-ten-years")
			}
		}
		if b.Rng.IntN(12) == 0 {
			// the placement roster of some id — live, removed or never seen — is accumulated, fixed and cleared by the
			// Alphabet: that is another part of the contract's storage, the registry does not move (seeded change
			// C04-10: roster keys under the tombstones' prefix, so that clearing a roster lifts a tombstone)
			id := e.pickID()
			A, _, _ := e.alphaSigners(0)
			if b.Rng.IntN(2) == 0 {
				e.w.Invoke(A, e.cn, "addNextEpochNodes", id, int64(0), []any{e.owners[0].priv.PublicKey().Bytes()})
				b.Tx(1)
			}
			var reps any
			if b.Rng.IntN(2) == 0 {
				reps = []any{int64(1)}
			}
			e.w.Invoke(A, e.cn, "commitContainerListUpdate", id, reps)
			b.Tx(1)
			b.Hit("roster-operations-between-registry-operations")
			e.sweepC04(e.w.History[len(e.w.History)-1:])
			continue
		}
		switch k := b.Rng.IntN(20); {
		case k < 9:
			o := e.genPut(4)
			if o.kind == "putnamed" && b.Rng.IntN(10) == 0 {
				o.nullName, o.name = true, ""
				b.Hit("putNamed-with-a-null-name")
			}
			e.doPut(o, "C04")
		case k < 14:
			e.doDelete(e.pickID(), e.pickAlpha(8))
		default:
			e.doSetEACL(e.pickID(), e.pickAlpha(8))
		}
		e.sweepC04(e.w.History[len(e.w.History)-1:])
	}
	// a container named inside a domain the committee registered for itself: created with both witnesses,
	// cannot be deleted by the Alphabet alone (where the two accounts differ), deleted completely with both
	if b.NViolations() == 0 && b.Index%2 == 0 {
		w := e.w
		majIsAlpha := w.Majority.ScriptHash() == w.Alphabet.ScriptHash()
		name := fmt.Sprintf("resv%d", b.Index)
		rr := w.Invoke(w.Major(), w.H("nns"), "register", name+".container", w.Majority.ScriptHash(), "ops@nspcc.io", int64(3600), int64(600), int64(10*365*24*3600), int64(3600))
		b.Tx(1)
		if rr.Halted() {
			both := append(append([]world.SignerSpec{}, w.Alpha()...), w.Major()...)
			if majIsAlpha {
				both = w.Alpha()
			}
			p := mk("putnamed", 1, name)
			p.signers, p.sdesc = both, "alphabet+committee"
			e.doPut(p, "C04")
			if c := e.m.live[hexs(p.blob.cid)]; c != nil {
				c.reserved = true
				e.sweepC04(nil)
				e.doDeleteAs(c.cid, w.Alpha(), true, "alphabet", majIsAlpha)
				e.sweepC04(nil)
				if e.m.live[hexs(p.blob.cid)] != nil {
					e.doDeleteAs(c.cid, both, true, "alphabet+committee", true)
					e.sweepC04(nil)
				}
				b.Hit("container-named-in-a-committee-owned-domain")
			}
		} else {
			b.Observe("the committee could not register a name in the container zone: " + rr.Fault)
		}
	}
	// alias domain expiry before delete (virtual time): everything registered 10 years ago expires
	if b.Index%3 == 0 && b.NViolations() == 0 {
		var named []*cnr
		for _, k := range sortedKeys(e.m.live) {
			if e.m.live[k].alias != "" {
				named = append(named, e.m.live[k])
			}
		}
		if len(named) > 0 {
			e.w.Now += uint64(10*365+2) * 24 * 3600 * 1000
			for d := range e.m.txt {
				e.m.txt[d] = nil // unreachable: the name has expired
			}
			e.doDelete(named[0].cid, 0)
			b.Hit("delete-after-alias-expiry")
			e.sweepC04(e.w.History[len(e.w.History)-1:])
		}
	}
	if b.Index < 2 {
		h := b.HistoryFn()
		if len(h) > 8 {
			h = h[len(h)-8:]
		}
		b.Sample(map[string]any{"committee": n, "tail_of_history": h})
	}
}
