package container

import (
	"bytes"
	"fmt"
	"math/big"
	"strings"

	"github.com/nspcc-dev/neo-go/pkg/util"
	"github.com/nspcc-dev/neo-go/pkg/vm/stackitem"

	"verif/harness/runner"
	"verif/harness/world"
)

// judgePayment checks the fee transfers of a successful put.
func (e *env) judgePayment(r *world.TxResult, o *putOp, owner util.Uint160, fee int64, rs []*world.TxResult) {
	b := e.b
	details := append([]byte{0x10}, o.blob.cid...)
	want := map[string]int{}
	wantDelta := map[util.Uint160]*big.Int{}
	add := func(h util.Uint160, v int64) {
		if wantDelta[h] == nil {
			wantDelta[h] = big.NewInt(0)
		}
		wantDelta[h].Add(wantDelta[h], big.NewInt(v))
	}
	for _, p := range e.w.Pubs {
		to := p.GetScriptHash()
		want[fmt.Sprintf("%s>%s:%d", owner.StringLE(), to.StringLE(), fee)]++
		add(owner, -fee)
		add(to, fee)
	}
	got := map[string]int{}
	nX := 0
	for _, ev := range r.Events {
		if ev.Contract != e.bal {
			continue
		}
		switch ev.Name {
		case "TransferX":
			if len(ev.Items) != 4 {
				b.Violation("malformed TransferX", e.detail(rs, nil))
				continue
			}
			if !bytes.Equal(world.Bytes(ev.Items[3]), details) {
				b.Violation(fmt.Sprintf("TransferX in a container put carries details %x, expected %x", world.Bytes(ev.Items[3]), details), e.detail(rs, nil))
			}
			from, _ := util.Uint160DecodeBytesBE(world.Bytes(ev.Items[0]))
			to, _ := util.Uint160DecodeBytesBE(world.Bytes(ev.Items[1]))
			got[fmt.Sprintf("%s>%s:%s", from.StringLE(), to.StringLE(), world.Int(ev.Items[2]))]++
			nX++
		}
	}
	if fee > 0 || nX > 0 {
		same := len(got) == len(want)
		for k, v := range want {
			if got[k] != v {
				same = false
			}
		}
		if !same {
			b.Violation(fmt.Sprintf("fee transfers differ: got %v, expected %d transfers of %d from the owner to each Alphabet node", got, e.w.N, fee), e.detail(rs, map[string]any{"expected": want}))
		}
	}
	// balance deltas from the storage diff of Balance
	deltas := balanceDeltas(r.Diff[e.balID])
	for h, d := range wantDelta {
		if d.Sign() == 0 {
			continue
		}
		if deltas[h] == nil || deltas[h].Cmp(d) != 0 {
			b.Violation(fmt.Sprintf("NEOFS balance of %s changed by %v, expected %s (fee %d x %d nodes)", e.w.LabelOf(h), deltas[h], d, fee, e.w.N), e.detail(rs, nil))
		}
	}
	for h, d := range deltas {
		if wantDelta[h] == nil || wantDelta[h].Cmp(d) != 0 {
			b.Violation(fmt.Sprintf("unexpected NEOFS balance change of %s by %s during put", h.StringLE(), d), e.detail(rs, nil))
		}
	}
	g := e.w.Read(e.cn, "get", o.blob.cid)
	b.Read(1)
	if !g.OK() {
		b.Violation("fee was charged but the container is not stored", e.detail(rs, nil))
	}
	b.Hit(fmt.Sprintf("paid-put:N%d", e.w.N))
	if fee == 0 {
		b.Hit("paid-put:fee0")
	}
	if o.name != "" {
		b.Hit("paid-put:named")
	} else {
		b.Hit("paid-put:unnamed")
	}
}

func balanceDeltas(d map[string]world.Change) map[util.Uint160]*big.Int {
	res := map[util.Uint160]*big.Int{}
	parse := func(v []byte) *big.Int {
		if v == nil {
			return big.NewInt(0)
		}
		it, err := stackitem.Deserialize(v)
		if err != nil {
			return big.NewInt(0)
		}
		f := world.Arr(it)
		if len(f) < 1 || world.Int(f[0]) == nil {
			return big.NewInt(0)
		}
		return world.Int(f[0])
	}
	for k, c := range d {
		if len(k) != 21 || k[0] != 'a' {
			continue
		}
		h, _ := util.Uint160DecodeBytesBE([]byte(k[1:]))
		dl := new(big.Int).Sub(parse(c.New), parse(c.Old))
		if dl.Sign() != 0 {
			res[h] = dl
		}
	}
	return res
}

// setBalance drives an account to an exact NEOFS balance through Alphabet mint/burn.
func (e *env) setBalance(h util.Uint160, target int64) {
	cur := e.neofsBalance(h).Int64()
	switch {
	case cur < target:
		e.mint(h, target-cur)
	case cur > target:
		r := e.w.Invoke(e.w.Alpha(), e.bal, "burn", h, cur-target, []byte{2})
		e.b.Tx(1)
		if !r.Halted() {
			e.b.Inconclusive("burn failed: " + r.Fault)
		}
	}
}

func (e *env) setFee(key string, v int64) {
	// the id only names the Inner Ring's event: one event may set several keys, and ids may come back (seeded change
	// C05-12: an update skipped because its id was seen before)
	var id any = []byte{byte(e.seq)}
	switch e.b.Rng.IntN(5) {
	case 0:
		id = []byte("one event for several keys")
		e.b.Hit("fee-set-under-an-id-used-before")
	case 1:
		id = nil
	case 2:
		id = []byte{}
	}
	r := e.w.Invoke(e.w.Alpha(), e.nm, "setConfig", id, []byte(key), v)
	e.b.Tx(1)
	if !r.Halted() {
		e.b.Inconclusive("setConfig failed: " + r.Fault)
		return
	}
	if key == "ContainerFee" {
		e.m.fee = v
	} else {
		e.m.aliasFee = v
	}
	e.b.Hit("fee-changed-between-puts")
}

var feePool = []int64{0, 1, 7, 1_000_000}

func runC05(b *runner.Batch) {
	n := []int{1, 4, 7}[b.Index%3]
	fee := feePool[(b.Index/3)%4]
	aliasFee := feePool[(b.Index/12)%4]
	e, err := newEnv(b, n, fee, aliasFee, b.Index%2 == 1)
	if err != nil {
		b.Inconclusive("world: " + err.Error())
		return
	}
	defer e.w.Close()
	alpha, _, _ := e.alphaSigners(0)
	nops := 40
	if b.Thorough() {
		nops = 80
	}
	var freed []string
	for i := 0; i < nops && b.NViolations() == 0; i++ {
		r := b.Rng
		if i == nops/2 && b.Index%4 == 2 {
			// the committee is re-elected through NEO votes, with no epoch tick in between: from the next block on the fees
			// go to the new Alphabet nodes, as many as there are now (seeded change C05-11: receivers remembered per epoch)
			if err := e.w.Reelect(world.Keys(b.Seed, b.Index, "committee-2", e.w.N)); err != nil {
				b.Inconclusive("re-election: " + err.Error())
				return
			}
			alpha, _, _ = e.alphaSigners(0)
			b.Hit("committee-re-elected-between-registrations")
		}
		if r.IntN(6) == 0 {
			if r.IntN(2) == 0 {
				e.setFee("ContainerFee", runner.Pick(r, feePool))
			} else {
				e.setFee("ContainerAliasFee", runner.Pick(r, feePool))
			}
		}
		// now and then a named container is deleted: its domain stays registered and free for reuse
		if r.IntN(5) == 0 {
			for _, k := range sortedKeys(e.m.live) {
				if c := e.m.live[k]; c.alias != "" && strings.HasSuffix(c.alias, ".container") {
					e.doDelete(c.cid, 0)
					freed = append(freed, strings.TrimSuffix(c.alias, ".container"))
					break
				}
			}
		}
		o := e.genPut(2)
		if r.IntN(10) < 8 {
			o.signers, o.alpha, o.sdesc = alpha, true, "alphabet"
		}
		reused := false
		if o.kind == "putnamed" && r.IntN(10) == 0 {
			o.nullName, o.name = true, ""
			b.Hit("putNamed-with-a-null-name")
		}
		if o.kind == "putnamed" && o.name == "" && !o.nullName {
			b.Hit("putNamed-without-a-name")
			if o.zone != "" {
				b.Hit("putNamed-without-a-name-with-a-zone")
			}
		}
		if o.kind == "putnamed" && o.name != "" {
			// mostly fresh names so that the fee, not the name, decides; sometimes a freed, still registered domain
			switch {
			case len(freed) > 0 && r.IntN(2) == 0:
				o.name, o.zone = freed[len(freed)-1], ""
				freed = freed[:len(freed)-1]
				reused = true
			case r.IntN(4) != 0:
				e.seq++
				o.name = fmt.Sprintf("n%d-%d", b.Index, e.seq)
			}
		}
		total := e.m.fee
		if o.name != "" {
			total += e.m.aliasFee
		}
		total *= int64(n)
		target := runner.Pick(r, []int64{total - 1, total, total + 1, 0, total * 3, 1 << 40})
		if target < 0 {
			target = 0
		}
		owner := e.owners[o.blob.owner].sh
		e.setBalance(owner, target)
		class := "other"
		switch {
		case target == total-1:
			class = "total-1"
		case target == total:
			class = "total"
		case target == total+1:
			class = "total+1"
		}
		before := len(e.w.History)
		payDecides := e.predictPutIgnoringBalance(o)
		e.doPut(o, "C05")
		pr := e.w.History[before]
		if reused && pr.Halted() {
			b.Hit("paid-put:named-reusing-a-freed-domain")
		}
		if total > 0 && o.alpha && payDecides {
			switch {
			case class == "total-1" && !pr.Halted():
				b.Hit("refused-at-total-1")
			case class == "total" && pr.Halted():
				b.Hit("accepted-at-total")
			}
		}
		b.State(fmt.Sprintf("fee%d alias%d n%d bal-%s", e.m.fee, e.m.aliasFee, n, class))
		// repeated puts until the balance runs out
		if r.IntN(8) == 0 && e.m.fee > 0 {
			e.setBalance(owner, e.m.fee*int64(n)*2+1)
			for k := 0; k < 3; k++ {
				o2 := e.genPut(0)
				o2.blob = e.newBlob(o.blob.owner, 1)
				o2.pub = e.owners[o.blob.owner].priv.PublicKey().Bytes()
				o2.kind, o2.name, o2.zone, o2.meta = "put", "", "", false
				o2.signers, o2.alpha, o2.sdesc = alpha, true, "alphabet"
				e.doPut(o2, "C05")
			}
			b.Hit("puts-until-balance-runs-out")
		}
	}
	if b.Index < 2 {
		h := b.HistoryFn()
		if len(h) > 6 {
			h = h[len(h)-6:]
		}
		b.Sample(map[string]any{"committee": n, "tail_of_history": h})
	}
}

// predictPutIgnoringBalance: would the put succeed if the owner could pay?
func (e *env) predictPutIgnoringBalance(o *putOp) bool {
	if e.m.dead[hexs(o.blob.cid)] {
		return false
	}
	if o.name != "" && len(e.m.txt[e.domainOf(o.name, o.zone)]) > 0 {
		return false
	}
	return o.alpha
}
