package gov

import (
	"fmt"
	"math/big"

	"github.com/nspcc-dev/neo-go/pkg/crypto/keys"
	"github.com/nspcc-dev/neo-go/pkg/util"

	"verif/harness/runner"
	"verif/harness/world"
)

// runEmit: Alphabet contracts' emit over contract balances, Inner Ring sizes and NEO holdings.
func runEmit(b *runner.Batch, idx int) {
	n := []int{1, 4, 7, 3}[idx%4]
	nval := 0
	if n > 1 && idx%3 == 1 {
		nval = 1 // a single consensus node under a larger committee
		b.Hit("emit-with-committee-larger-than-the-validator-set")
	}
	w, err := world.New(world.Options{N: n, Seed: b.Seed, Batch: b.Index, Validators: nval})
	if err != nil {
		b.Inconclusive("world: " + err.Error())
		return
	}
	defer w.Close()
	r := b.Rng
	irSize := 1 + idx%7
	var ir []*keys.PrivateKey
	for i := 0; i < irSize; i++ {
		ir = append(ir, world.Key(b.Seed, b.Index, "ir", i))
	}
	if err := w.DeployFS(b.Set, world.FSOptions{Contracts: []string{"proxy"}, IR: world.Pubs(ir)}); err != nil {
		b.Inconclusive("deploy: " + err.Error())
		return
	}
	proxy := w.H("proxy")
	// one Alphabet contract per committee member, explicit addresses (no Netmap needed for emit)
	alpha := make([]util.Uint160, n)
	for i := 0; i < n; i++ {
		snd := world.Single(world.Key(b.Seed, b.Index, "alphadeployer", i))
		w.FundGAS(snd.ScriptHash(), 100*gasUnit)
		d, err := w.DeployFrom(snd, fmt.Sprintf("alphabet%d", i), b.Set["alphabet"], []any{false, util.Uint160{5}, proxy, fmt.Sprintf("letter%d", i), int64(i), int64(n)})
		if err != nil {
			b.Inconclusive("deploy alphabet: " + err.Error())
			return
		}
		alpha[i] = d.Hash
	}
	tok, err := w.Deploy("token", b.Helpers["token"], nil)
	if err != nil {
		b.Inconclusive("deploy token: " + err.Error())
		return
	}
	b.HistoryFn = func() []any {
		var res []any
		h := w.History
		if len(h) > 30 {
			h = h[len(h)-30:]
		}
		for _, x := range h {
			res = append(res, w.RenderResult(x, true))
		}
		return res
	}
	user := world.Single(world.Key(b.Seed, b.Index, "emituser", 0))
	w.FundGAS(user.ScriptHash(), 100000*gasUnit)
	w.FundNEO(user.ScriptHash(), 1000)

	// token acceptance: Alphabet takes GAS and NEO only, Proxy GAS only
	for _, t := range []struct {
		name        string
		h           util.Uint160
		neoAccepted bool
	}{{"alphabet", alpha[0], true}, {"proxy", proxy, false}} {
		rn := w.Invoke([]world.SignerSpec{world.G(user)}, w.NEO, "transfer", user.ScriptHash(), t.h, int64(1), nil)
		rt := w.Invoke([]world.SignerSpec{world.G(user)}, tok.Hash, "transfer", user.ScriptHash(), t.h, int64(5), nil)
		rd := w.Invoke([]world.SignerSpec{world.G(user)}, t.h, "onNEP17Payment", user.ScriptHash(), int64(5), nil)
		rg := w.Invoke([]world.SignerSpec{world.G(user)}, w.GAS, "transfer", user.ScriptHash(), t.h, int64(1), nil)
		// a Null sender is what a minting token announces (and what GAS itself announces for the NEO-generated GAS)
		for _, rm := range []*world.TxResult{
			w.Invoke([]world.SignerSpec{world.G(user)}, tok.Hash, "transfer", nil, t.h, int64(5), nil),
			w.Invoke([]world.SignerSpec{world.G(user)}, t.h, "onNEP17Payment", nil, int64(5), nil),
		} {
			if rm.Halted() {
				b.Violation(fmt.Sprintf("a payment with a Null sender that does not come from GAS/NEO was accepted by %s", t.name), w.RenderResult(rm, true))
			}
		}
		b.Hit("token-acceptance-null-sender:" + t.name)
		b.Tx(6)
		if rn.Halted() != t.neoAccepted {
			b.Violation(fmt.Sprintf("NEO transfer to %s: %s (accepted must be %v)", t.name, rn.State, t.neoAccepted), w.RenderResult(rn, true))
		}
		if rt.Halted() {
			b.Violation(fmt.Sprintf("foreign NEP-17 token was accepted by %s", t.name), w.RenderResult(rt, true))
		}
		if rd.Halted() {
			b.Violation(fmt.Sprintf("direct onNEP17Payment call was accepted by %s", t.name), w.RenderResult(rd, true))
		}
		if !rg.Halted() {
			b.Violation(fmt.Sprintf("GAS was refused by %s", t.name), w.RenderResult(rg, true))
		}
		b.Hit("token-acceptance:" + t.name)
		b.EvalN("acceptance|"+t.name, 4, true)
	}

	targets := []int64{0, 1, 2, 3, 15, 16, 17, 1_000_000, 1_000_003, 1_000_000_000_000}
	nemits := 13
	if b.Thorough() {
		nemits = 80
	}
	irAcc := make([]util.Uint160, len(ir))
	for i, k := range ir {
		irAcc[i] = world.Hash160Of(k)
	}
	// an Alphabet contract whose index lies beyond the committee (the committee shrank, or it was deployed for a seat that
	// does not exist yet): it has no node of its own, nobody can make it emit (seeded change C19-8: the node looked up
	// modulo the committee size)
	for extra := 0; extra < 2; extra++ {
		snd := world.Single(world.Key(b.Seed, b.Index, "alphadeployer", n+extra))
		w.FundGAS(snd.ScriptHash(), 100*gasUnit)
		d, err := w.DeployFrom(snd, fmt.Sprintf("alphabet%d", n+extra), b.Set["alphabet"], []any{false, util.Uint160{5}, proxy, fmt.Sprintf("letter%d", n+extra), int64(n + extra), int64(n + 2)})
		if err != nil {
			b.Inconclusive("deploy alphabet: " + err.Error())
			return
		}
		w.Invoke([]world.SignerSpec{world.G(user)}, w.GAS, "transfer", user.ScriptHash(), d.Hash, int64(1_000_000), nil)
		b.Tx(1)
		for m := 0; m < n; m++ {
			tr := w.Invoke([]world.SignerSpec{world.G(w.Members[m])}, d.Hash, "emit")
			b.Tx(1)
			if tr.Halted() || len(gasMoves(w, tr, w.GAS)) > 0 {
				b.Violation(fmt.Sprintf("emit of the Alphabet contract with index %d was not refused to committee member %d of %d (no committee member has that index)", n+extra, m, n), w.RenderResult(tr, true))
			}
			b.Eval(fmt.Sprintf("emit|seatless-contract|member%d|%s", m, tr.State), true)
		}
		b.Hit("emit-refused:contract-index-beyond-the-committee")
	}
	// an Alphabet contract told its Proxy explicitly and left to look Netmap up in the NNS, where another Proxy is
	// registered under proxy.neofs: what it emits goes to the Proxy it was given (seeded change C19-10: one missing
	// address making the deployment resolve both)
	if b.Index%2 == 0 {
		snd := world.Single(world.Key(b.Seed, b.Index, "alphadeployer", n+7))
		w.FundGAS(snd.ScriptHash(), 200*gasUnit)
		p2, err := w.DeployFrom(snd, "proxy-second", b.Set["proxy"], nil)
		if err == nil && w.RegisterNNS("netmap", util.Uint160{5}) == nil {
			d, err := w.DeployFrom(snd, "alphabet-mixed", b.Set["alphabet"], []any{false, nil, p2.Hash, "letter-mixed", int64(0), int64(n)})
			if err != nil {
				b.Inconclusive("deploy alphabet (Netmap from the NNS, Proxy given): " + err.Error())
				return
			}
			amount := int64(12_3456_7891)
			w.Invoke([]world.SignerSpec{world.G(user)}, w.GAS, "transfer", user.ScriptHash(), d.Hash, amount, nil)
			pre2, preReg := w.GASOf(p2.Hash), w.GASOf(proxy)
			tr := w.Invoke([]world.SignerSpec{world.G(w.Members[0])}, d.Hash, "emit")
			b.Tx(2)
			got2 := new(big.Int).Sub(w.GASOf(p2.Hash), pre2)
			gotReg := new(big.Int).Sub(w.GASOf(proxy), preReg)
			if !tr.Halted() || got2.Int64() != amount/2 || gotReg.Sign() != 0 {
				b.Violation(fmt.Sprintf("emit of an Alphabet contract deployed with an explicit Proxy and Netmap from the NNS: %s, the given Proxy received %s (expected %d), the Proxy registered in the NNS %s (expected 0)", tr.State, got2, amount/2, gotReg), w.RenderResult(tr, true))
			}
			b.Eval("emit|explicit-proxy-netmap-from-nns|"+tr.State, true)
			b.Hit("emit-with-explicit-proxy-and-netmap-from-the-nns")
		} else {
			b.Inconclusive(fmt.Sprintf("second proxy / netmap record: %v", err))
			return
		}
	}
	rot := 0
	for e := 0; e < nemits && b.NViolations() == 0; e++ {
		ci := r.IntN(n)
		c := alpha[ci]
		// drive the contract's GAS balance to a target (top up only; it never goes down except by emit)
		target := runner.Pick(r, targets)
		if e < len(targets) {
			target = targets[e]
		}
		cur := w.GASOf(c).Int64()
		if cur < target {
			w.Invoke([]world.SignerSpec{world.G(user)}, w.GAS, "transfer", user.ScriptHash(), c, target-cur, nil)
			b.Tx(1)
		}
		if r.IntN(3) == 0 {
			w.Invoke([]world.SignerSpec{world.G(user)}, w.NEO, "transfer", user.ScriptHash(), c, int64(100), nil)
			b.Tx(1)
			if r.IntN(2) == 0 {
				w.EmptyBlocks(1 + r.IntN(5))
			}
		}
		// now and then the Inner Ring is re-designated (other keys, another size) in the block right before
		// the emit: the GAS must go to the list in force, not to the one of a block ago
		if e >= 3 && r.IntN(5) == 0 {
			rot++
			irSize = 1 + r.IntN(7)
			ir = ir[:0]
			for i := 0; i < irSize; i++ {
				ir = append(ir, world.Key(b.Seed, b.Index, fmt.Sprintf("ir-rot%d", rot), i))
			}
			if err := w.DesignateIR(world.Pubs(ir)); err != nil {
				b.Inconclusive("re-designation of the Inner Ring: " + err.Error())
				return
			}
			b.Tx(1)
			irAcc = irAcc[:0]
			for _, k := range ir {
				irAcc = append(irAcc, world.Hash160Of(k))
			}
			b.Hit("emit-right-after-inner-ring-rotation")
		}
		// who calls: the contract's own Alphabet node (committee key #index), or somebody else
		var signer []world.SignerSpec
		own := false
		who := ""
		switch k := r.IntN(8); {
		case k < 5:
			signer = []world.SignerSpec{world.G(w.Members[ci])}
			own = true
			who = "own-node"
		case k == 5 && n > 1:
			signer = []world.SignerSpec{world.G(w.Members[(ci+1)%n])}
			who = "other-node"
		case k == 6:
			signer = w.Alpha() // even 1-of-1 is another account than the node's own key
			who = "alphabet-multisig"
		default:
			signer = []world.SignerSpec{world.G(user)}
			who = "stranger"
		}
		pre := w.GASOf(c)
		preProxy := w.GASOf(proxy)
		preIR := make([]*big.Int, len(irAcc))
		for i := range irAcc {
			preIR[i] = w.GASOf(irAcc[i])
		}
		tr := w.Invoke(signer, c, "emit")
		b.Tx(1)
		det := func() any {
			return map[string]any{"tx": w.RenderResult(tr, true), "inner_ring": irSize, "pre_balance": pre.String()}
		}
		if !own {
			if tr.Halted() || len(gasMoves(w, tr, w.GAS)) > 0 {
				b.Violation(fmt.Sprintf("emit by %s (not the contract's own Alphabet node) was not refused", who), det())
			}
			b.Hit("emit-refused:" + who)
			b.Eval("emit|"+who+"|"+tr.State, true)
			continue
		}
		// g = balance after the NEO self-transfer claim: pre-balance + GAS minted to the contract in this tx
		g := new(big.Int).Set(pre)
		var out []gasMove
		for _, mv := range gasMoves(w, tr, w.GAS) {
			if !mv.toNull && mv.to == c {
				g.Add(g, mv.amount)
				if !mv.fromNull {
					b.Violation("GAS reached the Alphabet contract from an account during emit", det())
				}
			}
			if !mv.fromNull && mv.from == c {
				out = append(out, mv)
			}
		}
		if !tr.Halted() {
			// the only legitimate refusal: nothing to emit (floor(g/2) = 0 with g computed from the pre-balance and any claim)
			claim := new(big.Int)
			if pre.Cmp(big.NewInt(2)) >= 0 {
				b.Violation(fmt.Sprintf("emit by the contract's own node failed with %s GAS on the contract: %s", pre, tr.Fault), det())
			}
			_ = claim
			b.Hit("emit-nothing-to-emit")
			b.Eval(fmt.Sprintf("emit|own|g%s|fault", sizeClass(pre)), true)
			continue
		}
		toProxy := new(big.Int).Rsh(g, 1)
		rest := new(big.Int).Sub(g, toProxy)
		per := new(big.Int).Mul(rest, big.NewInt(7))
		per.Div(per, big.NewInt(8))
		per.Div(per, big.NewInt(int64(irSize)))
		// expected outgoing multiset
		want := map[string]int{fmt.Sprintf("%s:%s", proxy.StringLE(), toProxy): 1}
		if per.Sign() > 0 {
			for _, a := range irAcc {
				want[fmt.Sprintf("%s:%s", a.StringLE(), per)]++
			}
		}
		got := map[string]int{}
		for _, mv := range out {
			got[fmt.Sprintf("%s:%s", mv.to.StringLE(), mv.amount)]++
		}
		same := len(got) == len(want)
		for k, v := range want {
			if got[k] != v {
				same = false
			}
		}
		if !same {
			b.Violation(fmt.Sprintf("emit with g = %s and %d Inner Ring nodes: transfers %v, expected floor(g/2) = %s to Proxy and %s to each node", g, irSize, got, toProxy, per), det())
		}
		// balances: Proxy, every node, the remainder; nothing created or lost
		if d := new(big.Int).Sub(w.GASOf(proxy), preProxy); d.Cmp(toProxy) != 0 {
			b.Violation(fmt.Sprintf("Proxy received %s, expected %s", d, toProxy), det())
		}
		sum := new(big.Int).Set(toProxy)
		for i := range irAcc {
			d := new(big.Int).Sub(w.GASOf(irAcc[i]), preIR[i])
			if d.Cmp(per) != 0 {
				b.Violation(fmt.Sprintf("Inner Ring node %d received %s, expected %s", i, d, per), det())
			}
			sum.Add(sum, d)
		}
		left := w.GASOf(c)
		if new(big.Int).Add(sum, left).Cmp(g) != 0 {
			b.Violation(fmt.Sprintf("GAS not conserved by emit: distributed %s + kept %s != g %s", sum, left, g), det())
		}
		b.Hit(fmt.Sprintf("emit-ok:ir%d", irSize))
		if g.Cmp(big.NewInt(3)) <= 0 {
			b.Hit("emit-ok:g<=3")
		}
		if g.Cmp(pre) > 0 {
			b.Hit("emit-with-neo-claim")
		}
		b.Eval(fmt.Sprintf("emit|own|g%s|ir%d|per%s", sizeClass(g), irSize, sizeClass(per)), true)
		b.State(fmt.Sprintf("g%s ir%d", sizeClass(g), irSize))
	}
	if idx < 2 {
		h := b.HistoryFn()
		if len(h) > 4 {
			h = h[len(h)-4:]
		}
		b.Sample(map[string]any{"committee": n, "inner_ring": irSize, "tail_of_history": h})
	}
}

func sizeClass(v *big.Int) string {
	if v.IsInt64() && v.Int64() <= 20 {
		return v.String()
	}
	return fmt.Sprintf("2^%d", v.BitLen())
}

func c19Batches(tier string) int {
	if tier == "thorough" {
		return 1024 + 128
	}
	return 96 + 32
}

func runC19(b *runner.Batch) {
	money := 96
	if b.Thorough() {
		money = 1024
	}
	if b.Index < money {
		runMoney(b, b.Index)
		return
	}
	runEmit(b, b.Index-money)
}

func init() {
	runner.Register(&runner.Check{
		ID: "C19", Level: "exploration",
		Rule:        "Money part: NeoFS contract in both Notary modes with 1/3/4/7 stored Alphabet keys on committees of 1/4/7, fee settings {0,1,10^7} changed in between; PRNG sequences of deposits (amounts {0,1,10^8,9000*10^8-1,9000*10^8,9000*10^8+1,10^13,...} x data {nil, empty, 19, 20, 21 bytes, ignore marker}), withdraw requests (own / foreign witness, amounts 0..9001, -1), cheques (authorised or not, amounts around the contract balance), candidate add/remove, NEO / foreign NEP-17 token / direct callback calls; after every transaction the contract's GAS balance must equal both the model (received - cheques) and the sum of native GAS Transfer notifications seen. Emit part: Alphabet contracts on committees of 1/3/4/7, Inner Ring sizes 1..7, contract balances {0,1,2,3,15,16,17,10^6,10^6+3,10^12}, NEO holdings with claims, callers {own node, other node, Alphabet multisig, stranger}; the outgoing transfer multiset and all balance deltas are compared with floor(g/2) / floor((g-floor(g/2))*7/8/N). distinct = (operation, amount/data/fee/mode class, outcome). With two or more stored keys one authorised cheque in four is paid to a helper contract that asks for the same cheque again (same id) from inside its payment callback, while another ballot is pending.",
		Assumptions: []string{"neo-go v0.107.0 VM, ledger and native contracts (GAS, NEO) are the trusted base", "contracts are compiled at check time from /repo/contracts"},
		Batches:     c19Batches, Helpers: []string{"token", "reenter"}, Chunk: 4,
		Floors: []string{"emit-right-after-inner-ring-rotation", "emit-with-committee-larger-than-the-validator-set", "withdraw-by-a-user-who-cannot-pay-every-receiver", "token-acceptance-null-sender:alphabet", "refused-neofs:foreign-mint", "deposit-accepted:len20-marker-prefix", "deposit-accepted:nil", "deposit-accepted:len0", "deposit-accepted:len20", "deposit-refused:amount", "deposit-refused:data-length", "deposit-ignored-by-marker", "withdraw-ok:notary=true", "withdraw-ok:notary=false", "withdraw-refused",
			"cheque-paid", "cheque-refused", "candidate-added", "candidate-removed", "fee-setting-changed", "refused-neofs:neo", "refused-neofs:foreign-token", "refused-neofs:direct-call", "refused-processing:neo", "refused-processing:foreign-token",
			"emit-ok:ir1", "emit-ok:ir2", "emit-ok:ir3", "emit-ok:ir4", "emit-ok:ir5", "emit-ok:ir6", "emit-ok:ir7", "emit-ok:g<=3", "emit-nothing-to-emit", "emit-with-neo-claim", "emit-refused:stranger", "emit-refused:other-node", "emit-refused:contract-index-beyond-the-committee", "token-acceptance:alphabet", "token-acceptance:proxy"},
		Run: runC19,
	})
}
