package gov

import (
	"bytes"
	"fmt"
	"github.com/nspcc-dev/neo-go/pkg/core/transaction"
	"math/big"

	"github.com/nspcc-dev/neo-go/pkg/crypto/keys"
	"github.com/nspcc-dev/neo-go/pkg/neotest"
	"github.com/nspcc-dev/neo-go/pkg/util"
	"github.com/nspcc-dev/neo-go/pkg/vm/stackitem"

	"verif/harness/runner"
	"verif/harness/world"
)

const gasUnit = int64(1_0000_0000)

type menv struct {
	b          *runner.Batch
	w          *world.World
	nfs, proc  util.Uint160
	notary     bool
	alphabet   []*keys.PrivateKey // keys stored in the NeoFS contract
	users      []neotest.Signer
	cfg        map[string]int64
	expBalance *big.Int // model: received - paid
	logBalance *big.Int // rebuilt from native GAS Transfer notifications
	cands      map[string]bool
	seq        int
	token      util.Uint160
	reenterH   util.Uint160 // the helper contract that asks for its cheque again from inside the payment callback
}

type gasMove struct {
	from, to util.Uint160
	fromNull bool
	toNull   bool
	amount   *big.Int
}

func gasMoves(w *world.World, r *world.TxResult, token util.Uint160) []gasMove {
	var res []gasMove
	for _, ev := range r.Events {
		if ev.Contract != token || ev.Name != "Transfer" || len(ev.Items) != 3 {
			continue
		}
		m := gasMove{amount: world.Int(ev.Items[2])}
		if fb := world.Bytes(ev.Items[0]); len(fb) == 20 {
			m.from, _ = util.Uint160DecodeBytesBE(fb)
		} else {
			m.fromNull = true
		}
		if tb := world.Bytes(ev.Items[1]); len(tb) == 20 {
			m.to, _ = util.Uint160DecodeBytesBE(tb)
		} else {
			m.toNull = true
		}
		res = append(res, m)
	}
	return res
}

func (m *menv) detail(r *world.TxResult) any { return m.w.RenderResult(r, true) }

// account applies the native GAS transfers of a HALTed transaction to the log-rebuilt balance and
// checks the ledger identity.
func (m *menv) account(r *world.TxResult, what string, mayPayOut *big.Int) {
	b := m.b
	if r.Halted() {
		for _, mv := range gasMoves(m.w, r, m.w.GAS) {
			if !mv.toNull && mv.to == m.nfs {
				m.logBalance.Add(m.logBalance, mv.amount)
			}
			if !mv.fromNull && mv.from == m.nfs {
				m.logBalance.Sub(m.logBalance, mv.amount)
				if mayPayOut == nil || mv.amount.Cmp(mayPayOut) != 0 {
					b.Violation(fmt.Sprintf("GAS left the NeoFS contract (%s) in %s, which is not an approved cheque of that amount", mv.amount, what), m.detail(r))
				}
			}
		}
	}
	have := m.w.GASOf(m.nfs)
	if have.Cmp(m.logBalance) != 0 {
		b.Violation(fmt.Sprintf("GAS balance of the NeoFS contract is %s, transfers seen in the log add up to %s", have, m.logBalance), m.detail(r))
		m.logBalance = new(big.Int).Set(have)
	}
	if have.Cmp(m.expBalance) != 0 {
		b.Violation(fmt.Sprintf("GAS balance of the NeoFS contract is %s, received minus paid cheques is %s (after %s)", have, m.expBalance, what), m.detail(r))
		m.expBalance = new(big.Int).Set(have)
	}
	b.State(fmt.Sprintf("bal-bits%d cands%d", have.BitLen(), len(m.cands)))
}

func (m *menv) events(r *world.TxResult, name string) []world.Event {
	var res []world.Event
	for _, e := range r.Events {
		if e.Contract == m.nfs && e.Name == name {
			res = append(res, e)
		}
	}
	return res
}

func (m *menv) deposit(user neotest.Signer, amount int64, data any, dclass string) {
	b := m.b
	from := user.ScriptHash()
	if m.w.GASOf(from).Cmp(big.NewInt(amount+gasUnit)) < 0 && amount > 0 {
		m.w.FundGAS(from, amount+10*gasUnit)
	}
	before := m.w.GASOf(from)
	r := m.w.Invoke([]world.SignerSpec{world.G(user)}, m.w.GAS, "transfer", from, m.nfs, amount, data)
	b.Tx(1)
	ignore := dclass == "ignore-marker"
	lenOK := dclass == "nil" || dclass == "len0" || dclass == "len20" || dclass == "len20-marker-prefix"
	exp := ignore && amount >= 0 || (amount > 0 && amount <= 9000*gasUnit && lenOK)
	if exp != r.Halted() {
		b.Violation(fmt.Sprintf("deposit of %d with data %s: expected accepted=%v, got %s %s", amount, dclass, exp, r.State, r.Fault), m.detail(r))
	}
	deps := m.events(r, "Deposit")
	if r.Halted() {
		if len(r.Stack) != 1 || !world.Bool(r.Stack[0]) {
			b.Violation("GAS transfer to the NeoFS contract returned false", m.detail(r))
		} else {
			m.expBalance.Add(m.expBalance, big.NewInt(amount))
		}
		switch {
		case ignore:
			if len(deps) != 0 {
				b.Violation("transfer with the ignore marker was reported as a Deposit", m.detail(r))
			}
			b.Hit("deposit-ignored-by-marker")
		default:
			rcv := from.BytesBE()
			if d, ok := data.([]byte); ok && len(d) == 20 {
				rcv = d
			}
			if len(deps) != 1 || len(deps[0].Items) != 4 || !bytes.Equal(world.Bytes(deps[0].Items[0]), from.BytesBE()) || world.Int64(deps[0].Items[1]) != amount || !bytes.Equal(world.Bytes(deps[0].Items[2]), rcv) || !bytes.Equal(world.Bytes(deps[0].Items[3]), r.Hash.BytesBE()) {
				b.Violation(fmt.Sprintf("accepted deposit must emit exactly one Deposit(from, %d, receiver, tx hash); got %d", amount, len(deps)), m.detail(r))
			}
			b.Hit("deposit-accepted:" + dclass)
		}
	} else {
		// nothing moved (fees are paid by the neutral payer)
		if spent := new(big.Int).Sub(before, m.w.GASOf(from)); spent.Sign() != 0 {
			b.Violation(fmt.Sprintf("a refused deposit still moved %s GAS of the sender", spent), m.detail(r))
		}
		why := "amount"
		if !lenOK && !ignore {
			why = "data-length"
		}
		b.Hit("deposit-refused:" + why)
	}
	m.account(r, "deposit", nil)
	b.Eval(fmt.Sprintf("deposit|%s|%s|%s", amountClass(amount), dclass, r.State), true)
}

func amountClass(a int64) string {
	switch {
	case a < 0:
		return "neg"
	case a == 0:
		return "0"
	case a == 1:
		return "1"
	case a < 9000*gasUnit-1:
		return "mid"
	case a == 9000*gasUnit-1:
		return "max-1"
	case a == 9000*gasUnit:
		return "max"
	case a == 9000*gasUnit+1:
		return "max+1"
	}
	return "huge"
}

func (m *menv) withdraw(user neotest.Signer, signer neotest.Signer, amount int64) {
	b := m.b
	u := user.ScriptHash()
	fee := m.cfg["WithdrawFee"]
	receivers := []util.Uint160{m.proc}
	if !m.notary {
		receivers = nil
		for _, k := range m.alphabet {
			receivers = append(receivers, world.Hash160Of(k))
		}
	}
	// can the user pay every receiver? (fees of the transaction itself are paid by the neutral payer)
	solvent := m.w.GASOf(u).Cmp(big.NewInt(fee*int64(len(receivers)))) >= 0
	r := m.w.Invoke([]world.SignerSpec{world.G(signer)}, m.nfs, "withdraw", u, amount)
	b.Tx(1)
	witnessed := signer.ScriptHash() == u
	exp := witnessed && amount >= 0 && amount <= 9000 && solvent
	if witnessed && amount >= 0 && amount <= 9000 && !solvent {
		b.Hit("withdraw-by-a-user-who-cannot-pay-every-receiver")
	}
	if exp != r.Halted() {
		b.Violation(fmt.Sprintf("withdraw(%d) witnessed=%v: expected success=%v, got %s %s", amount, witnessed, exp, r.State, r.Fault), m.detail(r))
	}
	if r.Halted() {
		// fee transfers: exactly one of `fee` to each receiver, from the user
		got := map[util.Uint160][]*big.Int{}
		for _, mv := range gasMoves(m.w, r, m.w.GAS) {
			if !mv.fromNull && mv.from == u && !mv.toNull {
				got[mv.to] = append(got[mv.to], mv.amount)
			}
		}
		ok := len(got) == len(receivers) || fee == 0
		for _, rc := range receivers {
			if len(got[rc]) != 1 || got[rc][0].Cmp(big.NewInt(fee)) != 0 {
				ok = false
			}
		}
		if !ok {
			b.Violation(fmt.Sprintf("withdraw must pay the fee %d exactly once to each of %d receivers (notary mode: %v); transfers from the user: %v", fee, len(receivers), m.notary, got), m.detail(r))
		}
		evs := m.events(r, "Withdraw")
		if len(evs) != 1 || len(evs[0].Items) != 3 || !bytes.Equal(world.Bytes(evs[0].Items[0]), u.BytesBE()) || world.Int(evs[0].Items[1]).Cmp(new(big.Int).Mul(big.NewInt(amount), big.NewInt(gasUnit))) != 0 || !bytes.Equal(world.Bytes(evs[0].Items[2]), r.Hash.BytesBE()) {
			b.Violation(fmt.Sprintf("withdraw must emit one Withdraw(user, %d*10^8, tx hash)", amount), m.detail(r))
		}
		b.Hit(fmt.Sprintf("withdraw-ok:notary=%v", m.notary))
	} else {
		if len(gasMoves(m.w, r, m.w.GAS)) > 0 {
			b.Violation("failed withdraw moved GAS", m.detail(r))
		}
		b.Hit("withdraw-refused")
	}
	m.account(r, "withdraw", nil)
	b.Eval(fmt.Sprintf("withdraw|%d|wit%v|fee%d|notary%v|%s", min(amount, 9002), witnessed, fee, m.notary, r.State), true)
}

// cheque approved by the Alphabet (notary mode: chain Alphabet multisig; otherwise every stored key votes).
func (m *menv) cheque(payee util.Uint160, amount int64, authorised bool) {
	b := m.b
	m.seq++
	id := []byte(fmt.Sprintf("cheque-%d", m.seq))
	// now and then the payee is a contract that, while it is being paid, asks for the very same cheque again (same id,
	// same amount): the decision was taken once and pays once (seeded change C19-11: the ballot dropped only after the
	// payout). With one stored key every call is a decision of its own, so at least two keys.
	reenter := false
	if authorised && !m.notary && len(m.alphabet) >= 2 && amount > 0 && b.Rng.IntN(4) == 0 {
		if m.reenterH == (util.Uint160{}) && b.Helpers["reenter"] != nil {
			if d, err := m.w.Deploy("reenter", b.Helpers["reenter"], nil); err == nil {
				m.reenterH = d.Hash
			}
		}
		if m.reenterH != (util.Uint160{}) {
			ar := m.w.Invoke([]world.SignerSpec{world.G(m.users[0])}, m.reenterH, "arm", m.nfs, id, amount)
			b.Tx(1)
			if ar.Halted() {
				payee, reenter = m.reenterH, true
				b.Hit("cheque-payee-asks-for-the-same-cheque-again-while-being-paid")
			}
		}
	}
	before := m.w.GASOf(payee)
	bal := m.w.GASOf(m.nfs)
	var last *world.TxResult
	if m.notary {
		s := m.w.Alpha()
		if !authorised {
			s = []world.SignerSpec{world.G(m.users[0])}
			// or a part of the committee that is not the Alphabet's 2/3+1: the plain majority where the two differ, a
			// single member of several, the Alphabet's multi-signature with a scope that does not reach the call (seeded
			// change C19-12: the rule of the paying contracts' verify method used for the cheque)
			switch k := b.Rng.IntN(4); {
			case k == 0 && m.w.Majority.ScriptHash() != m.w.Alphabet.ScriptHash():
				s = m.w.Major()
				b.Hit("cheque-signed-by-the-committee-majority-only")
			case k == 1 && m.w.Members[0].ScriptHash() != m.w.Alphabet.ScriptHash():
				s = []world.SignerSpec{world.G(m.w.Members[0])}
			case k == 2:
				s = []world.SignerSpec{world.Scoped(m.w.Alphabet, transaction.None)}
			}
		}
		last = m.w.Invoke(s, m.nfs, "cheque", id, payee, amount, []byte{9})
		b.Tx(1)
	} else {
		th := len(m.alphabet)*2/3 + 1
		if !authorised {
			last = m.w.Invoke([]world.SignerSpec{world.G(m.users[0])}, m.nfs, "cheque", id, payee, amount, []byte{9})
			b.Tx(1)
		} else {
			// an unrelated decision may be pending while the cheque is voted (the ballot list is shared)
			if len(m.alphabet) >= 2 && (reenter || b.Rng.IntN(2) == 0) {
				m.seq++
				ur := m.w.Invoke([]world.SignerSpec{world.G(world.Single(m.alphabet[b.Rng.IntN(len(m.alphabet))]))}, m.nfs, "setConfig", []byte(fmt.Sprintf("unrelated-%d", m.seq)), []byte("Unrelated"), []byte{1})
				b.Tx(1)
				m.account(ur, "unrelated pending vote", nil)
				b.Hit("cheque-voted-while-another-ballot-is-pending")
			}
			for i := 0; i < th; i++ {
				last = m.w.Invoke([]world.SignerSpec{world.G(world.Single(m.alphabet[i]))}, m.nfs, "cheque", id, payee, amount, []byte{9})
				b.Tx(1)
				if i < th-1 {
					m.account(last, "cheque vote below the threshold", nil)
				}
			}
			defer func() {
				// the remaining Alphabet nodes vote late for the decision that was already taken: nothing may be paid again
				if !last.Halted() {
					return
				}
				pb := m.w.GASOf(payee)
				for i := th; i < len(m.alphabet); i++ {
					lt := m.w.Invoke([]world.SignerSpec{world.G(world.Single(m.alphabet[i]))}, m.nfs, "cheque", id, payee, amount, []byte{9})
					b.Tx(1)
					if len(m.events(lt, "Cheque")) > 0 || m.w.GASOf(payee).Cmp(pb) != 0 {
						b.Violation(fmt.Sprintf("a late vote for the already approved cheque of %d paid it again", amount), m.detail(lt))
					}
					m.account(lt, "late cheque vote", nil)
					b.Hit("late-cheque-vote")
				}
			}()
		}
	}
	covered := bal.Cmp(big.NewInt(amount)) >= 0 && amount >= 0
	exp := authorised && covered
	if exp != last.Halted() {
		b.Violation(fmt.Sprintf("cheque of %d (authorised=%v, contract holds %s): got %s %s", amount, authorised, bal, last.State, last.Fault), m.detail(last))
	}
	var pay *big.Int
	if last.Halted() {
		pay = big.NewInt(amount)
		m.expBalance.Sub(m.expBalance, pay)
		d := new(big.Int).Sub(m.w.GASOf(payee), before)
		evs := m.events(last, "Cheque")
		if d.Cmp(pay) != 0 || len(evs) != 1 {
			b.Violation(fmt.Sprintf("approved cheque of %d: payee received %s, %d Cheque notifications", amount, d, len(evs)), m.detail(last))
		}
		b.Hit("cheque-paid")
	} else {
		b.Hit("cheque-refused")
	}
	m.account(last, "cheque", pay)
	b.Eval(fmt.Sprintf("cheque|auth%v|covered%v|notary%v|%s", authorised, covered, m.notary, last.State), true)
}

func (m *menv) candidateAdd(k *keys.PrivateKey, witnessed bool) {
	b := m.b
	pb := k.PublicKey().Bytes()
	acc := world.Hash160Of(k)
	fee := m.cfg["InnerRingCandidateFee"]
	signer := world.Single(k)
	if !witnessed {
		signer = m.users[1]
	}
	before := m.w.GASOf(acc)
	r := m.w.Invoke([]world.SignerSpec{world.G(signer)}, m.nfs, "innerRingCandidateAdd", pb)
	b.Tx(1)
	exp := witnessed && !m.cands[string(pb)] && before.Cmp(big.NewInt(fee)) >= 0
	if exp != r.Halted() {
		b.Violation(fmt.Sprintf("innerRingCandidateAdd (witnessed=%v, listed=%v, fee %d, balance %s): got %s %s", witnessed, m.cands[string(pb)], fee, before, r.State, r.Fault), m.detail(r))
	}
	if r.Halted() {
		m.cands[string(pb)] = true
		m.expBalance.Add(m.expBalance, big.NewInt(fee))
		var toC []*big.Int
		for _, mv := range gasMoves(m.w, r, m.w.GAS) {
			if !mv.toNull && mv.to == m.nfs {
				toC = append(toC, mv.amount)
				if mv.fromNull || mv.from != acc {
					b.Violation("candidate fee was not paid from the candidate's account", m.detail(r))
				}
			}
		}
		if len(toC) != 1 || toC[0].Cmp(big.NewInt(fee)) != 0 {
			b.Violation(fmt.Sprintf("candidate registration must move exactly the fee %d to the contract once; got %v", fee, toC), m.detail(r))
		}
		if len(m.events(r, "Deposit")) != 0 {
			b.Violation("candidate fee was reported as a Deposit", m.detail(r))
		}
		b.Hit("candidate-added")
	} else if len(gasMoves(m.w, r, m.w.GAS)) > 0 {
		b.Violation("failed candidate registration moved GAS", m.detail(r))
	}
	m.account(r, "innerRingCandidateAdd", nil)
	b.Eval(fmt.Sprintf("candAdd|wit%v|fee%d|%s", witnessed, fee, r.State), true)
}

func (m *menv) candidateRemove(k *keys.PrivateKey) {
	pb := k.PublicKey().Bytes()
	r := m.w.Invoke([]world.SignerSpec{world.G(world.Single(k))}, m.nfs, "innerRingCandidateRemove", pb)
	m.b.Tx(1)
	if r.Halted() {
		delete(m.cands, string(pb))
		m.b.Hit("candidate-removed")
	}
	m.account(r, "innerRingCandidateRemove (no refund)", nil)
	m.b.Eval("candRemove|"+r.State, true)
}

func (m *menv) setFee(key string, v int64) {
	var r *world.TxResult
	val := []byte{0}
	if v != 0 {
		val, _ = stackitem.Make(v).TryBytes()
	}
	m.seq++
	id := []byte(fmt.Sprintf("cfg-%d", m.seq))
	if m.notary {
		r = m.w.Invoke(m.w.Alpha(), m.nfs, "setConfig", id, []byte(key), val)
		m.b.Tx(1)
	} else {
		th := len(m.alphabet)*2/3 + 1
		for i := 0; i < th; i++ {
			r = m.w.Invoke([]world.SignerSpec{world.G(world.Single(m.alphabet[i]))}, m.nfs, "setConfig", id, []byte(key), val)
			m.b.Tx(1)
		}
	}
	if r.Halted() && len(m.events(r, "SetConfig")) == 1 {
		m.cfg[key] = v
		m.b.Hit("fee-setting-changed")
	} else {
		m.b.Inconclusive("setConfig failed: " + r.Fault)
	}
}

func runMoney(b *runner.Batch, idx int) {
	n := []int{1, 4, 7}[idx%3]
	notary := (idx/3)%2 == 0
	w, err := world.New(world.Options{N: n, Seed: b.Seed, Batch: b.Index})
	if err != nil {
		b.Inconclusive("world: " + err.Error())
		return
	}
	defer w.Close()
	m := &menv{b: b, w: w, notary: notary, cfg: map[string]int64{}, expBalance: big.NewInt(0), logBalance: big.NewInt(0), cands: map[string]bool{}}
	na := []int{1, 3, 4, 7}[(idx/6)%4]
	var arg []any
	for i := 0; i < na; i++ {
		k := world.Key(b.Seed, b.Index, "mainalpha", i)
		m.alphabet = append(m.alphabet, k)
		arg = append(arg, k.PublicKey().Bytes())
		w.FundGAS(world.Hash160Of(k), 50*gasUnit)
	}
	fees := []int64{0, 1, 1000_0000}
	m.cfg["WithdrawFee"] = fees[idx%3]
	m.cfg["InnerRingCandidateFee"] = fees[(idx/3)%3]
	// Processing needs the NeoFS address and vice versa: deploy NeoFS with a placeholder first? The NeoFS contract
	// only stores the Processing address; deploy Processing after computing nothing: use a two-step with update-free trick:
	// deploy Processing pointing to a dummy, it is only a GAS receiver here.
	pd, err := w.Deploy("processing", b.Set["processing"], []any{util.Uint160{1}})
	if err != nil {
		b.Inconclusive("deploy processing: " + err.Error())
		return
	}
	m.proc = pd.Hash
	d, err := w.Deploy("neofs", b.Set["neofs"], []any{!notary, m.proc, arg, []any{[]byte("InnerRingCandidateFee"), m.cfg["InnerRingCandidateFee"], []byte("WithdrawFee"), m.cfg["WithdrawFee"]}})
	if err != nil {
		b.Inconclusive("deploy neofs: " + err.Error())
		return
	}
	m.nfs = d.Hash
	for i := 0; i < 3; i++ {
		u := world.Single(world.Key(b.Seed, b.Index, "mainuser", i))
		m.users = append(m.users, u)
		w.FundGAS(u.ScriptHash(), 200000*gasUnit)
	}
	b.HistoryFn = func() []any {
		var res []any
		h := w.History
		if len(h) > 40 {
			h = h[len(h)-40:]
		}
		for _, r := range h {
			res = append(res, w.RenderResult(r, true))
		}
		return res
	}
	r := b.Rng
	payee := world.Hash160Of(world.Key(b.Seed, b.Index, "payee", 0))
	dataPool := []struct {
		class string
		v     any
	}{{"nil", nil}, {"len0", []byte{}}, {"len19", make([]byte, 19)}, {"len20", payee.BytesBE()}, {"len21", make([]byte, 21)}, {"ignore-marker", []byte{0x57, 0x0b}},
		// data that merely begins like the internal marker: a receiver address, and other lengths (seeded change C19-5)
		{"len20-marker-prefix", append([]byte{0x57, 0x0b}, payee.BytesBE()[2:]...)}, {"len3-marker-prefix", []byte{0x57, 0x0b, 0x00}}, {"len1-marker-start", []byte{0x57}}, {"len33-marker-prefix", append([]byte{0x57, 0x0b}, make([]byte, 31)...)}}
	amounts := []int64{0, 1, gasUnit, 9000*gasUnit - 1, 9000 * gasUnit, 9000*gasUnit + 1, 100000 * gasUnit, 12345}
	// canonical
	m.deposit(m.users[0], 100*gasUnit, nil, "nil")
	m.deposit(m.users[0], 50*gasUnit, payee.BytesBE(), "len20")
	m.deposit(m.users[0], 0, nil, "nil")
	m.deposit(m.users[0], 9000*gasUnit+1, nil, "nil")
	m.deposit(m.users[0], gasUnit, make([]byte, 21), "len21")
	m.deposit(m.users[0], gasUnit, []byte{0x57, 0x0b}, "ignore-marker")
	m.deposit(m.users[0], 3*gasUnit, dataPool[6].v, dataPool[6].class)
	m.deposit(m.users[0], 3*gasUnit, dataPool[7].v, dataPool[7].class)
	m.withdraw(m.users[0], m.users[0], 10)
	m.withdraw(m.users[0], m.users[1], 10)
	m.cheque(payee, 7*gasUnit, true)
	m.cheque(payee, 7*gasUnit, false)
	ck := world.Key(b.Seed, b.Index, "cand", 0)
	w.FundGAS(world.Hash160Of(ck), 10*gasUnit)
	m.candidateAdd(ck, true)
	m.candidateAdd(ck, true) // already listed
	m.candidateRemove(ck)
	// other tokens and direct calls
	m.foreign(b)

	nops := 80
	if b.Thorough() {
		nops = 200
	}
	for i := 0; i < nops && b.NViolations() == 0; i++ {
		switch k := r.IntN(20); {
		case k < 8:
			d := runner.Pick(r, dataPool)
			m.deposit(runner.Pick(r, m.users), runner.Pick(r, amounts), d.v, d.class)
		case k < 12:
			u := runner.Pick(r, m.users)
			s := u
			if r.IntN(5) == 0 {
				s = runner.Pick(r, m.users)
			}
			m.withdraw(u, s, runner.Pick(r, []int64{0, 1, 10, 8999, 9000, 9001, -1}))
			if r.IntN(4) == 0 {
				// a user holding k fees and a bit, k below the number of receivers: all or nothing (seeded change C19-7)
				m.seq++
				poor := world.Single(world.Key(b.Seed, b.Index, "poor", m.seq))
				n := int64(1)
				if !m.notary {
					n = int64(len(m.alphabet))
				}
				k := r.Int64N(n + 1)
				if fee := m.cfg["WithdrawFee"]; fee > 0 {
					m.w.FundGAS(poor.ScriptHash(), fee*k+fee/2)
					m.withdraw(poor, poor, 5)
				}
			}
		case k < 16:
			bal := m.w.GASOf(m.nfs).Int64()
			a := runner.Pick(r, []int64{1, bal / 2, bal, bal + 1, 12345})
			m.cheque(payee, a, r.IntN(6) != 0)
		case k < 18:
			ck := world.Key(b.Seed, b.Index, "cand", r.IntN(3))
			if r.IntN(3) == 0 && m.cands[string(ck.PublicKey().Bytes())] {
				m.candidateRemove(ck)
			} else {
				if r.IntN(4) != 0 {
					w.FundGAS(world.Hash160Of(ck), m.cfg["InnerRingCandidateFee"]+gasUnit)
				}
				m.candidateAdd(ck, r.IntN(6) != 0)
			}
		default:
			m.setFee(runner.Pick(r, []string{"WithdrawFee", "InnerRingCandidateFee"}), runner.Pick(r, fees))
		}
	}
	if idx < 2 {
		h := b.HistoryFn()
		if len(h) > 6 {
			h = h[len(h)-6:]
		}
		b.Sample(map[string]any{"committee": n, "notary_mode": notary, "stored_alphabet_keys": na, "tail_of_history": h})
	}
}

// foreign: NEO, a foreign NEP-17 token and direct callback calls towards the NeoFS contract and Processing.
func (m *menv) foreign(b *runner.Batch) {
	w := m.w
	if m.token == (util.Uint160{}) {
		d, err := w.Deploy("token", b.Helpers["token"], nil)
		if err != nil {
			b.Inconclusive("deploy token: " + err.Error())
			return
		}
		m.token = d.Hash
	}
	u := m.users[2]
	if err := w.FundNEO(u.ScriptHash(), 50); err != nil {
		b.Inconclusive(err.Error())
		return
	}
	for _, target := range []struct {
		name string
		h    util.Uint160
	}{{"neofs", m.nfs}, {"processing", m.proc}} {
		r := w.Invoke([]world.SignerSpec{world.G(u)}, w.NEO, "transfer", u.ScriptHash(), target.h, int64(1), nil)
		r2 := w.Invoke([]world.SignerSpec{world.G(u)}, m.token, "transfer", u.ScriptHash(), target.h, int64(5), nil)
		r3 := w.Invoke([]world.SignerSpec{world.G(u)}, target.h, "onNEP17Payment", u.ScriptHash(), int64(5), nil)
		// the same with a Null sender: what a token announces when it mints (seeded change C19-6)
		r4 := w.Invoke([]world.SignerSpec{world.G(u)}, m.token, "transfer", nil, target.h, int64(5), nil)
		r5 := w.Invoke([]world.SignerSpec{world.G(u)}, target.h, "onNEP17Payment", nil, int64(5), nil)
		b.Tx(5)
		for i, r := range []*world.TxResult{r, r2, r3, r4, r5} {
			what := []string{"NEO transfer", "foreign NEP-17 token transfer", "direct onNEP17Payment call", "foreign NEP-17 token mint (Null sender)", "direct onNEP17Payment call with a Null sender"}[i]
			if r.Halted() || len(m.events(r, "Deposit")) > 0 {
				b.Violation(fmt.Sprintf("%s to %s was accepted", what, target.name), m.detail(r))
			}
			b.Hit(fmt.Sprintf("refused-%s:%s", target.name, []string{"neo", "foreign-token", "direct-call", "foreign-mint", "direct-call-null-sender"}[i]))
			b.Eval(fmt.Sprintf("foreign|%s|%s|%s", target.name, what, r.State), true)
			m.account(r, what, nil)
		}
	}
	// GAS to Processing is accepted
	r := w.Invoke([]world.SignerSpec{world.G(u)}, w.GAS, "transfer", u.ScriptHash(), m.proc, int64(3), nil)
	b.Tx(1)
	if !r.Halted() {
		b.Violation("Processing refused GAS", m.detail(r))
	}
}
