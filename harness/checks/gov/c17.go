// Package gov holds the monitors of C17 (vote-collected actions of the main-chain
// NeoFS contract without Notary) and C19 (GAS accounting of the governance contracts).
package gov

import (
	"bytes"
	"crypto/sha256"
	"encoding/hex"
	"fmt"
	"math/big"
	"sort"

	"github.com/nspcc-dev/neo-go/pkg/crypto/keys"
	"github.com/nspcc-dev/neo-go/pkg/neotest"
	"github.com/nspcc-dev/neo-go/pkg/util"

	"verif/harness/runner"
	"verif/harness/world"
)

type ballot struct {
	voters map[string]bool
	last   int64
}

type venv struct {
	b        *runner.Batch
	w        *world.World
	nfs      util.Uint160
	nfsID    int32
	pool     []*keys.PrivateKey // key pool for Alphabet lists
	alphabet [][]byte           // current stored list (public keys)
	stranger neotest.Signer
	ballots  map[string]*ballot
	config   map[string][]byte
	cands    map[string]bool
	seq      int
	user     neotest.Signer
	// helper contract that re-enters cheque from its payment callback (zero if not deployed) and what it is armed with
	reenterH    util.Uint160
	armedID     string
	armedAmount int64
}

func newVenv(b *runner.Batch, n int) (*venv, error) {
	w, err := world.New(world.Options{N: 1, Seed: b.Seed, Batch: b.Index})
	if err != nil {
		return nil, err
	}
	v := &venv{b: b, w: w, ballots: map[string]*ballot{}, config: map[string][]byte{}, cands: map[string]bool{}}
	for i := 0; i < 7; i++ {
		v.pool = append(v.pool, world.Key(b.Seed, b.Index, "alpha", i))
	}
	sort.Slice(v.pool, func(i, j int) bool { return v.pool[i].PublicKey().Cmp(v.pool[j].PublicKey()) < 0 })
	var arg []any
	for i := 0; i < n; i++ {
		pb := v.pool[i].PublicKey().Bytes()
		v.alphabet = append(v.alphabet, pb)
		arg = append(arg, pb)
	}
	v.stranger = world.Single(world.Key(b.Seed, b.Index, "stranger", 0))
	v.user = world.Single(world.Key(b.Seed, b.Index, "user", 0))
	d, err := w.Deploy("neofs", b.Set["neofs"], []any{true, util.Uint160{7, 7, 7}, arg, []any{[]byte("InnerRingCandidateFee"), int64(100), []byte("WithdrawFee"), int64(10)}})
	if err != nil {
		return nil, err
	}
	v.nfs, v.nfsID = d.Hash, d.ID
	for _, k := range v.pool {
		if err := w.FundGAS(world.Hash160Of(k), 100_0000_0000); err != nil {
			return nil, err
		}
	}
	w.FundGAS(v.user.ScriptHash(), 100000_0000_0000)
	w.FundGAS(v.stranger.ScriptHash(), 100_0000_0000)
	if h := b.Helpers["reenter"]; h != nil {
		hd, err := w.Deploy("reenter", h, nil)
		if err != nil {
			return nil, err
		}
		v.reenterH = hd.Hash
	}
	w.KeepHistory = false
	return v, nil
}

func (v *venv) threshold() int { return len(v.alphabet)*2/3 + 1 }

func (v *venv) isAlpha(pub []byte) bool {
	for _, a := range v.alphabet {
		if bytes.Equal(a, pub) {
			return true
		}
	}
	return false
}

// vote steps the model: returns whether the decision fires now.
func (v *venv) vote(id string, voter []byte, height int64) bool {
	bl := v.ballots[id]
	if bl != nil && height-bl.last > 20 {
		delete(v.ballots, id)
		bl = nil
		v.b.Hit("stale-ballot-expired")
	}
	if bl == nil {
		bl = &ballot{voters: map[string]bool{}, last: height}
		v.ballots[id] = bl
	} else if bl != nil && height-bl.last == 20 && !bl.voters[hex.EncodeToString(voter)] {
		v.b.Hit("ballot-survives-gap-20")
	}
	k := hex.EncodeToString(voter)
	if !bl.voters[k] {
		bl.voters[k] = true
		bl.last = height
	} else {
		v.b.Hit("duplicate-vote")
	}
	if len(bl.voters) >= v.threshold() {
		delete(v.ballots, id)
		return true
	}
	return false
}

type call struct {
	method string
	args   []any
	voteID string
	signer neotest.Signer // nil = nobody
	pub    []byte         // caller's key if it is in the Alphabet list
	alpha  bool
	// effect check after firing
	// fired / quiet return "" or a complaint; readback=false (several calls in one block) restricts
	// them to what the transaction's own application log shows
	fired func(r *world.TxResult, readback bool) string
	quiet func(r *world.TxResult, readback bool) string
	// pre captures the state the effect is measured against, right before the block is executed
	pre  func()
	desc string
	// reenter: the payee is the armed helper contract, which asks for its armed cheque again from inside the
	// payment callback: one more vote by the same caller in the same transaction; extraPaid is what that
	// nested decision pays if it fires
	reenter   bool
	extraPaid int64
	extraN    int
}

func (v *venv) caller(i int) (neotest.Signer, []byte, bool) {
	if i < 0 {
		return v.stranger, nil, false
	}
	k := v.pool[i]
	pb := k.PublicKey().Bytes()
	return world.Single(k), pb, v.isAlpha(pb)
}

func (v *venv) eventsNamed(r *world.TxResult, name string) []world.Event {
	var res []world.Event
	for _, e := range r.Events {
		if e.Contract == v.nfs && e.Name == name {
			res = append(res, e)
		}
	}
	return res
}

// run executes calls of one block (in order) and judges each against the model.
func (v *venv) runBlock(cs []*call) {
	b := v.b
	ps := make([]*world.Pending, len(cs))
	for _, c := range cs {
		// membership is decided when the block is executed (an earlier decision may have replaced the list)
		c.alpha = c.pub != nil && v.isAlpha(c.pub)
		if c.pre != nil {
			c.pre()
		}
	}
	for i, c := range cs {
		var s []world.SignerSpec
		if c.signer != nil {
			s = []world.SignerSpec{world.G(c.signer)}
		}
		args := c.args
		if id, ok := args[0].([]byte); ok && (c.method == "setConfig" || c.method == "cheque" || c.method == "alphabetUpdate") && b.Rng.IntN(5) == 0 {
			// the id reaches the contract as a Buffer, as a value put together by the calling script does; the same bytes
			// are the same decision (seeded change C17-11: ids compared by EQUAL, which takes Buffers by reference)
			args = append([]any{world.Buf(id)}, args[1:]...)
			b.Hit("decision-id-passed-as-a-Buffer")
		}
		ps[i] = v.w.Prepare(s, v.nfs, c.method, args...)
	}
	rs := v.w.Block(ps...)
	b.Tx(len(rs))
	for i, c := range cs {
		r := rs[i]
		det := func() any {
			return map[string]any{"call": c.desc, "tx": v.w.RenderResult(r, true), "alphabet_size": len(v.alphabet), "threshold": v.threshold()}
		}
		if r.Rejected != "" {
			b.Inconclusive("block rejected: " + r.Rejected)
			return
		}
		height := int64(r.Block)
		single := len(cs) == 1
		if !c.alpha {
			// anybody else: rejected, never counts
			if r.Halted() {
				msg := c.quiet(r, single)
				switch {
				case msg != "":
					b.Violation(fmt.Sprintf("%s by a non-Alphabet caller took effect (%s)", c.method, msg), det())
				case single && !r.Diff.Empty():
					b.Violation(fmt.Sprintf("%s by a non-Alphabet caller was not rejected and changed storage (it was counted as a vote)", c.method), det())
				default:
					// a HALT without any trace; if it was counted, later firings disagree with the model
					b.Observe("non-Alphabet call HALTed without a visible effect")
				}
			}
			b.Hit("stranger-call")
			b.Eval(fmt.Sprintf("%s|stranger|n%d|%s", c.method, len(v.alphabet), r.State), true)
			continue
		}
		fires := v.vote(c.voteID, c.pub, height)
		c.extraPaid, c.extraN = 0, 0
		if fires && c.reenter && v.armedID != "" {
			// the callback's nested cheque call: a vote of the same caller for the armed id, in a round of its own
			id, amt := v.armedID, v.armedAmount
			v.armedID = ""
			if v.vote(id, c.pub, height) {
				c.extraPaid, c.extraN = amt, 1
			}
			b.Hit("cheque-receiver-re-enters")
		}
		if !r.Halted() {
			b.Violation(fmt.Sprintf("%s by an Alphabet key failed: %s", c.method, r.Fault), det())
			continue
		}
		if fires {
			if msg := c.fired(r, single); msg != "" {
				b.Violation(fmt.Sprintf("%s: the vote reaching %d of %d must fire here: %s", c.method, v.threshold(), len(v.alphabet), msg), det())
			}
			b.Hit(fmt.Sprintf("fired-at-threshold-n%d", len(v.alphabet)))
			b.Hit("fired:" + c.method)
		} else if msg := c.quiet(r, single); msg != "" {
			b.Violation(fmt.Sprintf("%s: decision took effect below the threshold or twice: %s", c.method, msg), det())
		}
		b.Eval(fmt.Sprintf("%s|alpha|n%d|fires%v|ballots%d", c.method, len(v.alphabet), fires, len(v.ballots)), true)
	}
	b.State(fmt.Sprintf("n%d ballots%d", len(v.alphabet), len(v.ballots)))
}

func (v *venv) gap(g int) {
	if g > 1 {
		v.w.EmptyBlocks(g - 1)
	}
}

// ---- the four voted methods

func (v *venv) setConfigCall(caller int, id string) *call {
	s, pub, alpha := v.caller(caller)
	key := []byte("k" + id)
	v.seq++
	val := []byte(fmt.Sprintf("v%d", v.seq))
	return &call{method: "setConfig", args: []any{[]byte(id), key, val}, voteID: id, signer: s, pub: pub, alpha: alpha, desc: fmt.Sprintf("setConfig(id %q) by caller %d", id, caller),
		fired: func(r *world.TxResult, readback bool) string {
			evs := v.eventsNamed(r, "SetConfig")
			if len(evs) != 1 || len(evs[0].Items) != 3 || !bytes.Equal(world.Bytes(evs[0].Items[1]), key) || !bytes.Equal(world.Bytes(evs[0].Items[2]), val) {
				return fmt.Sprintf("%d SetConfig notifications for this key/value", len(evs))
			}
			v.config[string(key)] = val
			if !readback {
				return ""
			}
			rd := v.w.Read(v.nfs, "config", key)
			if !rd.OK() || !bytes.Equal(world.Bytes(rd.Top()), val) {
				return fmt.Sprintf("config(%q) = %v after the decision", key, world.RenderItems(rd.Stack))
			}
			return ""
		},
		quiet: func(r *world.TxResult, readback bool) string {
			if len(v.eventsNamed(r, "SetConfig")) > 0 {
				return "SetConfig notification emitted"
			}
			if !readback {
				return ""
			}
			rd := v.w.Read(v.nfs, "config", key)
			want := v.config[string(key)]
			if !rd.OK() || !bytes.Equal(world.Bytes(rd.Top()), want) {
				return fmt.Sprintf("config(%q) = %v, expected %q", key, world.RenderItems(rd.Stack), want)
			}
			return ""
		}}
}

func (v *venv) chequeCall(caller int, id string, payee util.Uint160, amount int64) *call {
	s, pub, alpha := v.caller(caller)
	var before *big.Int
	var c *call
	c = &call{pre: func() { before = v.w.GASOf(payee) }, method: "cheque", args: []any{[]byte(id), payee, amount, []byte{1, 2}}, voteID: id, signer: s, pub: pub, alpha: alpha, desc: fmt.Sprintf("cheque(id %q, %d) by caller %d", id, amount, caller),
		reenter: payee == v.reenterH && v.reenterH != (util.Uint160{}),
		fired: func(r *world.TxResult, readback bool) string {
			evs := v.eventsNamed(r, "Cheque")
			d := new(big.Int).Sub(v.w.GASOf(payee), before)
			if len(evs) != 1+c.extraN || d.Cmp(big.NewInt(amount+c.extraPaid)) != 0 {
				return fmt.Sprintf("%d Cheque notifications, payee balance changed by %s (amount %d, nested decision pays %d)", len(evs), d, amount, c.extraPaid)
			}
			return ""
		},
		quiet: func(r *world.TxResult, readback bool) string {
			d := new(big.Int).Sub(v.w.GASOf(payee), before)
			if len(v.eventsNamed(r, "Cheque")) > 0 || d.Sign() != 0 {
				return fmt.Sprintf("Cheque notification or payment (%s) without a decision", d)
			}
			return ""
		}}
	return c
}

// arm lets the re-entering receiver ask for cheque(id, itself, amount) on its next payment from NeoFS.
func (v *venv) arm(id string, amount int64) {
	r := v.w.Invoke([]world.SignerSpec{world.G(v.user)}, v.reenterH, "arm", v.nfs, []byte(id), amount)
	v.b.Tx(1)
	if r.Halted() {
		v.armedID, v.armedAmount = id, amount
	}
}

func (v *venv) alphabetList() [][]byte {
	rd := v.w.Read(v.nfs, "alphabetList")
	var res [][]byte
	for _, it := range world.Arr(rd.Top()) {
		f := world.Arr(it)
		if len(f) == 1 {
			res = append(res, world.Bytes(f[0]))
		}
	}
	return res
}

func sameKeys(a, b [][]byte) bool {
	if len(a) != len(b) {
		return false
	}
	for i := range a {
		if !bytes.Equal(a[i], b[i]) {
			return false
		}
	}
	return true
}

func (v *venv) alphabetUpdateCall(caller int, id string, newList [][]byte) *call {
	s, pub, alpha := v.caller(caller)
	arg := make([]any, len(newList))
	for i := range newList {
		arg[i] = newList[i]
	}
	var old [][]byte
	return &call{pre: func() { old = v.alphabet }, method: "alphabetUpdate", args: []any{[]byte(id), arg}, voteID: id, signer: s, pub: pub, alpha: alpha, desc: fmt.Sprintf("alphabetUpdate(id %q, %d keys) by caller %d", id, len(newList), caller),
		fired: func(r *world.TxResult, readback bool) string {
			evs := v.eventsNamed(r, "AlphabetUpdate")
			v.alphabet = newList
			if got := v.alphabetList(); len(evs) != 1 || !sameKeys(got, newList) {
				return fmt.Sprintf("%d AlphabetUpdate notifications, alphabetList has %d keys (expected the %d new ones)", len(evs), len(got), len(newList))
			}
			return ""
		},
		quiet: func(r *world.TxResult, readback bool) string {
			if got := v.alphabetList(); len(v.eventsNamed(r, "AlphabetUpdate")) > 0 || !sameKeys(got, old) {
				return "alphabet list changed or AlphabetUpdate emitted without a decision"
			}
			return ""
		}}
}

func (v *venv) candidates() map[string]bool {
	rd := v.w.Read(v.nfs, "innerRingCandidates")
	res := map[string]bool{}
	for _, it := range world.Arr(rd.Top()) {
		f := world.Arr(it)
		if len(f) == 1 {
			res[hex.EncodeToString(world.Bytes(f[0]))] = true
		}
	}
	return res
}

func (v *venv) candRemoveCall(caller int, cand []byte) *call {
	s, pub, alpha := v.caller(caller)
	h := sha256.Sum256(append(append([]byte{}, cand...), []byte("delete")...))
	ch := hex.EncodeToString(cand)
	return &call{method: "innerRingCandidateRemove", args: []any{cand}, voteID: string(h[:]), signer: s, pub: pub, alpha: alpha, desc: fmt.Sprintf("innerRingCandidateRemove by caller %d", caller),
		fired: func(r *world.TxResult, readback bool) string {
			delete(v.cands, ch)
			if v.candidates()[ch] {
				return "candidate still listed after the decision"
			}
			return ""
		},
		quiet: func(r *world.TxResult, readback bool) string {
			if v.candidates()[ch] != v.cands[ch] {
				return "candidate list changed without a decision"
			}
			return ""
		}}
}

func (v *venv) addCandidate(k *keys.PrivateKey) {
	pb := k.PublicKey().Bytes()
	r := v.w.Invoke([]world.SignerSpec{world.G(world.Single(k))}, v.nfs, "innerRingCandidateAdd", pb)
	v.b.Tx(1)
	if r.Halted() {
		v.cands[hex.EncodeToString(pb)] = true
	}
}

// ---- exhaustive setConfig sequences

var gaps = []int{0, 1, 20, 21}

func seqCount(n, length int) int {
	per := (n + 1) * 2 * len(gaps)
	t := 1
	for i := 0; i < length; i++ {
		t *= per
	}
	return t
}

func (v *venv) runSequence(n, length, idx int, tag string) {
	per := (n + 1) * 2 * len(gaps)
	ids := []string{tag + "A", tag + "B"}
	var block []*call
	flush := func() {
		if len(block) > 0 {
			v.runBlock(block)
			block = nil
		}
	}
	for step := 0; step < length; step++ {
		c := idx % per
		idx /= per
		g := gaps[c%len(gaps)]
		c /= len(gaps)
		id := ids[c%2]
		c /= 2
		caller := c - 1 // -1 = stranger
		if step == 0 && g == 0 {
			g = 1
		}
		if g > 0 {
			flush()
			v.gap(g)
		}
		block = append(block, v.setConfigCall(caller, id))
		if g == 0 {
			v.b.Hit("several-votes-in-one-block")
		}
	}
	flush()
}

const c17Chunk = 512

type c17Plan struct {
	n, length int
	batches   int
}

func c17Plans(tier string) []c17Plan {
	length := 3
	if tier == "thorough" {
		length = 4
	}
	var res []c17Plan
	for n := 1; n <= 3; n++ {
		res = append(res, c17Plan{n, length, (seqCount(n, length) + c17Chunk - 1) / c17Chunk})
	}
	return res
}

func c17Batches(tier string) int {
	t := 0
	for _, p := range c17Plans(tier) {
		t += p.batches
	}
	if tier == "thorough" {
		return t + 7*16
	}
	return t + 7*2
}

func runC17(b *runner.Batch) {
	idx := b.Index
	for _, p := range c17Plans(b.Tier) {
		if idx < p.batches {
			v, err := newVenv(b, p.n)
			if err != nil {
				b.Inconclusive("world: " + err.Error())
				return
			}
			defer v.w.Close()
			lo := idx * c17Chunk
			hi := min(lo+c17Chunk, seqCount(p.n, p.length))
			for s := lo; s < hi && b.NViolations() == 0; s++ {
				v.runSequence(p.n, p.length, s, fmt.Sprintf("s%d-", s))
			}
			b.HitN("exhaustive-sequences", hi-lo)
			if idx == 0 {
				b.Sample(map[string]any{"alphabet_size": p.n, "sequence_length": p.length, "sequence_index_range": []int{lo, hi}, "step_alphabet": "caller in {stranger, each Alphabet key} x id in {A,B} x block gap in {0,1,20,21}"})
			}
			return
		}
		idx -= p.batches
	}
	// PRNG part: n = 1..7, all four voted methods, sequences up to 40 calls
	n := 1 + idx%7
	v, err := newVenv(b, n)
	if err != nil {
		b.Inconclusive("world: " + err.Error())
		return
	}
	defer v.w.Close()
	r := b.Rng
	// the contract needs GAS for cheques; candidates for removals
	dep := v.w.Invoke([]world.SignerSpec{world.G(v.user)}, v.w.GAS, "transfer", v.user.ScriptHash(), v.nfs, int64(5000_0000_0000), nil)
	if !dep.Halted() {
		b.Inconclusive("deposit failed: " + dep.Fault)
		return
	}
	candKeys := []*keys.PrivateKey{world.Key(b.Seed, b.Index, "cand", 0), world.Key(b.Seed, b.Index, "cand", 1)}
	for _, k := range candKeys {
		v.w.FundGAS(world.Hash160Of(k), 10_0000_0000)
		v.addCandidate(k)
	}
	payee := world.Hash160Of(world.Key(b.Seed, b.Index, "payee", 0))
	// first of all, on a list of ballots that is still empty (every second batch with four or more keys): an older ballot
	// X with threshold-1 votes, a younger one Y with one vote, the Alphabet is cut down to its first two keys, and then a
	// key that stays repeats its vote for X — the votes on record now suffice, X is decided there (and only X is closed);
	// the other key's vote for X afterwards opens a new round, its vote for Y completes Y (seeded change C17-10: the
	// closed ballot looked for from the tail of the list, the head never compared)
	if n >= 4 && idx%2 == 1 {
		t := v.threshold()
		for c := 0; c < t-1; c++ {
			v.runBlock([]*call{v.setConfigCall(c, "shrX")})
		}
		v.runBlock([]*call{v.setConfigCall(0, "shrY")})
		nl := append([][]byte{}, v.alphabet[:2]...)
		for c := 0; c < t && len(v.alphabet) > 2; c++ {
			v.runBlock([]*call{v.alphabetUpdateCall(c, "shr-upd", nl)})
		}
		if len(v.alphabet) == 2 {
			v.runBlock([]*call{v.setConfigCall(0, "shrX")})
			v.runBlock([]*call{v.setConfigCall(1, "shrX")})
			v.runBlock([]*call{v.setConfigCall(1, "shrY")})
			b.Hit("repeated-vote-decides-after-the-list-shrank")
		}
	}
	// canonical: every Alphabet key votes once for one decision of each method (fires exactly at the threshold)
	for mi, mk := range []func(c int) *call{
		func(c int) *call { return v.setConfigCall(c, "canon-cfg") },
		func(c int) *call { return v.chequeCall(c, "canon-chq", payee, 12345) },
		func(c int) *call { return v.candRemoveCall(c, candKeys[0].PublicKey().Bytes()) },
	} {
		_ = mi
		for c := 0; c < v.threshold(); c++ {
			v.runBlock([]*call{mk(c)})
		}
	}
	// expiry at gap 21 and survival at gap 20 (needs a threshold of at least 2)
	if v.threshold() >= 2 {
		v.runBlock([]*call{v.setConfigCall(0, "gap21")})
		v.gap(21)
		v.runBlock([]*call{v.setConfigCall(1, "gap21")})
		v.runBlock([]*call{v.setConfigCall(0, "gap20")})
		v.gap(20)
		v.runBlock([]*call{v.setConfigCall(1, "gap20")})
	}
	// two decisions side by side: X is reached in the block that lies exactly 20 blocks after Y's last vote, and Y's
	// next vote follows in that same block, after the transaction that decided X. Y's ballot is still alive there
	// (seeded change C17-9: the clean-up after a decision sweeping ballots aged exactly 20 blocks)
	if v.threshold() == 2 {
		v.runBlock([]*call{v.setConfigCall(0, "sideY"), v.setConfigCall(0, "sideX")})
		v.gap(20)
		v.runBlock([]*call{v.setConfigCall(1, "sideX"), v.setConfigCall(1, "sideY")})
		b.Hit("decision-next-to-a-ballot-aged-exactly-20-blocks")
	}
	// candidate removes itself: no vote needed
	{
		k := candKeys[1]
		pb := k.PublicKey().Bytes()
		rr := v.w.Invoke([]world.SignerSpec{world.G(world.Single(k))}, v.nfs, "innerRingCandidateRemove", pb)
		b.Tx(1)
		delete(v.cands, hex.EncodeToString(pb))
		if !rr.Halted() || v.candidates()[hex.EncodeToString(pb)] {
			b.Violation("a candidate could not remove itself", v.w.RenderResult(rr, true))
		}
		b.Hit("candidate-removes-itself")
	}
	// the same when an Alphabet key witnesses the transaction too (co-signed, either order), and when the
	// candidate is itself one of the stored Alphabet keys: the candidate's own request is executed at once and
	// is nobody's vote (seeded change C17-7)
	for variant := 0; variant < 3 && len(v.alphabet) > 0; variant++ {
		var ck *keys.PrivateKey
		var signers []world.SignerSpec
		var alphaKey *keys.PrivateKey
		for _, pk := range v.pool {
			if v.isAlpha(pk.PublicKey().Bytes()) {
				alphaKey = pk
				break
			}
		}
		if alphaKey == nil {
			break
		}
		switch variant {
		case 0:
			ck = world.Key(b.Seed, b.Index, "cand-cosigned", 0)
			signers = []world.SignerSpec{world.G(world.Single(ck)), world.G(world.Single(alphaKey))}
		case 1:
			ck = world.Key(b.Seed, b.Index, "cand-cosigned", 1)
			signers = []world.SignerSpec{world.G(world.Single(alphaKey)), world.G(world.Single(ck))}
		default:
			ck = alphaKey
			signers = []world.SignerSpec{world.G(world.Single(ck))}
		}
		pb := ck.PublicKey().Bytes()
		v.w.FundGAS(world.Hash160Of(ck), 10_0000_0000)
		v.addCandidate(ck)
		if !v.cands[hex.EncodeToString(pb)] {
			b.Inconclusive("candidate registration failed in the self-removal variants")
			break
		}
		rr := v.w.Invoke(signers, v.nfs, "innerRingCandidateRemove", pb)
		b.Tx(1)
		delete(v.cands, hex.EncodeToString(pb))
		if !rr.Halted() || v.candidates()[hex.EncodeToString(pb)] {
			b.Violation(fmt.Sprintf("a candidate's own removal request (variant %d: co-signed by / being an Alphabet key) was not executed at once", variant), v.w.RenderResult(rr, true))
		}
		// and it left no vote behind: threshold votes are still needed to remove it after a new registration
		// (not for the candidate that is an Alphabet key itself: its own vote would be its own request again)
		if v.threshold() >= 2 && variant < 2 {
			v.addCandidate(ck)
			for c := 0; c < v.threshold(); c++ {
				v.runBlock([]*call{v.candRemoveCall(c, pb)})
			}
		}
		b.Hit("candidate-removes-itself-with-an-alphabet-witness-present")
	}
	// a decision about a key that is not listed: the votes reach the threshold (nothing to remove, but the
	// ballot ends there), the key registers, and the next votes are a fresh round: one vote must not remove it
	// (unless the threshold is one), the threshold-th does (seeded change C17-5)
	{
		k := world.Key(b.Seed, b.Index, "cand-late", 0)
		pb := k.PublicKey().Bytes()
		for c := 0; c < v.threshold(); c++ {
			v.runBlock([]*call{v.candRemoveCall(c, pb)})
		}
		v.w.FundGAS(world.Hash160Of(k), 10_0000_0000)
		v.addCandidate(k)
		for c := 0; c < v.threshold(); c++ {
			v.runBlock([]*call{v.candRemoveCall(c, pb)})
		}
		b.Hit("decision-about-an-unlisted-key-then-registration")
	}
	// the list shrinks under a pending ballot: threshold-1 votes for a cheque, the Alphabet is cut down to its last two
	// keys (new threshold 2), one more vote by a remaining key that has not voted. The votes collected now exceed the
	// threshold without ever having been equal to it; the decision is due in that invocation (seeded change C17-8:
	// "pay when the count hits the threshold")
	if n >= 4 && idx%2 == 0 {
		t := v.threshold()
		for c := 0; c < t-1; c++ {
			v.runBlock([]*call{v.chequeCall(c, "shrink-chq", payee, 777)})
		}
		nl := append([][]byte{}, v.alphabet[len(v.alphabet)-2:]...)
		for c := 0; c < t && len(v.alphabet) > 2; c++ {
			v.runBlock([]*call{v.alphabetUpdateCall(c, "shrink-upd", nl)})
		}
		if len(v.alphabet) == 2 {
			v.runBlock([]*call{v.chequeCall(n-1, "shrink-chq", payee, 777)})
			b.Hit("votes-jump-over-the-threshold-after-the-list-shrank")
		}
	}
	ncalls := 400
	if b.Thorough() {
		ncalls = 50000 / (7 * 16)
	}
	ids := []string{"x", "y"}
	for i := 0; i < ncalls && b.NViolations() == 0; i++ {
		g := runner.Pick(r, []int{1, 1, 1, 2, 5, 19, 20, 21, 22})
		v.gap(g)
		k := 1 + r.IntN(3)
		var blk []*call
		for j := 0; j < k; j++ {
			caller := r.IntN(len(v.pool)+1) - 1
			if r.IntN(3) != 0 && len(v.alphabet) > 0 {
				// mostly real members
				pb := runner.Pick(r, v.alphabet)
				for pi, pk := range v.pool {
					if bytes.Equal(pk.PublicKey().Bytes(), pb) {
						caller = pi
					}
				}
			}
			switch r.IntN(8) {
			case 0, 1, 2, 3:
				blk = append(blk, v.setConfigCall(caller, runner.Pick(r, ids)+"-cfg"))
			case 4, 5:
				cid, amt, to := runner.Pick(r, ids)+"-chq", int64(1+r.IntN(1000)), payee
				if v.reenterH != (util.Uint160{}) && r.IntN(3) == 0 {
					// the receiver is a contract that asks for a cheque again from inside its payment callback: the
					// same decision (same id) half of the time, the competing id otherwise (seeded change C17-6)
					to = v.reenterH
					if v.armedID == "" && r.IntN(2) == 0 {
						aid := cid
						if r.IntN(2) == 0 {
							aid = runner.Pick(r, ids) + "-chq"
						}
						v.arm(aid, int64(1+r.IntN(1000)))
					}
				}
				blk = append(blk, v.chequeCall(caller, cid, to, amt))
			case 6:
				ck := world.Key(b.Seed, b.Index, "cand", 2+r.IntN(2))
				pb := ck.PublicKey().Bytes()
				// mostly a listed candidate; now and then the votes are for a key that is not (or no longer)
				// listed and registers only later: a decision reached then has nothing to remove, but it is
				// still the end of that ballot (seeded change C17-5)
				if !v.cands[hex.EncodeToString(pb)] {
					if r.IntN(3) != 0 {
						v.w.FundGAS(world.Hash160Of(ck), 10_0000_0000)
						v.addCandidate(ck)
					} else {
						b.Hit("removal-vote-for-a-key-that-is-not-listed")
					}
				}
				blk = append(blk, v.candRemoveCall(caller, pb))
			default:
				// a new Alphabet list drawn from the pool (changes n and the threshold for later votes)
				m := 1 + r.IntN(7)
				perm := r.Perm(len(v.pool))[:m]
				sort.Ints(perm)
				var nl [][]byte
				for _, pi := range perm {
					nl = append(nl, v.pool[pi].PublicKey().Bytes())
				}
				v.seq++
				blk = append(blk, v.alphabetUpdateCall(caller, fmt.Sprintf("upd-%d", v.seq%3), nl))
			}
		}
		// calls that share one block are judged in order; effect closures read state after the block,
		// so keep methods with state read-back in separate blocks unless they are setConfig of distinct ids
		if len(blk) > 1 {
			for _, c := range blk {
				v.runBlock([]*call{c})
			}
		} else {
			v.runBlock(blk)
		}
	}
	if idx < 2 {
		b.Sample(map[string]any{"alphabet_size_at_start": n, "calls": ncalls, "methods": []string{"setConfig", "cheque", "alphabetUpdate", "innerRingCandidateRemove"}})
	}
}

func init() {
	runner.Register(&runner.Check{
		ID: "C17", Level: "exploration",
		Rule:        "NeoFS contract deployed with notaryDisabled=true and n stored Alphabet keys. Exhaustive part: every sequence of setConfig calls of length 3 (quick) / 4 (thorough) for n = 1..3 over the step alphabet {stranger, each Alphabet key} x {2 decision ids} x {block gap 0 (same block), 1, 20, 21}; every prefix is judged. PRNG part: n = 1..7, cheque / alphabetUpdate (changes n and the threshold) / innerRingCandidateRemove / setConfig, gaps {1,2,5,19,20,21,22}, strangers. A ballot model predicts the exact invocation in which each decision fires; the effect (config value, payee GAS, Alphabet list, candidate list) and the notification must appear exactly there. distinct = (method, caller class, n, fires, live ballots). One vote in five passes its decision id as a Buffer (a value put together by the calling script), which is the same decision as the ByteString of the same bytes.",
		Assumptions: []string{"neo-go v0.107.0 VM, ledger and native contracts are the trusted base", "contracts are compiled at check time from /repo/contracts", "a call witnessed by several Alphabet keys is not generated (the contract counts the first one)"},
		Batches:     c17Batches, Chunk: 2, Helpers: []string{"reenter"},
		Floors: []string{"exhaustive-sequences", "fired-at-threshold-n1", "fired-at-threshold-n2", "fired-at-threshold-n3", "fired-at-threshold-n4", "fired-at-threshold-n5", "fired-at-threshold-n6", "fired-at-threshold-n7",
			"stranger-call", "duplicate-vote", "stale-ballot-expired", "ballot-survives-gap-20", "several-votes-in-one-block", "fired:setConfig", "fired:cheque", "fired:alphabetUpdate", "fired:innerRingCandidateRemove", "candidate-removes-itself", "removal-vote-for-a-key-that-is-not-listed", "decision-about-an-unlisted-key-then-registration", "cheque-receiver-re-enters", "candidate-removes-itself-with-an-alphabet-witness-present"},
		Run: runC17,
		Exhaustive: func(tier string) (bool, string) {
			l := 3
			if tier == "thorough" {
				l = 4
			}
			return true, fmt.Sprintf("all setConfig call sequences of length %d for n = 1..3 over {stranger, Alphabet keys} x 2 ids x gaps {0,1,20,21}", l)
		},
	})
}
