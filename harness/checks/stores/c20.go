// Package stores holds the monitors of C20: Reputation, Audit, container size
// estimations, NeoFSID and the configuration maps behave as exact stores.
package stores

import (
	"bytes"
	"crypto/sha256"
	"encoding/binary"
	"encoding/hex"
	"fmt"
	"github.com/nspcc-dev/neo-go/pkg/core/transaction"
	"math/big"
	"sort"
	"strings"

	"github.com/nspcc-dev/neo-go/pkg/crypto/hash"
	"github.com/nspcc-dev/neo-go/pkg/crypto/keys"
	"github.com/nspcc-dev/neo-go/pkg/util"
	"github.com/nspcc-dev/neo-go/pkg/vm/stackitem"

	"verif/harness/runner"
	"verif/harness/world"
)

var epochPool = []int64{0, 1, 127, 128, 255, 256, 257, 65535, 65536, 65537, 1<<31 - 1, 2, 3, 5}

// enc is the minimal little-endian two's complement encoding NeoVM uses for integers.
func enc(v int64) []byte {
	b, _ := stackitem.Make(v).TryBytes()
	return b
}

type repEntry struct {
	epoch int64
	peer  []byte
	value []byte
	raw   string // raw value key
	craw  string // raw counter key
}

type auditEntry struct {
	epoch int64
	cid   []byte
	from  []byte
	raw   []byte // value
	id    []byte // storage key
}

type estEntry struct {
	epoch int64
	cid   []byte
	node  []byte
	size  int64
	key   string // raw storage key
}

type env struct {
	b                  *runner.Batch
	w                  *world.World
	rep, aud, cn, fsid util.Uint160
	nm, bal, nfs       util.Uint160
	reps               []repEntry
	repCnt             map[string]int
	audits             map[string]*auditEntry
	ests               map[string]*estEntry
	idKeys             map[string]map[string]bool
	nmCfg, nfsCfg      map[string][]byte
	nodes              []*keys.PrivateKey
	irs                []*keys.PrivateKey
	rot                int
	cids               [][]byte
	owners             [][]byte
	epoch              int64
	prevMap, curMap    map[string]bool // legacy maps published by the last two ticks
	cands              map[string]bool
	peers              [][]byte
	cfgKeys            [][]byte
	seq                int
}

func (e *env) detail(r *world.TxResult) any {
	if r == nil {
		return nil
	}
	return e.w.RenderResult(r, true)
}

func (e *env) alphaSigners(k int) ([]world.SignerSpec, bool, string) {
	majIsAlpha := e.w.Majority.ScriptHash() == e.w.Alphabet.ScriptHash()
	memIsAlpha := e.w.Members[0].ScriptHash() == e.w.Alphabet.ScriptHash()
	switch k {
	case 0:
		return e.w.Alpha(), true, "alphabet"
	case 1:
		return e.w.Major(), majIsAlpha, "majority"
	case 2:
		return []world.SignerSpec{world.G(e.w.Members[0])}, memIsAlpha, "member"
	case 3:
		return []world.SignerSpec{world.G(world.Single(e.nodes[0]))}, false, "node"
	case 5:
		// the Alphabet's multi-signature is there, but its scope does not reach the call: no witness
		return []world.SignerSpec{world.Scoped(e.w.Alphabet, transaction.None)}, false, "alphabet(scope None)"
	case 6:
		return []world.SignerSpec{world.Scoped(e.w.Alphabet, transaction.CustomContracts, e.w.GAS)}, false, "alphabet(scoped to GAS)"
	}
	return nil, false, "nobody"
}

func (e *env) pickAlpha(honest int) int {
	if e.b.Rng.IntN(10) < honest {
		return 0
	}
	return 1 + e.b.Rng.IntN(6)
}

func hx(b []byte) string { return hex.EncodeToString(b) }

// judgeSet compares a returned collection with the model. extras that are
// completely explained by prefix aliasing of really stored entries are a known finding.
func (e *env) judgeSet(what, finding string, got, want []string, allowed map[string]bool, ordered bool, r *world.TxResult) {
	b := e.b
	b.Read(1)
	if ordered {
		if strings.Join(got, ",") == strings.Join(want, ",") {
			return
		}
	}
	gs, ws := map[string]int{}, map[string]int{}
	for _, g := range got {
		gs[g]++
	}
	for _, w := range want {
		ws[w]++
	}
	same := len(gs) == len(ws)
	for k, v := range ws {
		if gs[k] != v {
			same = false
		}
	}
	if same && !ordered {
		return
	}
	if same && ordered {
		// the statement promises the contents, not their order: values come back in the order of their raw keys, which
		// is the order of arrival only up to the 255th value of one (epoch, peer) pair (the 256th is stored under the
		// sequence number 0x0001, which sorts first). Counted as an observation, never a verdict.
		b.Hit("observation:values-returned-out-of-arrival-order")
		return
	}
	// every expected element present?
	for k, v := range ws {
		if gs[k] < v {
			b.Violation(fmt.Sprintf("%s: an entry that was put is missing from the answer", what), map[string]any{"got": got, "want": want, "after": e.detail(r)})
			return
		}
	}
	// every extra element explained by aliasing?
	for k, v := range gs {
		if v > ws[k] && !allowed[k] {
			b.Violation(fmt.Sprintf("%s: returns an entry that was never put under the queried key", what), map[string]any{"got": got, "want": want, "after": e.detail(r)})
			return
		}
	}
	b.Known(finding, fmt.Sprintf("%s also returns entries stored under other (epoch, id) tuples whose raw storage key starts with the queried prefix (variable-length epoch encoding without delimiter)", strings.SplitN(what, "(", 2)[0]), map[string]any{"query": what, "got": got, "want": want})
}

func itemsHex(it stackitem.Item) []string {
	var res []string
	for _, x := range world.Arr(it) {
		res = append(res, hx(world.Bytes(x)))
	}
	return res
}

// ---------------------------------------------------------------- reputation

func (e *env) repPut(epoch int64, peer, value []byte, alphaClass int) {
	b := e.b
	s, aw, sd := e.alphaSigners(alphaClass)
	r := e.w.Invoke(s, e.rep, "put", epoch, peer, value)
	b.Tx(1)
	if aw != r.Halted() {
		b.Violation(fmt.Sprintf("reputation.put by %s: %s %s", sd, r.State, r.Fault), e.detail(r))
	}
	if r.Halted() {
		id := string(append(enc(epoch), peer...))
		e.repCnt[id]++
		e.reps = append(e.reps, repEntry{epoch: epoch, peer: peer, value: value, craw: "c" + id, raw: "r" + id + string(enc(int64(e.repCnt[id])))})
		b.Hit("reputation.put")
	} else if !r.Diff.Empty() {
		b.Violation("failed reputation.put changed storage", e.detail(r))
	}
	b.Eval(fmt.Sprintf("rep.put|%s|e%d|p%d|%s", sd, epoch, len(peer), r.State), true)
	e.repSweep(r)
}

// repBulk stacks many values on one (epoch, peer) pair: the sequence number Put appends to the key grows past
// the one-byte encodings (127/128, 255/256); sweeps at the boundaries only (seeded change C20-6).
func (e *env) repBulk(epoch int64, peer []byte, n int) {
	b := e.b
	A := e.w.Alpha()
	for i := 1; i <= n && b.NViolations() == 0; i++ {
		e.seq++
		value := []byte(fmt.Sprintf("bulk-%d", e.seq))
		r := e.w.Invoke(A, e.rep, "put", epoch, peer, value)
		b.Tx(1)
		if !r.Halted() {
			b.Violation(fmt.Sprintf("reputation.put #%d for one (epoch, peer) pair failed: %s", i, r.Fault), e.detail(r))
			return
		}
		id := string(append(enc(epoch), peer...))
		e.repCnt[id]++
		e.reps = append(e.reps, repEntry{epoch: epoch, peer: peer, value: value, craw: "c" + id, raw: "r" + id + string(enc(int64(e.repCnt[id])))})
		if c := e.repCnt[id]; c == 127 || c == 128 || c == 129 || c == 255 || c == 256 || c == 257 || i == n {
			e.repSweep(r)
			b.Hit(fmt.Sprintf("reputation-values-on-one-key>=%d", c/128*128))
		}
	}
	b.EvalN(fmt.Sprintf("rep.bulk|e%d|n%d", epoch, n), n, true)
}

func (e *env) repSweep(tr *world.TxResult) {
	for _, ep := range epochPool {
		// listByEpoch
		prefix := "c" + string(enc(ep))
		var want []string
		allowed := map[string]bool{}
		seen := map[string]bool{}
		for _, x := range e.reps {
			id := hx([]byte(x.craw[1:]))
			if strings.HasPrefix(x.craw, prefix) {
				allowed[id] = true
			}
			if x.epoch == ep && !seen[id] {
				seen[id] = true
				want = append(want, id)
			}
		}
		r := e.w.Read(e.rep, "listByEpoch", ep)
		if !r.OK() {
			e.b.Violation(fmt.Sprintf("reputation.listByEpoch(%d) does not answer: %s", ep, r.Err), nil)
		} else {
			e.judgeSet(fmt.Sprintf("reputation.listByEpoch(%d)", ep), "epoch-prefix-aliasing-reputation", itemsHex(r.Top()), want, allowed, false, tr)
		}
		for _, p := range e.peers {
			var wv []string
			al := map[string]bool{}
			qp := "r" + string(enc(ep)) + string(p)
			for _, x := range e.reps {
				if x.epoch == ep && bytes.Equal(x.peer, p) {
					wv = append(wv, hx(x.value))
				} else if strings.HasPrefix(x.raw, qp) {
					al[hx(x.value)] = true
				}
			}
			if len(wv) == 0 && len(al) == 0 && e.b.Rng.IntN(4) != 0 {
				continue
			}
			for _, m := range []string{"get", "getByID"} {
				var r world.ReadResult
				if m == "get" {
					r = e.w.Read(e.rep, "get", ep, p)
				} else {
					r = e.w.Read(e.rep, "getByID", append(enc(ep), p...))
				}
				if !r.OK() {
					e.b.Violation(fmt.Sprintf("reputation.%s(%d, %x) does not answer: %s", m, ep, p, r.Err), nil)
					continue
				}
				e.judgeSet(fmt.Sprintf("reputation.%s(%d, %x)", m, ep, p), "epoch-prefix-aliasing-reputation", itemsHex(r.Top()), wv, al, len(al) == 0, tr)
			}
		}
	}
}

// ---------------------------------------------------------------- audit

func auditBlob(epoch int64, cid, from []byte, verLen int, tag int) []byte {
	b := []byte{0x0a, byte(verLen)}
	for i := 0; i < verLen; i++ {
		b = append(b, byte(i))
	}
	b = append(b, 0x11) // epoch prefix
	var e8 [8]byte
	binary.LittleEndian.PutUint64(e8[:], uint64(epoch))
	b = append(b, e8[:]...)
	b = append(b, 0x1a, byte(2+len(cid)), 0x0a, byte(len(cid)))
	b = append(b, cid...)
	b = append(b, 0x22, byte(len(from)))
	b = append(b, from...)
	return append(b, byte(tag), byte(tag>>8), 0x77)
}

func auditID(epoch int64, cid, from []byte) []byte {
	h := sha256.Sum256(from)
	return append(append(enc(epoch), cid...), h[:24]...)
}

func (e *env) auditPut(epoch int64, cid []byte, from *keys.PrivateKey, isIR bool, witness bool) {
	b := e.b
	e.seq++
	pub := from.PublicKey().Bytes()
	raw := auditBlob(epoch, cid, pub, runner.Pick(b.Rng, []int{0, 2, 9}), e.seq)
	var s []world.SignerSpec
	sd := "nobody"
	if witness {
		s = []world.SignerSpec{world.G(world.Single(from))}
		sd = "ir-member"
		if !isIR {
			sd = "non-member"
		}
		// now and then somebody else signs the transaction too, before or after the author: an Inner Ring
		// member next to an outsider's result does not make the outsider a member (seeded change C20-5)
		if b.Rng.IntN(4) == 0 {
			co := runner.Pick(b.Rng, e.irs)
			if isIR && b.Rng.IntN(2) == 0 {
				co = runner.Pick(b.Rng, e.nodes)
			}
			if !co.PublicKey().Equal(from.PublicKey()) {
				cs := world.G(world.Single(co))
				if b.Rng.IntN(2) == 0 {
					s = append(s, cs)
				} else {
					s = append([]world.SignerSpec{cs}, s...)
				}
				sd += "+co-signer"
				if !isIR {
					b.Hit("audit.put-outsider-result-co-signed-by-a-member")
				}
			}
		}
	} else if b.Rng.IntN(2) == 0 {
		s = e.w.Alpha()
		sd = "alphabet-without-key"
	}
	r := e.w.Invoke(s, e.aud, "put", raw)
	b.Tx(1)
	exp := isIR && witness
	if exp != r.Halted() {
		b.Violation(fmt.Sprintf("audit.put from %s (inner ring member: %v, witnessed: %v): %s %s", sd, isIR, witness, r.State, r.Fault), e.detail(r))
	}
	if r.Halted() {
		id := auditID(epoch, cid, pub)
		e.audits[string(id)] = &auditEntry{epoch: epoch, cid: cid, from: pub, raw: raw, id: id}
		b.Hit("audit.put")
	} else {
		if !r.Diff.Empty() {
			b.Violation("failed audit.put changed storage", e.detail(r))
		}
		if !isIR && witness {
			b.Hit("audit.put-refused-non-member")
		}
	}
	b.Eval(fmt.Sprintf("audit.put|%s|e%d|%s", sd, epoch, r.State), true)
	e.auditSweep(r)
}

// auditRotation: the NeoFSAlphabet role is re-designated in block N (one member dismissed, a fresh key
// appointed); block N+1 carries an audit result of the dismissed member (must be refused) and one of
// the appointed member (must be stored).
func (e *env) auditRotation() {
	b := e.b
	j := b.Rng.IntN(len(e.irs))
	old := e.irs[j]
	e.rot++
	fresh := world.Key(b.Seed, b.Index, "ir-rotated", e.rot)
	next := append([]*keys.PrivateKey{}, e.irs...)
	next[j] = fresh
	if err := e.w.DesignateIR(world.Pubs(next)); err != nil {
		b.Inconclusive("re-designation of the Inner Ring: " + err.Error())
		return
	}
	b.Tx(1)
	e.irs = next
	epoch, cid := runner.Pick(b.Rng, epochPool), runner.Pick(b.Rng, e.cids)
	e.seq++
	rawOld := auditBlob(epoch, cid, old.PublicKey().Bytes(), 0, e.seq)
	e.seq++
	rawNew := auditBlob(epoch, cid, fresh.PublicKey().Bytes(), 0, e.seq)
	rs := e.w.Block(e.w.Prepare([]world.SignerSpec{world.G(world.Single(old))}, e.aud, "put", rawOld),
		e.w.Prepare([]world.SignerSpec{world.G(world.Single(fresh))}, e.aud, "put", rawNew))
	b.Tx(2)
	// (the storage diff of a block is not attributable to one of its transactions: that nothing of the
	// refused result was stored is decided by the sweep below, whose model does not contain it)
	if rs[0].Halted() {
		b.Violation("audit.put from a member dismissed by the re-designation in the previous block was stored", e.detail(rs[0]))
	}
	if !rs[1].Halted() {
		b.Violation(fmt.Sprintf("audit.put from the member appointed in the previous block was refused: %s", rs[1].Fault), e.detail(rs[1]))
	} else {
		pub := fresh.PublicKey().Bytes()
		id := auditID(epoch, cid, pub)
		e.audits[string(id)] = &auditEntry{epoch: epoch, cid: cid, from: pub, raw: rawNew, id: id}
	}
	b.Hit("audit.put-right-after-inner-ring-rotation")
	b.Eval(fmt.Sprintf("audit.put|rotation|%s|%s", rs[0].State, rs[1].State), true)
	e.auditSweep(rs[1])
}

func (e *env) auditSweep(tr *world.TxResult) {
	ids := func(f func(a *auditEntry) bool) []string {
		var res []string
		for _, a := range e.audits {
			if f(a) {
				res = append(res, hx(a.id))
			}
		}
		sort.Strings(res)
		return res
	}
	prefixed := func(p []byte) map[string]bool {
		res := map[string]bool{}
		for _, a := range e.audits {
			if bytes.HasPrefix(a.id, p) {
				res[hx(a.id)] = true
			}
		}
		return res
	}
	r := e.w.Read(e.aud, "list")
	if !r.OK() {
		e.b.Violation("audit.list does not answer: "+r.Err, nil)
	} else {
		e.judgeSet("audit.list()", "none", itemsHex(r.Top()), ids(func(*auditEntry) bool { return true }), nil, false, tr)
	}
	for _, a := range e.audits {
		g := e.w.Read(e.aud, "get", a.id)
		e.b.Read(1)
		if !g.OK() || !bytes.Equal(world.Bytes(g.Top()), a.raw) {
			e.b.Violation(fmt.Sprintf("audit.get(%x…) is not the stored result", a.id[:6]), nil)
		}
	}
	for _, ep := range epochPool {
		r := e.w.Read(e.aud, "listByEpoch", ep)
		if !r.OK() {
			e.b.Violation(fmt.Sprintf("audit.listByEpoch(%d) does not answer: %s", ep, r.Err), nil)
		} else {
			e.judgeSet(fmt.Sprintf("audit.listByEpoch(%d)", ep), "epoch-prefix-aliasing-audit", itemsHex(r.Top()), ids(func(a *auditEntry) bool { return a.epoch == ep }), prefixed(enc(ep)), false, tr)
		}
		for _, cid := range e.cids {
			r := e.w.Read(e.aud, "listByCID", ep, cid)
			if !r.OK() {
				e.b.Violation(fmt.Sprintf("audit.listByCID(%d) does not answer: %s", ep, r.Err), nil)
				continue
			}
			e.judgeSet(fmt.Sprintf("audit.listByCID(%d, %x…)", ep, cid[:4]), "epoch-prefix-aliasing-audit", itemsHex(r.Top()), ids(func(a *auditEntry) bool { return a.epoch == ep && bytes.Equal(a.cid, cid) }), prefixed(append(enc(ep), cid...)), false, tr)
			for _, ir := range e.irs[:2] {
				pub := ir.PublicKey().Bytes()
				r := e.w.Read(e.aud, "listByNode", ep, cid, pub)
				if !r.OK() {
					e.b.Violation("audit.listByNode does not answer: "+r.Err, nil)
					continue
				}
				e.judgeSet(fmt.Sprintf("audit.listByNode(%d, %x…, %x…)", ep, cid[:4], pub[:4]), "epoch-prefix-aliasing-audit", itemsHex(r.Top()), ids(func(a *auditEntry) bool { return a.epoch == ep && bytes.Equal(a.cid, cid) && bytes.Equal(a.from, pub) }), prefixed(auditID(ep, cid, pub)), false, tr)
			}
		}
	}
}

// ---------------------------------------------------------------- estimations

func estKey(epoch int64, cid, pub []byte) string {
	h := hash.RipeMD160(pub)
	return "cnr" + string(enc(epoch)) + string(cid) + string(h.BytesBE()[:10])
}

func (e *env) inPrevMap(pub []byte) bool {
	// snapshot(1): the map published by the tick before the last one
	return e.prevMap[hx(pub)]
}

func (e *env) estPut(epoch int64, cid []byte, live bool, node *keys.PrivateKey, witness bool, size int64) {
	b := e.b
	pub := node.PublicKey().Bytes()
	var s []world.SignerSpec
	if witness {
		s = []world.SignerSpec{world.G(world.Single(node))}
		// now and then another storage node signs too: that changes nothing for the announcing key
		if b.Rng.IntN(5) == 0 {
			if co := runner.Pick(b.Rng, e.nodes); !co.PublicKey().Equal(node.PublicKey()) {
				if b.Rng.IntN(2) == 0 {
					s = append(s, world.G(world.Single(co)))
				} else {
					s = append([]world.SignerSpec{world.G(world.Single(co))}, s...)
				}
				b.Hit("estimation-co-signed-by-another-node")
			}
		}
	} else {
		s = e.w.Alpha()
		// or the transaction carries a map member's witness while announcing for another key
		if b.Rng.IntN(3) == 0 {
			if co := runner.Pick(b.Rng, e.nodes); !co.PublicKey().Equal(node.PublicKey()) {
				s = []world.SignerSpec{world.G(world.Single(co))}
			}
		}
	}
	r := e.w.Invoke(s, e.cn, "putContainerSize", epoch, cid, size, pub)
	b.Tx(1)
	inMap := e.inPrevMap(pub)
	exp := live && witness && inMap
	if exp != r.Halted() {
		b.Violation(fmt.Sprintf("putContainerSize(epoch %d) container live=%v witnessed=%v node in previous map=%v: %s %s", epoch, live, witness, inMap, r.State, r.Fault), e.detail(r))
	}
	if r.Halted() {
		// per-node clean-up: entries of this node and container older than CleanupDelta (3) epochs go
		for k, x := range e.ests {
			if bytes.Equal(x.cid, cid) && bytes.Equal(x.node, pub) && epoch-x.epoch > 3 {
				delete(e.ests, k)
				b.Hit("estimation-node-cleanup-fired")
			} else if bytes.Equal(x.cid, cid) && bytes.Equal(x.node, pub) && epoch-x.epoch == 3 {
				b.Hit("estimation-node-cleanup-boundary-kept")
			}
		}
		k := estKey(epoch, cid, pub)
		e.ests[k] = &estEntry{epoch: epoch, cid: cid, node: pub, size: size, key: k}
		b.Hit("estimation.put")
	} else {
		if !r.Diff.Empty() {
			b.Violation("failed putContainerSize changed storage", e.detail(r))
		}
		if live && witness && !inMap {
			b.Hit("estimation-refused-node-outside-previous-map")
		}
	}
	b.Eval(fmt.Sprintf("est.put|live%v|wit%v|inmap%v|e%d|%s", live, witness, inMap, epoch, r.State), true)
	e.estSweep(r)
}

// estBulk: more than a thousand estimations alive at once, all of them outdated by one tick (seeded change C20-11: a
// budget on the tick's clean-up). Announcements go in descending epoch order, many per block; the raw "cnr" keys of the
// Container contract are compared with the model before and after the tick, and a few of the epochs are read back.
func (e *env) estBulk() {
	b := e.b
	var nodes []*keys.PrivateKey
	for _, n := range e.nodes {
		if e.inPrevMap(n.PublicKey().Bytes()) {
			nodes = append(nodes, n)
		}
	}
	if len(nodes) < 2 || len(e.cids) < 2 {
		b.Hit("estimation-bulk-skipped")
		return
	}
	cids := e.cids[:2]
	per := int64(1024/(len(nodes)*len(cids)) + 6)
	base := e.epoch + 20
	type pend struct {
		ep   int64
		cid  []byte
		pub  []byte
		size int64
	}
	var ps []*world.Pending
	var meta []pend
	flush := func() bool {
		if len(ps) == 0 {
			return true
		}
		rs := e.w.Block(ps...)
		b.Tx(len(rs))
		for i, r := range rs {
			if !r.Halted() {
				b.Violation(fmt.Sprintf("putContainerSize(epoch %d) by a node of the previous map failed while many estimations are alive: %s %s", meta[i].ep, r.State, r.Fault), e.detail(r))
				return false
			}
			m := meta[i]
			for k, x := range e.ests {
				if bytes.Equal(x.cid, m.cid) && bytes.Equal(x.node, m.pub) && m.ep-x.epoch > 3 {
					delete(e.ests, k)
				}
			}
			k := estKey(m.ep, m.cid, m.pub)
			e.ests[k] = &estEntry{epoch: m.ep, cid: m.cid, node: m.pub, size: m.size, key: k}
		}
		ps, meta = nil, nil
		return true
	}
	for ep := base + per - 1; ep >= base; ep-- {
		for _, cid := range cids {
			for _, n := range nodes {
				pub := n.PublicKey().Bytes()
				size := int64(b.Rng.IntN(1000))
				ps = append(ps, e.w.Prepare([]world.SignerSpec{world.G(world.Single(n))}, e.cn, "putContainerSize", ep, cid, size, pub))
				meta = append(meta, pend{ep, cid, pub, size})
			}
		}
		if len(ps) >= 40 && !flush() {
			return
		}
	}
	if !flush() {
		return
	}
	rawCheck := func(when string) {
		have := map[string]bool{}
		for k := range e.w.Dump(e.w.ByH[e.cn].ID) {
			if strings.HasPrefix(k, "cnr") {
				have[k] = true
			}
		}
		missing, surplus := 0, 0
		for k := range e.ests {
			if !have[k] {
				missing++
			}
		}
		for k := range have {
			if e.ests[k] == nil {
				surplus++
			}
		}
		if missing > 0 || surplus > 0 {
			b.Violation(fmt.Sprintf("%s: the Container contract stores %d estimations, the model %d (%d put and not cleaned up are missing, %d are there although cleaned up or never put)", when, len(have), len(e.ests), missing, surplus), nil)
		}
		b.Eval(fmt.Sprintf("est.bulk|%s|%d", when, len(have)/256), true)
	}
	rawCheck(fmt.Sprintf("after %d announcements", int(per)*len(cids)*len(nodes)))
	readBack := func(when string, want int) {
		for _, ep := range []int64{base, base + per/2, base + per - 1} {
			ra := e.w.Read(e.cn, "iterateAllContainerSizes", ep)
			b.Read(1)
			// (epochs whose low byte equals another bulk epoch's whole encoding cannot occur: all of them are beyond 255
			// or the window is shorter than 256)
			if !ra.OK() {
				b.Violation(fmt.Sprintf("iterateAllContainerSizes(%d) does not answer %s: %s", ep, when, ra.Err), nil)
			} else if n := len(world.Arr(ra.Top())); (want == 0 && n != 0) || (want > 0 && n < want) {
				b.Violation(fmt.Sprintf("iterateAllContainerSizes(%d) returns %d entries %s, expected %d", ep, n, when, want), nil)
			}
		}
	}
	readBack("before the tick", len(cids)*len(nodes))
	n := len(e.ests)
	e.tick(base + per + 10)
	rawCheck(fmt.Sprintf("after the tick that outdates %d estimations", n))
	readBack("after the tick", 0)
	b.Hit("more-than-1024-estimations-outdated-by-one-tick")
}

func estRender(from []byte, size int64) string { return fmt.Sprintf("%x/%d", from, size) }

// estHugeEpochs: estimations for epoch numbers that need 8 and 9 bytes as NeoVM integers (2^63-1, 2^63,
// 2^64-1), outside the int64 model of the sweeps: a self-contained probe — put by a node of the previous map,
// then the iterator and the list+get API must both return exactly that entry (seeded change C20-7).
func (e *env) estHugeEpochs() {
	b := e.b
	var node *keys.PrivateKey
	for _, n := range e.nodes {
		if e.inPrevMap(n.PublicKey().Bytes()) {
			node = n
			break
		}
	}
	if node == nil {
		return
	}
	pub := node.PublicKey().Bytes()
	cid := e.cids[0]
	for i, ep := range []*big.Int{new(big.Int).SetUint64(1<<63 - 1), new(big.Int).SetUint64(1 << 63), new(big.Int).SetUint64(1<<64 - 1)} {
		size := int64(7000 + i)
		r := e.w.Invoke([]world.SignerSpec{world.G(world.Single(node))}, e.cn, "putContainerSize", ep, cid, size, pub)
		b.Tx(1)
		if !r.Halted() {
			b.Observe(fmt.Sprintf("putContainerSize for the %d-bit epoch is refused", ep.BitLen()))
			continue
		}
		want := estRender(pub, size)
		ids := e.w.Read(e.cn, "listContainerSizes", ep)
		found := 0
		for _, idh := range itemsHex(ids.Top()) {
			id, _ := hex.DecodeString(idh)
			g := e.w.Read(e.cn, "getContainerSize", id)
			f := world.Arr(g.Top())
			if !g.OK() || len(f) != 2 {
				b.Violation(fmt.Sprintf("getContainerSize does not answer for an id listed under epoch %s: %s", ep, g.Err), e.detail(r))
				continue
			}
			for _, es := range world.Arr(f[1]) {
				if ef := world.Arr(es); len(ef) == 2 && estRender(world.Bytes(ef[0]), world.Int64(ef[1])) == want {
					found++
				}
			}
		}
		if !ids.OK() || found != 1 {
			b.Violation(fmt.Sprintf("an estimation put under epoch %s is returned %d times by listContainerSizes + getContainerSize (%s)", ep, found, ids.Err), e.detail(r))
		}
		b.Read(2)
		b.Hit("estimation-under-a-9-byte-epoch")
		b.Eval(fmt.Sprintf("est.huge|bits%d", ep.BitLen()), true)
	}
}

func (e *env) estSweep(tr *world.TxResult) {
	for _, ep := range epochPool {
		prefix := "cnr" + string(enc(ep))
		// listContainerSizes: ids = key minus 10-byte postfix
		wantIDs := map[string]bool{}
		allowedIDs := map[string]bool{}
		var wantAll []string
		allowedAll := map[string]bool{}
		for _, x := range e.ests {
			id := hx([]byte(x.key[:len(x.key)-10]))
			rem := ""
			if strings.HasPrefix(x.key, prefix) {
				rem = hx([]byte(x.key[len(prefix):])) + "=" + estRender(x.node, x.size)
			}
			if x.epoch == ep {
				wantIDs[id] = true
				wantAll = append(wantAll, rem)
			} else if strings.HasPrefix(x.key, prefix) {
				allowedIDs[id] = true
				allowedAll[rem] = true
			}
		}
		var w []string
		for k := range wantIDs {
			w = append(w, k)
		}
		r := e.w.Read(e.cn, "listContainerSizes", ep)
		if !r.OK() {
			e.b.Violation(fmt.Sprintf("listContainerSizes(%d) does not answer: %s", ep, r.Err), nil)
		} else {
			e.judgeSet(fmt.Sprintf("container.listContainerSizes(%d)", ep), "epoch-prefix-aliasing-container", itemsHex(r.Top()), w, allowedIDs, false, tr)
			// getContainerSize for every returned id that belongs to the epoch
			for _, idh := range itemsHex(r.Top()) {
				if !wantIDs[idh] {
					continue
				}
				id, _ := hex.DecodeString(idh)
				g := e.w.Read(e.cn, "getContainerSize", id)
				f := world.Arr(g.Top())
				if !g.OK() || len(f) != 2 {
					e.b.Violation("getContainerSize does not answer: "+g.Err, nil)
					continue
				}
				var got, want []string
				al := map[string]bool{}
				for _, es := range world.Arr(f[1]) {
					ef := world.Arr(es)
					if len(ef) == 2 {
						got = append(got, estRender(world.Bytes(ef[0]), world.Int64(ef[1])))
					}
				}
				for _, x := range e.ests {
					if x.key[:len(x.key)-10] == string(id) {
						want = append(want, estRender(x.node, x.size))
					} else if strings.HasPrefix(x.key, string(id)) {
						al[estRender(x.node, x.size)] = true
					}
				}
				e.judgeSet(fmt.Sprintf("container.getContainerSize(%s…)", idh[:12]), "epoch-prefix-aliasing-container", got, want, al, false, tr)
			}
		}
		ra := e.w.Read(e.cn, "iterateAllContainerSizes", ep)
		if !ra.OK() {
			e.b.Violation(fmt.Sprintf("iterateAllContainerSizes(%d) does not answer: %s", ep, ra.Err), nil)
		} else {
			var got []string
			for _, kv := range world.Arr(ra.Top()) {
				f := world.Arr(kv)
				if len(f) == 2 {
					ef := world.Arr(f[1])
					if len(ef) == 2 {
						got = append(got, hx(world.Bytes(f[0]))+"="+estRender(world.Bytes(ef[0]), world.Int64(ef[1])))
					}
				}
			}
			e.judgeSet(fmt.Sprintf("container.iterateAllContainerSizes(%d)", ep), "epoch-prefix-aliasing-container", got, wantAll, allowedAll, false, tr)
		}
		for _, cid := range e.cids {
			ri := e.w.Read(e.cn, "iterateContainerSizes", ep, cid)
			if !ri.OK() {
				e.b.Violation("iterateContainerSizes does not answer: "+ri.Err, nil)
				continue
			}
			var got, want []string
			al := map[string]bool{}
			for _, es := range world.Arr(ri.Top()) {
				ef := world.Arr(es)
				if len(ef) == 2 {
					got = append(got, estRender(world.Bytes(ef[0]), world.Int64(ef[1])))
				}
			}
			p := prefix + string(cid)
			for _, x := range e.ests {
				if x.epoch == ep && bytes.Equal(x.cid, cid) {
					want = append(want, estRender(x.node, x.size))
				} else if strings.HasPrefix(x.key, p) {
					al[estRender(x.node, x.size)] = true
				}
			}
			e.judgeSet(fmt.Sprintf("container.iterateContainerSizes(%d, %x…)", ep, cid[:4]), "epoch-prefix-aliasing-container", got, want, al, false, tr)
		}
	}
}

// tick advances the Netmap epoch (fan-out reaches Container.newEpoch: total clean-up).
func (e *env) tick(ep int64) {
	b := e.b
	r := e.w.Invoke(e.w.Alpha(), e.nm, "newEpoch", ep)
	b.Tx(1)
	if !r.Halted() {
		b.Inconclusive(fmt.Sprintf("tick %d failed: %s", ep, r.Fault))
		return
	}
	e.epoch = ep
	m := map[string]bool{}
	for k := range e.cands {
		m[k] = true
	}
	e.prevMap, e.curMap = e.curMap, m
	for k, x := range e.ests {
		switch {
		case ep-x.epoch > 4:
			delete(e.ests, k)
			b.Hit("estimation-total-cleanup-fired")
		case ep-x.epoch == 4:
			b.Hit("estimation-total-cleanup-boundary-kept")
		}
	}
	b.Eval(fmt.Sprintf("tick|%d", len(e.ests)), true)
	e.estSweep(r)
}

// ---------------------------------------------------------------- neofsid

func (e *env) idOp(add bool, owner []byte, ks [][]byte, alphaClass int) {
	b := e.b
	s, aw, sd := e.alphaSigners(alphaClass)
	// ks == nil is passed as Null (the statement does not say whether that is a refusal or an empty list:
	// either is accepted, the key sets must stay what they were), an empty slice as an empty array
	var args any
	ok := len(owner) == 25
	if ks != nil {
		a := make([]any, len(ks))
		for i, k := range ks {
			a[i] = k
			if len(k) != 33 {
				ok = false
			}
		}
		args = a
	}
	m := "addKey"
	if !add {
		m = "removeKey"
	}
	r := e.w.Invoke(s, e.fsid, m, owner, args)
	b.Tx(1)
	switch {
	case ks == nil && aw && ok:
		b.Observe(fmt.Sprintf("neofsid.%s with Null instead of a key list: %s", m, r.State))
		b.Hit("neofsid-null-key-list")
	case (aw && ok) != r.Halted():
		b.Violation(fmt.Sprintf("neofsid.%s by %s (well-formed=%v): %s %s", m, sd, ok, r.State, r.Fault), e.detail(r))
	}
	if len(ks) == 0 && ks != nil && r.Halted() {
		b.Hit("neofsid-empty-key-list")
	}
	if r.Halted() {
		if e.idKeys[string(owner)] == nil {
			e.idKeys[string(owner)] = map[string]bool{}
		}
		for _, k := range ks {
			if add {
				e.idKeys[string(owner)][hx(k)] = true
			} else {
				delete(e.idKeys[string(owner)], hx(k))
			}
		}
		b.Hit("neofsid." + m)
	} else if !r.Diff.Empty() {
		b.Violation("failed neofsid call changed storage", e.detail(r))
	}
	b.Eval(fmt.Sprintf("neofsid.%s|%s|ok%v|%s", m, sd, ok, r.State), true)
	for _, o := range e.owners {
		rd := e.w.Read(e.fsid, "key", o)
		if !rd.OK() {
			b.Violation("neofsid.key does not answer: "+rd.Err, nil)
			continue
		}
		var want []string
		for k := range e.idKeys[string(o)] {
			want = append(want, k)
		}
		e.judgeSet(fmt.Sprintf("neofsid.key(%x…)", o[:4]), "none", itemsHex(rd.Top()), want, nil, false, r)
	}
}

// ---------------------------------------------------------------- configuration

func (e *env) cfgOp(netmap bool, key, val []byte, alphaClass int) {
	b := e.b
	s, aw, sd := e.alphaSigners(alphaClass)
	h, model, name := e.nm, e.nmCfg, "netmap"
	if !netmap {
		h, model, name = e.nfs, e.nfsCfg, "neofs"
	}
	e.seq++
	var id any = []byte{byte(e.seq), byte(e.seq >> 8)}
	switch e.b.Rng.IntN(5) {
	case 0:
		id = []byte("one event for several keys") // ids may come back: the id names the event, not the key
	case 1:
		id = nil
	}
	r := e.w.Invoke(s, h, "setConfig", id, key, val)
	b.Tx(1)
	if aw != r.Halted() {
		b.Violation(fmt.Sprintf("%s.setConfig by %s: %s %s", name, sd, r.State, r.Fault), e.detail(r))
	}
	if r.Halted() {
		model[string(key)] = val
		b.Hit(name + ".setConfig")
	} else if !r.Diff.Empty() {
		b.Violation("failed setConfig changed storage", e.detail(r))
	}
	b.Eval(fmt.Sprintf("%s.setConfig|%s|k%d|%s", name, sd, len(key), r.State), true)
	for _, k := range e.cfgKeys {
		rd := e.w.Read(h, "config", k)
		b.Read(1)
		v, ok := model[string(k)]
		switch {
		case !rd.OK():
			b.Violation(fmt.Sprintf("%s.config(%q) does not answer: %s", name, k, rd.Err), nil)
		case !ok && !world.IsNull(rd.Top()):
			b.Violation(fmt.Sprintf("%s.config(%q) returns a value for a key that was never set", name, k), map[string]any{"got": world.RenderItems(rd.Stack)})
		case ok && len(v) == 0 && world.IsNull(rd.Top()):
			b.Observe("config() answers null for a key stored with an empty value")
		case ok && (world.IsNull(rd.Top()) || !bytes.Equal(world.Bytes(rd.Top()), v)):
			b.Violation(fmt.Sprintf("%s.config(%q) = %v, last value set is %x", name, k, world.RenderItems(rd.Stack), v), nil)
		}
	}
	rd := e.w.Read(h, "listConfig")
	if !rd.OK() {
		b.Violation(name+".listConfig does not answer: "+rd.Err, nil)
		return
	}
	var got, want []string
	for _, rec := range world.Arr(rd.Top()) {
		f := world.Arr(rec)
		if len(f) == 2 {
			got = append(got, hx(world.Bytes(f[0]))+"="+hx(world.Bytes(f[1])))
		}
	}
	for k, v := range model {
		want = append(want, hx([]byte(k))+"="+hx(v))
	}
	e.judgeSet(name+".listConfig()", "none", got, want, nil, false, r)
}

// ---------------------------------------------------------------- run

func ownerID(sh util.Uint160) []byte {
	b := append([]byte{0x35}, sh.BytesBE()...)
	return append(b, 1, 2, 3, 4)
}

func runC20(b *runner.Batch) {
	n := []int{4, 1, 3, 7}[b.Index%4]
	w, err := world.New(world.Options{N: n, Seed: b.Seed, Batch: b.Index})
	if err != nil {
		b.Inconclusive("world: " + err.Error())
		return
	}
	defer w.Close()
	w.SysFee = 60_0000_0000
	e := &env{b: b, w: w, repCnt: map[string]int{}, audits: map[string]*auditEntry{}, ests: map[string]*estEntry{}, idKeys: map[string]map[string]bool{},
		nmCfg: map[string][]byte{}, nfsCfg: map[string][]byte{}, prevMap: map[string]bool{}, curMap: map[string]bool{}, cands: map[string]bool{}}
	// Inner Ring = 3 dedicated keys (not the committee)
	for i := 0; i < 3; i++ {
		e.irs = append(e.irs, world.Key(b.Seed, b.Index, "ir", i))
	}
	nmCfg := []any{[]byte("ContainerFee"), int64(0), []byte("ContainerAliasFee"), int64(0)}
	if err := w.DeployFS(b.Set, world.FSOptions{Contracts: []string{"netmap", "balance", "neofsid", "container", "reputation", "audit"}, NetmapConfig: nmCfg, IR: world.Pubs(e.irs)}); err != nil {
		b.Inconclusive("deploy: " + err.Error())
		return
	}
	e.rep, e.aud, e.cn, e.fsid, e.nm, e.bal = w.H("reputation"), w.H("audit"), w.H("container"), w.H("neofsid"), w.H("netmap"), w.H("balance")
	// main-chain NeoFS contract for its configuration map (notary mode)
	proc := util.Uint160{9, 9, 9}
	pubsArg := make([]any, len(w.Pubs))
	for i := range w.Pubs {
		pubsArg[i] = w.Pubs[i].Bytes()
	}
	d, err := w.Deploy("neofs", b.Set["neofs"], []any{false, proc, pubsArg, []any{}})
	if err != nil {
		b.Inconclusive("deploy neofs: " + err.Error())
		return
	}
	e.nfs = d.Hash
	b.HistoryFn = func() []any {
		var res []any
		h := w.History
		if len(h) > 60 {
			h = h[len(h)-60:]
		}
		for _, r := range h {
			res = append(res, w.RenderResult(r, true))
		}
		return res
	}
	// prime the Netmap configuration model with what the deployment stored
	if rd := w.Read(e.nm, "listConfig"); rd.OK() {
		for _, rec := range world.Arr(rd.Top()) {
			if f := world.Arr(rec); len(f) == 2 {
				e.nmCfg[string(world.Bytes(f[0]))] = world.Bytes(f[1])
			}
		}
	}
	for i := 0; i < 4; i++ {
		e.nodes = append(e.nodes, world.Key(b.Seed, b.Index, "snode", i))
	}
	// containers: two live, one never created
	ownerKey := world.Key(b.Seed, b.Index, "cowner", 0)
	oid := ownerID(world.Hash160Of(ownerKey))
	for i := 0; i < 3; i++ {
		blob := append([]byte{0x0a, 0x02, 1, 2, 0x12, 0x1b, 0x0a, 0x19}, oid...)
		blob = append(blob, byte(i), byte(b.Index), 0x33)
		cid := sha256.Sum256(blob)
		e.cids = append(e.cids, cid[:])
		if i < 2 {
			r := w.Invoke(w.Alpha(), e.cn, "put", blob, bytes.Repeat([]byte{1}, 64), ownerKey.PublicKey().Bytes(), []byte{1})
			if !r.Halted() {
				b.Inconclusive("container put: " + r.Fault)
				return
			}
		}
	}
	// owners for neofsid, peers for reputation (incl. ids that are byte-prefixes of one another), config keys
	for i := 0; i < 3; i++ {
		e.owners = append(e.owners, ownerID(world.Hash160Of(world.Key(b.Seed, b.Index, "idowner", i))))
	}
	p0 := e.nodes[0].PublicKey().Bytes()
	p1 := e.nodes[1].PublicKey().Bytes()
	e.peers = [][]byte{p0, p1, p0[:8], p0[:9], append([]byte{1}, p1...)}
	e.cfgKeys = [][]byte{[]byte("ContainerFee"), []byte("Container"), []byte("ContainerFeeX"), []byte("K"), []byte("KK"), []byte("Never"), []byte("ContainerAliasFee")}

	// storage nodes: 0,1 join now; 2 joins later; 3 never
	addNode := func(i int) {
		pub := e.nodes[i].PublicKey().Bytes()
		blob := append(append([]byte{0x0a, 0x21}, pub...), 0x01, byte(i))
		r := w.Invoke(w.Alpha(), e.nm, "addPeerIR", blob)
		if !r.Halted() {
			b.Inconclusive("addPeerIR: " + r.Fault)
		}
		e.cands[hx(pub)] = true
	}
	addNode(0)
	addNode(1)
	e.tick(1)
	e.tick(2) // nodes 0,1 are in snapshot(1) now
	addNode(2)
	e.tick(3) // node 2 is in the current map but not in the previous one

	// canonical scenario
	e.repPut(1, p0, []byte("v1"), 0)
	e.repPut(257, p0, []byte("v257"), 0)
	e.repPut(65537, p0, []byte("v65537"), 0)
	e.repPut(1, p0, []byte("v1b"), 0)
	e.repPut(1, p0, []byte("x"), 3)
	e.auditPut(1, e.cids[0], e.irs[0], true, true)
	e.auditPut(257, e.cids[0], e.irs[1], true, true)
	e.auditPut(1, e.cids[1], e.nodes[0], false, true)
	e.estPut(3, e.cids[0], true, e.nodes[0], true, 100)
	e.estPut(3, e.cids[0], true, e.nodes[2], true, 100) // node outside the previous map
	e.estPut(3, e.cids[2], false, e.nodes[0], true, 5)  // container does not exist
	e.estPut(3, e.cids[0], true, e.nodes[1], false, 5)  // not witnessed
	e.estPut(6, e.cids[0], true, e.nodes[0], true, 101) // 6-3 = 3: kept
	e.estPut(7, e.cids[0], true, e.nodes[0], true, 102) // 7-3 = 4 > 3: epoch 3 entry of this node goes
	e.estPut(3, e.cids[1], true, e.nodes[1], true, 7)
	e.tick(7) // 7-3 = 4: kept
	e.tick(8) // 8-3 = 5 > 4: removed
	e.idOp(true, e.owners[0], [][]byte{p0, p1}, 0)
	e.idOp(false, e.owners[0], [][]byte{p0}, 0)
	e.cfgOp(true, []byte("K"), []byte("1"), 0)
	e.cfgOp(true, []byte("KK"), []byte("2"), 0)
	e.cfgOp(false, []byte("K"), []byte("3"), 0)

	if b.Index%12 == 3 {
		defer e.estHugeEpochs()
	}
	// a few batches stack values on one key past the encoding boundaries of the sequence number
	if b.Index%24 == 7 {
		n := 130
		if b.Thorough() && b.Index%48 == 7 {
			n = 260
		}
		e.repBulk(runner.Pick(b.Rng, []int64{1, 257}), e.peers[0], n)
	}
	if b.Index%24 == 11 {
		e.estBulk()
	}
	nops := 120
	if b.Thorough() {
		nops = 300
	}
	gone := map[int]bool{}
	for i := 0; i < nops && b.NViolations() == 0; i++ {
		r := b.Rng
		switch k := r.IntN(20); {
		case k < 5:
			e.seq++
			e.repPut(runner.Pick(r, epochPool), runner.Pick(r, e.peers), []byte(fmt.Sprintf("val-%d", e.seq)), e.pickAlpha(8))
		case k < 9 && r.IntN(12) == 0:
			e.auditRotation()
		case k < 9:
			isIR := r.IntN(5) != 0
			from := runner.Pick(r, e.irs)
			if !isIR {
				from = runner.Pick(r, e.nodes)
			}
			e.auditPut(runner.Pick(r, epochPool), runner.Pick(r, e.cids), from, isIR, r.IntN(6) != 0)
		case k < 14:
			ci := r.IntN(len(e.cids))
			ep := runner.Pick(r, epochPool)
			if r.IntN(2) == 0 {
				ep = e.epoch + int64(r.IntN(9)) - 4
				if ep < 0 {
					ep = 0
				}
			}
			if ci < 2 && !gone[ci] && r.IntN(25) == 0 {
				// the container is removed: its estimations are not "older than the documented deltas" by that, they stay
				// until the ticks that clean them up; new ones are refused (seeded change C20-9)
				if dr := e.w.Invoke(e.w.Alpha(), e.cn, "delete", e.cids[ci], bytes.Repeat([]byte{3}, 64), []byte{}); dr.Halted() {
					gone[ci] = true
					b.Hit("container-with-estimations-removed")
					e.estSweep(dr)
				} else {
					b.Inconclusive("container delete: " + dr.Fault)
				}
				b.Tx(1)
				continue
			}
			e.estPut(ep, e.cids[ci], ci < 2 && !gone[ci], runner.Pick(r, e.nodes), r.IntN(6) != 0, int64(r.IntN(1000)))
		case k < 16:
			next := e.epoch + 1
			if r.IntN(3) == 0 {
				// jump next to a pool epoch so that the clean-up boundary is hit there
				for _, p := range epochPool {
					if p > e.epoch && p < 1<<30 {
						next = p + int64(r.IntN(6))
						break
					}
				}
			}
			if next > e.epoch {
				e.tick(next)
			}
		case k < 18:
			ks := [][]byte{runner.Pick(r, e.nodes).PublicKey().Bytes()}
			if r.IntN(3) == 0 {
				ks = append(ks, runner.Pick(r, e.nodes).PublicKey().Bytes())
			}
			switch r.IntN(14) {
			case 0:
				ks = [][]byte{} // nothing to bind or unbind
			case 1:
				ks = nil // Null
			case 2:
				ks = append(ks, ks[0]) // the same key twice in one call
				b.Hit("neofsid-duplicate-key-in-one-call")
			}
			if r.IntN(10) == 0 && len(ks) > 0 {
				ks[0] = ks[0][:32]
			}
			o := runner.Pick(r, e.owners)
			if r.IntN(12) == 0 {
				o = o[:24]
			}
			e.idOp(r.IntN(3) != 0, o, ks, e.pickAlpha(8))
		default:
			e.seq++
			v := []byte(fmt.Sprintf("%d", e.seq))
			nmSide, key := r.IntN(2) == 0, runner.Pick(r, e.cfgKeys[:5])
			if r.IntN(4) == 0 {
				// a value that differs from the stored one only in bytes that do not change it as a number (sign
				// extension: 04 / 0400, ff / ffff, empty / 00), the stored value once more, or one of the fixed-width
				// forms network parameters come in (seeded change C20-8: "already in effect" decided numerically)
				cur := e.nfsCfg[string(key)]
				if nmSide {
					cur = e.nmCfg[string(key)]
				}
				switch k := r.IntN(5); {
				case k == 0 && len(cur) > 0 && cur[len(cur)-1]&0x80 == 0:
					v = append(append([]byte{}, cur...), 0)
				case k == 1 && len(cur) > 0 && cur[len(cur)-1]&0x80 != 0:
					v = append(append([]byte{}, cur...), 0xff)
				case k == 2 && len(cur) > 1 && (cur[len(cur)-1] == 0 && cur[len(cur)-2]&0x80 == 0 || cur[len(cur)-1] == 0xff && cur[len(cur)-2]&0x80 != 0):
					v = append([]byte{}, cur[:len(cur)-1]...)
				case k == 3:
					v = append([]byte{}, cur...)
				default:
					v = runner.Pick(r, [][]byte{{}, {0}, {0, 0, 0, 4}, {0, 0, 0, 4, 0, 0, 0, 0}, {0xff}, {0xff, 0xff}, {1}, {1, 0}})
				}
				b.Hit("config-value-numerically-equal-or-identical")
			}
			e.cfgOp(nmSide, key, v, e.pickAlpha(8))
		}
		b.State(fmt.Sprintf("rep%d aud%d est%d", len(e.reps)/4, len(e.audits)/2, len(e.ests)))
	}
	if b.Index < 2 {
		h := b.HistoryFn()
		if len(h) > 6 {
			h = h[len(h)-6:]
		}
		b.Sample(map[string]any{"committee": n, "tail_of_history": h})
	}
}

func init() {
	runner.Register(&runner.Check{
		ID: "C20", Level: "exploration",
		Rule: "PRNG multisets of puts over epochs {0,1,127,128,255,256,257,65535,65536,65537,2^31-1,...} (encodings of different lengths sharing prefixes), 3 containers (one missing), 4 storage nodes (in / newly in / outside the previous network map), 3 Inner Ring keys, peer ids that are byte prefixes of one another, prefix-related configuration keys, interleaved with epoch ticks (incl. jumps next to pool epochs so both clean-up boundaries are hit), key removals and unauthorised callers; after every operation every getter/lister of the contract just touched is read for every epoch/cid/node/owner/key of the pools and compared with plain multimap models (order-sensitive for reputation values). distinct = (operation, signer class, epoch / key class, outcome). Six batches per quick run announce 1056 estimations (descending epochs, many per block) and outdate all of them by one tick; the raw estimation keys of the Container contract are compared with the model before and after.",
		Assumptions: []string{"neo-go v0.107.0 VM, ledger and native contracts are the trusted base", "contracts are compiled at check time from /repo/contracts",
			"known-finding matcher: a listing may contain extra entries only if each of them was really put under another (epoch, id) tuple whose raw storage key starts with the queried raw prefix; missing entries, never-stored entries, wrong clean-up boundaries and unauthorised puts stay violations"},
		Batches: func(t string) int {
			if t == "thorough" {
				return 1024
			}
			return 144
		},
		Chunk: 4,
		Floors: []string{"reputation.put", "audit.put", "audit.put-refused-non-member", "reputation-values-on-one-key>=128", "estimation-under-a-9-byte-epoch", "audit.put-outsider-result-co-signed-by-a-member", "audit.put-right-after-inner-ring-rotation", "estimation.put", "estimation-refused-node-outside-previous-map", "estimation-node-cleanup-fired", "estimation-node-cleanup-boundary-kept",
			"estimation-total-cleanup-fired", "estimation-total-cleanup-boundary-kept", "neofsid.addKey", "neofsid.removeKey", "netmap.setConfig", "neofs.setConfig"},
		Run: runC20,
	})
}
