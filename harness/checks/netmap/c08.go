package netmap

import (
	"encoding/binary"
	"fmt"
	"strings"

	"verif/harness/runner"
	"verif/harness/world"
)

type resize struct {
	at    int64 // epoch after whose tick the resize is issued (0 = before any tick)
	count int64
}

type c08History struct {
	resizes []resize
	extra   int64 // ticks after the last resize
	random  bool
	// gaps: in epochs e with e%6 in {4,5} nobody is a candidate, the published maps are empty (seeded change
	// C08-7: an empty map not written over what the slot held one ring turn earlier)
	gaps bool
}

func (h c08History) String() string {
	var s []string
	for _, r := range h.resizes {
		s = append(s, fmt.Sprintf("count->%d@epoch%d", r.count, r.at))
	}
	if h.gaps {
		s = append(s, "empty maps at epochs 4,5 mod 6")
	}
	return strings.Join(s, ", ")
}

const c08MaxCount = 12
const c08MaxEpoch = 30

func c08Singles() []c08History {
	var res []c08History
	for c := int64(0); c <= c08MaxCount; c++ {
		for t := int64(0); t <= c08MaxEpoch; t++ {
			res = append(res, c08History{resizes: []resize{{t, c}}, extra: 14, gaps: (c+t)%2 == 1})
		}
	}
	return res
}

// all two-resize histories in lexicographic order; index -> history
func c08DoubleCount() int {
	return 13 * 13 * (31 * 32 / 2)
}

func c08Double(idx int) c08History {
	pairs := 31 * 32 / 2
	p := idx % pairs
	idx /= pairs
	c2 := int64(idx % 13)
	c1 := int64(idx / 13)
	// p -> (t1 <= t2)
	var t1, t2 int64
	for t1 = 0; t1 <= c08MaxEpoch; t1++ {
		n := int(c08MaxEpoch - t1 + 1)
		if p < n {
			t2 = t1 + int64(p)
			break
		}
		p -= n
	}
	return c08History{resizes: []resize{{t1, c1}, {t2, c2}}, extra: 14, gaps: (c1+c2+t1+t2)%2 == 1}
}

const c08Quick2 = 600
const c08QuickNear = 600 // quick: two resizes close together with counts next to each other (seeded change C08-2)
const c08ChunkQ = 25     // histories per batch (quick)
const c08ChunkT = 200    // histories per batch (thorough, doubles)
const c08RandomT = 256   // random long histories (thorough)

func c08Batches(tier string) int {
	if tier == "thorough" {
		return (403+c08ChunkQ-1)/c08ChunkQ + (c08DoubleCount()+c08ChunkT-1)/c08ChunkT + c08RandomT/4
	}
	return (403+c08ChunkQ-1)/c08ChunkQ + c08Quick2/c08ChunkQ + c08QuickNear/c08ChunkQ
}

// c08Near draws a two-resize history in which the second resize follows the first within
// 0..2 ticks and the counts are neighbours of the previous count: the region where the
// slots emptied or moved by the first resize are still as it left them.
func c08Near(b *runner.Batch) c08History {
	near := func(c int64) int64 {
		var d int64
		switch b.Rng.IntN(6) {
		case 0:
			d = 1
		case 1:
			d = -1
		case 2:
			d = 2
		case 3:
			d = -2
		case 4:
			d = 3
		default:
			return int64(b.Rng.IntN(c08MaxCount + 1))
		}
		return min(max(c+d, 0), c08MaxCount)
	}
	c1 := near(10) // the deployed default
	c2 := near(c1)
	t1 := int64(b.Rng.IntN(c08MaxEpoch + 1))
	t2 := min(t1+int64(b.Rng.IntN(3)), c08MaxEpoch)
	return c08History{resizes: []resize{{t1, c1}, {t2, c2}}, extra: 14}
}

func runC08(b *runner.Batch) {
	singles := c08Singles()
	nSingleBatches := (len(singles) + c08ChunkQ - 1) / c08ChunkQ
	var hs []c08History
	switch {
	case b.Index < nSingleBatches:
		lo := b.Index * c08ChunkQ
		hi := min(lo+c08ChunkQ, len(singles))
		hs = singles[lo:hi]
		b.HitN("single-resize-histories", len(hs))
	case !b.Thorough() && b.Index < nSingleBatches+c08Quick2/c08ChunkQ:
		// PRNG-chosen two-resize histories (determined by seed and batch index)
		for i := 0; i < c08ChunkQ; i++ {
			hs = append(hs, c08Double(b.Rng.IntN(c08DoubleCount())))
		}
		b.HitN("double-resize-histories", len(hs))
	case !b.Thorough():
		for i := 0; i < c08ChunkQ; i++ {
			hs = append(hs, c08Near(b))
		}
		b.HitN("double-resize-histories", len(hs))
		// three resizes: a small ring that has wrapped is made longer and, 0-2 ticks later, shorter again but not as
		// short as it was — the older maps then sit at the end of the longer ring although fewer epochs than its length
		// have passed (seeded change C08-10: "the ring was never filled, nothing to move")
		for i := 0; i < 5; i++ {
			c1 := int64(1 + b.Rng.IntN(5))
			t0 := int64(b.Rng.IntN(3))
			t1 := t0 + c1 + int64(1+b.Rng.IntN(3))
			c2 := c1 + int64(3+b.Rng.IntN(4))
			t2 := t1 + int64(b.Rng.IntN(3))
			c3 := c1 + int64(b.Rng.IntN(int(c2-c1)))
			hs[c08ChunkQ-2-i] = c08History{resizes: []resize{{t0, c1}, {t1, c2}, {t2, c3}}, extra: 6}
		}
		b.Hit("wrapped-small-ring-grown-then-shrunk")
		if b.Index == nSingleBatches+c08Quick2/c08ChunkQ {
			// a ring of more than 128 slots, filled, cut down and grown again: slot numbers above 127 are the first
			// whose one-byte key is not what an integer-to-string conversion yields (seeded change C08-8)
			hs = append(hs[:c08ChunkQ-1:c08ChunkQ-1], c08History{resizes: []resize{{0, 131}, {133, 3}, {134, 131}}, extra: 3})
			b.Hit("history-with-more-than-128-slots")
		}
	default:
		k := b.Index - nSingleBatches
		nDouble := (c08DoubleCount() + c08ChunkT - 1) / c08ChunkT
		if k < nDouble {
			lo := k * c08ChunkT
			hi := min(lo+c08ChunkT, c08DoubleCount())
			for i := lo; i < hi; i++ {
				hs = append(hs, c08Double(i))
			}
			b.HitN("double-resize-histories", len(hs))
		} else {
			for i := 0; i < 4; i++ {
				h := c08History{random: true, extra: 15}
				at := int64(0)
				for j := 0; j < 5; j++ {
					at += int64(b.Rng.IntN(25))
					h.resizes = append(h.resizes, resize{at, int64(b.Rng.IntN(c08MaxCount + 1))})
				}
				hs = append(hs, h)
			}
			b.HitN("random-long-histories", len(hs))
			if k == nDouble {
				hs = append(hs, c08History{resizes: []resize{{0, 131}, {133, 3}, {134, 131}}, extra: 3},
					c08History{resizes: []resize{{0, 200}, {210, 127}, {212, 129}, {215, 200}}, extra: 3})
				b.Hit("history-with-more-than-128-slots")
			}
		}
	}
	for i, h := range hs {
		if b.NViolations() > 0 {
			break
		}
		if len(h.resizes) == 2 && h.resizes[1].at-h.resizes[0].at <= 2 {
			b.Hit("near-double-resize-histories")
		}
		runC08History(b, h, i == 0 && b.Index < 3)
	}
}

func runC08History(b *runner.Batch, h c08History, sample bool) {
	e, err := newEnv(b, 1, []string{"netmap"})
	if err != nil {
		b.Inconclusive("world: " + err.Error())
		return
	}
	defer e.w.Close()
	e.w.KeepHistory = false
	var ops []string
	b.HistoryFn = func() []any { return []any{"history: " + h.String(), ops} }
	last := h.resizes[len(h.resizes)-1].at
	total := last + h.extra
	e.addNodeKeys(int(total) + 1)
	ri := 0
	sweeping := false
	doResizes := func(epoch int64) {
		for ri < len(h.resizes) && h.resizes[ri].at == epoch {
			c := h.resizes[ri].count
			ri++
			r := e.w.Invoke(e.w.Alpha(), e.nm, "updateSnapshotCount", c)
			b.Tx(1)
			ops = append(ops, fmt.Sprintf("updateSnapshotCount(%d) at epoch %d: %s %s", c, epoch, r.State, r.Fault))
			old := e.m.n
			class := "grow"
			switch {
			case c == old:
				class = "same"
			case c < old && e.m.epoch < old:
				class = "shrink-before-wrap"
			case c < old:
				class = "shrink"
			}
			if r.Halted() {
				if c == old {
					b.Violation(fmt.Sprintf("updateSnapshotCount(%d) with an unchanged count succeeded", c), e.detail([]*world.TxResult{r}, nil))
				}
				e.m.n = c
				e.m.wL = min(e.m.wL, c)
				e.m.w2 = min(e.m.w2, c)
				b.Hit("resize-accepted:" + class)
				if old > c && e.m.epoch >= old {
					b.Hit("shrink-after-wrap")
				}
			} else {
				if !r.Diff.Empty() {
					b.Violation("failed updateSnapshotCount changed storage", e.detail([]*world.TxResult{r}, nil))
				}
				b.Hit("resize-refused:" + class)
				if c != old && c > 0 {
					b.Observe(fmt.Sprintf("updateSnapshotCount faulted for a new positive count (%s)", strings.SplitN(r.Fault, ":", 2)[0]))
				}
			}
			b.Eval(fmt.Sprintf("resize|%d->%d|epoch%d|wL%d|%s", old, c, e.m.epoch, e.m.wL, r.State), true)
			sweeping = true
			e.sweep(h, ops)
			e.scanNetmapStorage(h, ops)
		}
	}
	doResizes(0)
	for ep := int64(1); ep <= total && b.NViolations() == 0; ep++ {
		// node `ep` joins (both lists), node ep-3 leaves, then the tick — one block
		nk := e.nodes[ep]
		ph := fmt.Sprintf("%x", nk.pub)
		blob := e.blob(nk.pub)
		addrs := []string{fmt.Sprintf("grpc://epoch%d", ep)}
		attrs := map[string]string{"epoch": fmt.Sprint(ep)}
		var ps []*world.Pending
		if h.gaps && (ep%6 == 4 || ep%6 == 5) {
			// nobody is a candidate at this tick: everybody still listed leaves first
			for _, old := range []int64{ep - 1, ep - 2} {
				if old >= 1 {
					ps = append(ps, e.w.Prepare(e.w.Alpha(), e.nm, "deleteNode", e.nodes[old].pub))
					oh := fmt.Sprintf("%x", e.nodes[old].pub)
					delete(e.m.legacy, oh)
					delete(e.m.v2, oh)
				}
			}
			b.Hit("tick-publishing-an-empty-map")
		} else {
			ps = []*world.Pending{
				e.w.Prepare(e.w.Alpha(), e.nm, "addPeerIR", blob),
				e.w.Prepare([]world.SignerSpec{world.G(nk.signer), world.G(e.w.Alphabet)}, e.nm, "addNode", node2Item(addrs, attrs, nk.pub, 1)),
			}
			e.m.legacy[ph] = legacyCand{blob: blob, state: 1}
			e.m.v2[ph] = v2Cand{addrs: addrs, attrs: attrs, key: nk.pub, state: 1}
		}
		if ep > 3 {
			old := e.nodes[ep-3]
			ps = append(ps, e.w.Prepare(e.w.Alpha(), e.nm, "deleteNode", old.pub))
			oh := fmt.Sprintf("%x", old.pub)
			delete(e.m.legacy, oh)
			delete(e.m.v2, oh)
		}
		ps = append(ps, e.w.Prepare(e.w.Alpha(), e.nm, "newEpoch", ep))
		rs := e.w.Block(ps...)
		b.Tx(len(rs))
		for i, r := range rs[:len(rs)-1] {
			if !r.Halted() {
				b.Inconclusive(fmt.Sprintf("candidate preparation tx %d failed: %s %s", i, r.State, r.Fault))
				return
			}
		}
		tr := rs[len(rs)-1]
		if !tr.Halted() {
			ops = append(ops, fmt.Sprintf("newEpoch(%d): %s %s", ep, tr.State, tr.Fault))
			b.Violation(fmt.Sprintf("newEpoch(%d) failed after an accepted snapshot count %d: the contract cannot tick any more (%s)", ep, e.m.n, tr.Fault), e.detail([]*world.TxResult{tr}, map[string]any{"history": h.String()}))
			return
		}
		ops = append(ops, fmt.Sprintf("newEpoch(%d): HALT", ep))
		e.m.epoch = ep
		e.m.histL[ep] = e.m.legacyPublished()
		e.m.hist2[ep] = e.m.v2All()
		e.m.wL = min(e.m.wL+1, e.m.n)
		e.m.w2 = min(e.m.w2+1, e.m.n)
		if sweeping && e.m.wL == e.m.n {
			b.Hit("window-full-after-resize")
		}
		b.Eval(fmt.Sprintf("tick|n%d|wL%d|w2%d|sweep%v", e.m.n, e.m.wL, e.m.w2, sweeping), sweeping)
		if sweeping || (ep%7 == 0) {
			e.sweep(h, ops)
		}
		doResizes(ep)
		b.State(fmt.Sprintf("n%d wL%d w2%d id%d", e.m.n, e.m.wL, e.m.w2, ep%max(e.m.n, 1)))
	}
	e.scanNetmapStorage(h, ops)
	if sample {
		b.Sample(map[string]any{"history": h.String(), "ops": ops})
	}
}

func tail(ops []string) []string {
	if len(ops) > 60 {
		return ops[len(ops)-60:]
	}
	return ops
}

// sweep reads every history accessor around the window and compares with the model.
func (e *env) sweep(h c08History, ops []string) {
	b := e.b
	E := e.m.epoch
	viol := func(msg string, extra map[string]any) {
		if extra == nil {
			extra = map[string]any{}
		}
		extra["history"] = h.String()
		extra["ops"] = tail(ops)
		extra["model"] = fmt.Sprintf("epoch %d count %d legacy window %d structured window %d", E, e.m.n, e.m.wL, e.m.w2)
		b.Violation(msg, extra)
	}
	checkLegacy := func(what string, r world.ReadResult, age int64) {
		b.Read(1)
		inside := age >= 0 && age < e.m.wL
		if inside {
			want := e.m.histL[E-age]
			if !r.OK() || len(r.Stack) != 1 {
				viol(fmt.Sprintf("%s: no answer for an epoch inside the window (age %d): %s", what, age, r.Err), nil)
				return
			}
			got, err := parseLegacyList(r.Stack[0])
			if err != nil {
				viol(what+": "+err.Error(), nil)
			} else if !got.equal(want) {
				viol(fmt.Sprintf("%s: not the map published at epoch %d", what, E-age), map[string]any{"got": got.String(), "want": want.String()})
			}
			b.Hit("legacy-read-inside-window")
			return
		}
		if r.OK() && len(r.Stack) == 1 {
			got, err := parseLegacyList(r.Stack[0])
			if err != nil || len(got) != 0 {
				viol(fmt.Sprintf("%s: answers with a map for an epoch outside the window (age %d, window %d)", what, age, e.m.wL), map[string]any{"got": got.String()})
			}
		}
		b.Hit("legacy-read-outside-window")
	}
	for d := int64(0); d <= c08MaxCount+2; d++ {
		checkLegacy(fmt.Sprintf("snapshot(%d)", d), e.w.Read(e.nm, "snapshot", d), d)
	}
	for ep := E - c08MaxCount - 3; ep <= E+1; ep++ {
		checkLegacy(fmt.Sprintf("snapshotByEpoch(%d)", ep), e.w.Read(e.nm, "snapshotByEpoch", ep), E-ep)
		r := e.w.Read(e.nm, "listNodes", ep)
		b.Read(1)
		age := E - ep
		inside := age >= 0 && age < e.m.w2
		var got cset
		var err error
		if r.OK() && len(r.Stack) == 1 {
			got, err = parseV2List(r.Stack[0])
		}
		switch {
		case inside:
			if !r.OK() || err != nil {
				viol(fmt.Sprintf("listNodes(%d): no answer inside the window: %s %v", ep, r.Err, err), nil)
			} else if !got.equal(e.m.hist2[ep]) {
				viol(fmt.Sprintf("listNodes(%d): not the list published at that epoch", ep), map[string]any{"got": got.String(), "want": e.m.hist2[ep].String()})
			}
			b.Hit("structured-read-inside-window")
		default:
			if r.OK() && (err != nil || len(got) != 0) {
				viol(fmt.Sprintf("listNodes(%d) still answers for an epoch outside the window (age %d, window %d)", ep, age, e.m.w2), map[string]any{"got": got.String()})
			}
			b.Hit("structured-read-outside-window")
		}
	}
	r := e.w.Read(e.nm, "netmap")
	b.Read(1)
	if e.m.wL > 0 {
		if got, err := parseLegacyList(r.Top()); !r.OK() || err != nil || !got.equal(e.m.histL[E]) {
			viol("netmap() is not the current map", nil)
		}
	}
}

// scanNetmapStorage: snapshot_<i> only for i < N, p<epoch> only inside the window.
func (e *env) scanNetmapStorage(h c08History, ops []string) {
	b := e.b
	E := e.m.epoch
	for k := range e.w.Dump(e.nmID) {
		switch {
		case strings.HasPrefix(k, "snapshot_"):
			i := int64(k[len("snapshot_")])
			if len(k) != len("snapshot_")+1 || i >= e.m.n {
				b.Violation(fmt.Sprintf("storage keeps ring slot %d although the count is %d", i, e.m.n), map[string]any{"history": h.String(), "ops": tail(ops)})
			}
		case len(k) >= 5 && k[0] == 'p':
			ep := int64(binary.BigEndian.Uint32([]byte(k[1:5])))
			if !(E-ep >= 0 && E-ep < e.m.w2) {
				b.Violation(fmt.Sprintf("storage keeps the structured list of epoch %d (current %d, window %d)", ep, E, e.m.w2), map[string]any{"history": h.String(), "ops": tail(ops)})
				return
			}
		}
	}
}

func init() {
	tier := func(q, t int) func(string) int {
		return func(s string) int {
			if s == "thorough" {
				return t
			}
			return q
		}
	}
	tb := []string{"neo-go v0.107.0 VM, ledger and native contracts are the trusted base", "contracts are compiled at check time from /repo/contracts"}
	runner.Register(&runner.Check{
		ID: "C06", Level: "exploration",
		Rule:        "PRNG sequences mixing candidate changes, subscriptions (new, repeated, contract without newEpoch/1), reject-flag flips of 0-5 probe subscriber contracts, a destroyed subscriber, a subscriber armed to call newEpoch(e+d) back from its callback (d in -1..3) and ticks with epoch arguments {smaller, equal, +1, +2, +5, 0, 2^31, values within 13 of 2^7/2^8/2^15/2^16/2^24, an early jump onto each value 243..259}, 1-2 transactions per block, committees 1/3/4/7; a model predicts success and, per tick, the exact Tick sequence of the probes; epoch, lastEpochBlock, netmap, snapshot(0), listNodes, both candidate lists are read after every block. distinct = (operation, signer class, reason/outcome, subscriber and candidate counts); every case is a state-changing request.",
		Assumptions: tb, Batches: tier(192, 2048), Helpers: []string{"probe", "holder"}, Chunk: 8,
		Floors: []string{"tick-accepted", "tick-refused:no-witness", "tick-refused:stale-epoch", "tick-refused:subscriber-rejects", "tick-with>=3-probes", "duplicate-subscription", "two-ticks-in-one-block", "early-jump-across-a-byte-boundary", "jump-next-to-an-encoding-boundary", "tick-refused:subscriber-destroyed", "tick-re-entered-by-a-subscriber", "tick-refused:subscriber-re-enters-with-a-stale-epoch", "history-length-changed-between-ticks"},
		Run:    runC06,
	})
	runner.Register(&runner.Check{
		ID: "C07", Level: "exploration",
		Rule:        "PRNG sequences of addPeer/addPeerIR/addNode/updateState/updateStateIR/deleteNode over 6 node keys driven through all presence classes (legacy only, structured only, both, neither), states {0,1,2,3,4,-1,255}, malformed keys and short blobs, signer combinations {node+Alphabet, node only, Alphabet only, other node+Alphabet, node+Majority, nobody}; a model predicts effect/refusal and notifications; both candidate lists are read after every call. distinct = (method, signers, presence/state/key-length class, outcome). Signer combinations include the node or the Alphabet signing with scope None and the node's signature restricted to another contract: no witness.",
		Assumptions: tb, Batches: tier(192, 2048), Chunk: 8,
		Floors: []string{"addPeer@neither", "addPeerIR@legacy", "addNode@neither", "addNode@legacy", "updateState@both", "updateStateIR@v2", "deleteNode@both", "updateState:inert", "addNode:inert", "re-announced-with-identical-information-while-not-online"},
		Run:    runC07,
	})
	runner.Register(&runner.Check{
		ID: "C08", Level: "exploration",
		Rule:        "Histories from the deploy state (count 10): epochs advance by one, every epoch's map is unique (a node named after the epoch joins both lists before tick e and leaves after tick e+2); quick = all 403 single-resize histories (count 0..12 x resize epoch 0..30) + 600 PRNG-chosen two-resize histories + 600 PRNG-chosen 'near' two-resize histories (second resize 0-2 ticks after the first, counts within 3 of the previous count); thorough = all 83 824 two-resize histories + 256 random histories with 5 resizes. After every resize and every later tick a read sweep (snapshot(d) d=0..14, snapshotByEpoch and listNodes for 17 epochs around the window, netmap) is compared with the model's retention windows, and the raw storage is scanned for ring slots / structured lists outside the window. distinct = (old count, new count, epoch, window, outcome) for resizes and (count, windows) for ticks after a resize.",
		Assumptions: append(tb, "a resize that faults is not judged beyond 'changed nothing' (the statement constrains accepted counts)"),
		Batches:     c08Batches, Chunk: 1,
		Floors: []string{"resize-accepted:grow", "resize-accepted:shrink", "resize-accepted:shrink-before-wrap", "shrink-after-wrap", "window-full-after-resize", "resize-refused:same", "near-double-resize-histories", "history-with-more-than-128-slots", "tick-publishing-an-empty-map", "legacy-read-inside-window", "structured-read-inside-window", "structured-read-outside-window"},
		Run:    runC08,
		Exhaustive: func(tier string) (bool, string) {
			if tier == "thorough" {
				return true, "all single-resize (403) and two-resize (83 824) histories with counts 0..12 and resize epochs 0..30"
			}
			return true, "all 403 single-resize histories with counts 0..12 and resize epochs 0..30 (two-resize histories are sampled in this tier)"
		},
	})
}
