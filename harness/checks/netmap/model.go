// Package netmap holds the monitors and workloads of C06, C07 and C08.
package netmap

import (
	"encoding/hex"
	"fmt"
	"sort"
	"strings"

	"github.com/nspcc-dev/neo-go/pkg/crypto/keys"
	"github.com/nspcc-dev/neo-go/pkg/neotest"
	"github.com/nspcc-dev/neo-go/pkg/util"
	"github.com/nspcc-dev/neo-go/pkg/vm/stackitem"

	"verif/harness/runner"
	"verif/harness/world"
)

// snapshot of candidates in canonical form: pubkey hex -> rendering
type cset map[string]string

func (c cset) clone() cset {
	r := make(cset, len(c))
	for k, v := range c {
		r[k] = v
	}
	return r
}

func (c cset) equal(o cset) bool {
	if len(c) != len(o) {
		return false
	}
	for k, v := range c {
		if o[k] != v {
			return false
		}
	}
	return true
}

func (c cset) String() string {
	var ks []string
	for k, v := range c {
		ks = append(ks, k[:10]+"="+v)
	}
	sort.Strings(ks)
	return "{" + strings.Join(ks, ", ") + "}"
}

type legacyCand struct {
	blob  []byte
	state int64
}

type v2Cand struct {
	addrs []string
	attrs map[string]string
	key   []byte
	state int64
}

func renderLegacy(blob []byte, state int64) string {
	return fmt.Sprintf("%x/%d", blob, state)
}

func renderV2(addrs []string, attrs map[string]string, key []byte, state int64) string {
	var ks []string
	for k, v := range attrs {
		ks = append(ks, k+"="+v)
	}
	sort.Strings(ks)
	return fmt.Sprintf("%s|%s|%x|%d", strings.Join(addrs, ","), strings.Join(ks, ","), key, state)
}

type model struct {
	epoch     int64
	tickBlock int64
	legacy    map[string]legacyCand // by pubkey hex
	v2        map[string]v2Cand
	subs      []util.Uint160
	reject    map[util.Uint160]bool
	histL     map[int64]cset
	hist2     map[int64]cset
	n         int64 // snapshot count
	wL, w2    int64 // retained epochs (legacy ring / structured lists)
}

func newModel() *model {
	return &model{legacy: map[string]legacyCand{}, v2: map[string]v2Cand{}, reject: map[util.Uint160]bool{},
		histL: map[int64]cset{0: {}}, hist2: map[int64]cset{0: {}}, n: 10, wL: 1, w2: 0}
}

// published legacy map: all non-offline candidates
func (m *model) legacyPublished() cset {
	r := cset{}
	for k, c := range m.legacy {
		if c.state != 2 {
			r[k] = renderLegacy(c.blob, c.state)
		}
	}
	return r
}

func (m *model) legacyAll() cset {
	r := cset{}
	for k, c := range m.legacy {
		r[k] = renderLegacy(c.blob, c.state)
	}
	return r
}

func (m *model) v2All() cset {
	r := cset{}
	for k, c := range m.v2 {
		r[k] = renderV2(c.addrs, c.attrs, c.key, c.state)
	}
	return r
}

// ---- parsing of read results

func parseLegacyList(it stackitem.Item) (cset, error) {
	arr := world.Arr(it)
	if arr == nil && !world.IsNull(it) {
		return nil, fmt.Errorf("not an array: %v", world.RenderItem(it))
	}
	r := cset{}
	for _, n := range arr {
		f := world.Arr(n)
		if len(f) != 2 {
			return nil, fmt.Errorf("node with %d fields", len(f))
		}
		blob := world.Bytes(f[0])
		st := world.Int(f[1])
		if st == nil {
			return nil, fmt.Errorf("node state is not an integer")
		}
		k := hex.EncodeToString(blob)
		if len(blob) >= 35 {
			k = hex.EncodeToString(blob[2:35])
		}
		if _, dup := r[k]; dup {
			return nil, fmt.Errorf("duplicate node %s", k)
		}
		r[k] = renderLegacy(blob, st.Int64())
	}
	return r, nil
}

func parseV2List(it stackitem.Item) (cset, error) {
	arr := world.Arr(it)
	if arr == nil && !world.IsNull(it) {
		return nil, fmt.Errorf("not an array: %v", world.RenderItem(it))
	}
	r := cset{}
	for _, n := range arr {
		f := world.Arr(n)
		// a record is stored as it was announced: a trailing field some announcements carry (always "v2") stays what it was
		if len(f) != 4 && !(len(f) == 5 && string(world.Bytes(f[4])) == "v2") {
			return nil, fmt.Errorf("node2 with %d fields (or a changed trailing field)", len(f))
		}
		var addrs []string
		for _, a := range world.Arr(f[0]) {
			addrs = append(addrs, string(world.Bytes(a)))
		}
		attrs := map[string]string{}
		if mp, ok := f[1].(*stackitem.Map); ok {
			for _, e := range mp.Value().([]stackitem.MapElement) {
				attrs[string(world.Bytes(e.Key))] = string(world.Bytes(e.Value))
			}
		}
		key := world.Bytes(f[2])
		st := world.Int(f[3])
		if st == nil {
			return nil, fmt.Errorf("node2 state is not an integer")
		}
		k := hex.EncodeToString(key)
		if _, dup := r[k]; dup {
			return nil, fmt.Errorf("duplicate node2 %s", k)
		}
		r[k] = renderV2(addrs, attrs, key, st.Int64())
	}
	return r, nil
}

// ---- environment

type nodeKey struct {
	priv   *keys.PrivateKey
	signer neotest.Signer
	pub    []byte
}

type env struct {
	b      *runner.Batch
	w      *world.World
	nm     util.Uint160
	nmID   int32
	m      *model
	nodes  []nodeKey
	probes []util.Uint160
	pid    map[util.Uint160]int64
	ver    int
}

func newEnv(b *runner.Batch, n int, contracts []string) (*env, error) {
	w, err := world.New(world.Options{N: n, Seed: b.Seed, Batch: b.Index})
	if err != nil {
		return nil, err
	}
	if err := w.DeployFS(b.Set, world.FSOptions{Contracts: contracts}); err != nil {
		return nil, err
	}
	e := &env{b: b, w: w, nm: w.H("netmap"), nmID: w.C["netmap"].ID, m: newModel(), pid: map[util.Uint160]int64{}}
	for _, c := range contracts {
		if c == "balance" || c == "container" {
			e.m.subs = append(e.m.subs, w.H(c))
		}
	}
	b.HistoryFn = func() []any {
		var res []any
		for _, r := range w.History {
			res = append(res, w.RenderResult(r, true))
		}
		return res
	}
	return e, nil
}

func (e *env) addNodeKeys(k int) {
	for i := 0; i < k; i++ {
		p := world.Key(e.b.Seed, e.b.Index, "node", len(e.nodes))
		e.nodes = append(e.nodes, nodeKey{priv: p, signer: world.Single(p), pub: p.PublicKey().Bytes()})
	}
}

// blob builds a node info BLOB: 2 bytes header, 33 bytes key, a version tail.
func (e *env) blob(pub []byte) []byte {
	e.ver++
	b := append([]byte{0x0a, 0x21}, pub...)
	return append(b, byte(e.ver), byte(e.ver>>8), 0x55)
}

func node2Item(addrs []string, attrs map[string]string, key []byte, state int64) stackitem.Item {
	var as []stackitem.Item
	for _, a := range addrs {
		as = append(as, stackitem.Make(a))
	}
	var ks []string
	for k := range attrs {
		ks = append(ks, k)
	}
	sort.Strings(ks)
	var els []stackitem.MapElement
	for _, k := range ks {
		els = append(els, stackitem.MapElement{Key: stackitem.Make(k), Value: stackitem.Make(attrs[k])})
	}
	return stackitem.NewStruct([]stackitem.Item{stackitem.NewArray(as), stackitem.NewMapWithValue(els), stackitem.NewByteArray(key), stackitem.Make(state)})
}

func (e *env) detail(rs []*world.TxResult, extra map[string]any) map[string]any {
	m := map[string]any{}
	var txs []any
	for _, r := range rs {
		txs = append(txs, e.w.RenderResult(r, true))
	}
	m["block"] = txs
	for k, v := range extra {
		m[k] = v
	}
	return m
}
