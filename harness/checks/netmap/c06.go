package netmap

import (
	"fmt"

	"github.com/nspcc-dev/neo-go/pkg/util"

	"verif/harness/runner"
	"verif/harness/world"
)

// deployProbe deploys the i-th probe subscriber.
func (e *env) deployProbe(i int) (util.Uint160, error) {
	a := e.b.Helpers["probe"].Renamed(fmt.Sprintf("Verif Probe %d", i))
	d, err := e.w.Deploy(fmt.Sprintf("probe%d", i), a, int64(i))
	if err != nil {
		return util.Uint160{}, err
	}
	e.probes = append(e.probes, d.Hash)
	e.pid[d.Hash] = int64(i)
	return d.Hash, nil
}

func (e *env) isSub(h util.Uint160) bool {
	for _, s := range e.m.subs {
		if s == h {
			return true
		}
	}
	return false
}

// tickDelta: lastEpochBlock - block index of the tick transaction; calibrated once.
var noDelta = int64(-99)

type c06State struct {
	delta int64
}

// tick performs newEpoch(ep) with the given signer class and judges it.
func (e *env) tick(st *c06State, ep int64, alphaClass int, post func(), extra ...*world.Pending) {
	b := e.b
	s, aw, sd := e.alphaSigners(alphaClass)
	rejecting := false
	for _, sub := range e.m.subs {
		if e.m.reject[sub] {
			rejecting = true
		}
	}
	expOK := aw && ep > e.m.epoch && !rejecting
	p := e.w.Prepare(s, e.nm, "newEpoch", ep)
	rs := e.w.Block(append([]*world.Pending{p}, extra...)...)
	r := rs[0]
	b.Tx(len(rs))
	reason := "ok"
	switch {
	case !aw:
		reason = "no-witness"
	case ep <= e.m.epoch:
		reason = "stale-epoch"
	case rejecting:
		reason = "subscriber-rejects"
	}
	if expOK != r.Halted() {
		b.Violation(fmt.Sprintf("newEpoch(%d) by %s at epoch %d: expected success=%v (%s), got %s %s", ep, sd, e.m.epoch, expOK, reason, r.State, r.Fault), e.detail(rs, nil))
	}
	if r.Halted() {
		// notifications: NewEpoch(e) exactly once; Tick of every probe subscriber in order, each once
		ne := 0
		var ticks []int64
		for _, ev := range r.Events {
			if ev.Contract == e.nm && ev.Name == "NewEpoch" {
				ne++
				if len(ev.Items) != 1 || world.Int64(ev.Items[0]) != ep {
					b.Violation("NewEpoch notification carries a wrong epoch", e.detail(rs, nil))
				}
			}
			if ev.Name == "Tick" {
				if _, ok := e.pid[ev.Contract]; ok {
					if len(ev.Items) != 2 || world.Int64(ev.Items[1]) != ep || world.Int64(ev.Items[0]) != e.pid[ev.Contract] {
						b.Violation("subscriber was called with a wrong epoch", e.detail(rs, nil))
					}
					ticks = append(ticks, e.pid[ev.Contract])
				}
			}
		}
		if ne != 1 {
			b.Violation(fmt.Sprintf("successful tick emitted %d NewEpoch notifications", ne), e.detail(rs, nil))
		}
		var want []int64
		for _, sub := range e.m.subs {
			if id, ok := e.pid[sub]; ok {
				want = append(want, id)
			}
		}
		if fmt.Sprint(ticks) != fmt.Sprint(want) {
			b.Violation(fmt.Sprintf("subscribers called %v, subscription order is %v", ticks, want), e.detail(rs, nil))
		}
		if len(want) >= 3 {
			b.Hit("tick-with>=3-probes")
		}
		e.m.epoch = ep
		e.m.histL[ep] = e.m.legacyPublished()
		e.m.hist2[ep] = e.m.v2All()
		d := int64(0)
		leb := e.w.Read(e.nm, "lastEpochBlock")
		b.Read(1)
		if leb.OK() && len(leb.Stack) == 1 {
			d = world.Int64(leb.Stack[0]) - int64(r.Block)
		} else {
			b.Violation("lastEpochBlock does not answer", e.detail(rs, nil))
		}
		if st.delta == noDelta {
			if d != 0 && d != -1 {
				b.Violation(fmt.Sprintf("lastEpochBlock differs from the tick's block index by %d", d), e.detail(rs, nil))
			}
			st.delta = d
		} else if d != st.delta {
			b.Violation(fmt.Sprintf("lastEpochBlock - tick block = %d, earlier ticks gave %d (stale or foreign height)", d, st.delta), e.detail(rs, nil))
		}
		e.m.tickBlock = world.Int64(leb.Top())
		b.Hit("tick-accepted")
	} else {
		if len(extra) == 0 && !r.Diff.Empty() {
			b.Violation("failed tick changed storage", e.detail(rs, nil))
		}
		b.Hit("tick-refused:" + reason)
	}
	if post != nil {
		post()
	}
	e.checkNetmapState(rs)
	b.Eval(fmt.Sprintf("tick|%s|%s|subs%d|cand%d/%d", sd, reason, len(e.m.subs), len(e.m.legacy), len(e.m.v2)), true)
}

// checkNetmapState compares epoch, current maps and candidates with the model.
func (e *env) checkNetmapState(rs []*world.TxResult) {
	b := e.b
	ep := e.w.Read(e.nm, "epoch")
	b.Read(1)
	if !ep.OK() || len(ep.Stack) != 1 || world.Int64(ep.Stack[0]) != e.m.epoch {
		b.Violation(fmt.Sprintf("epoch() = %v, model %d", world.RenderItems(ep.Stack), e.m.epoch), e.detail(rs, nil))
		if ep.OK() && len(ep.Stack) == 1 {
			e.m.epoch = world.Int64(ep.Stack[0])
		}
	}
	if e.m.epoch > 0 {
		leb := e.w.Read(e.nm, "lastEpochBlock")
		b.Read(1)
		if !leb.OK() || world.Int64(leb.Top()) != e.m.tickBlock {
			b.Violation(fmt.Sprintf("lastEpochBlock() = %v changed without a tick (was %d)", world.RenderItems(leb.Stack), e.m.tickBlock), e.detail(rs, nil))
			e.m.tickBlock = world.Int64(leb.Top())
		}
	}
	wantL, want2 := e.m.histL[e.m.epoch], e.m.hist2[e.m.epoch]
	for _, rd := range []struct {
		method string
		args   []any
		legacy bool
	}{{"netmap", nil, true}, {"snapshot", []any{int64(0)}, true}, {"listNodes", nil, false}, {"listNodes", []any{e.m.epoch}, false}} {
		r := e.w.Read(e.nm, rd.method, rd.args...)
		b.Read(1)
		if !r.OK() || len(r.Stack) != 1 {
			b.Violation(fmt.Sprintf("%s%v does not answer: %s", rd.method, rd.args, r.Err), e.detail(rs, nil))
			continue
		}
		var got, want cset
		var err error
		if rd.legacy {
			got, err = parseLegacyList(r.Stack[0])
			want = wantL
		} else {
			got, err = parseV2List(r.Stack[0])
			want = want2
		}
		if err != nil {
			b.Violation(fmt.Sprintf("%s%v: %v", rd.method, rd.args, err), e.detail(rs, nil))
		} else if !got.equal(want) {
			b.Violation(fmt.Sprintf("%s%v differs from the map published at epoch %d", rd.method, rd.args, e.m.epoch), e.detail(rs, map[string]any{"got": got.String(), "want": want.String()}))
		}
	}
	e.checkCandidates(rs)
	// probe call counters (a failed tick must not leave a trace in a subscriber)
	for _, p := range e.probes {
		r := e.w.Read(p, "calls")
		b.Read(1)
		_ = r
	}
}

func runC06(b *runner.Batch) {
	n := []int{4, 1, 3, 7}[b.Index%4]
	contracts := []string{"netmap"}
	if b.Index%2 == 0 {
		contracts = []string{"netmap", "balance"}
	}
	e, err := newEnv(b, n, contracts)
	if err != nil {
		b.Inconclusive("world: " + err.Error())
		return
	}
	defer e.w.Close()
	e.addNodeKeys(5)
	st := &c06State{delta: noDelta}
	nprobes := b.Rng.IntN(6)
	if b.Index < 4 {
		nprobes = 3 + b.Index%3
	}
	for i := 0; i < nprobes; i++ {
		if _, err := e.deployProbe(i); err != nil {
			b.Inconclusive("probe: " + err.Error())
			return
		}
	}
	calls := map[util.Uint160]int64{}
	subscribe := func(h util.Uint160, alphaClass int, hasMethod bool) {
		s, aw, sd := e.alphaSigners(alphaClass)
		r := e.w.Invoke(s, e.nm, "subscribeForNewEpoch", h)
		b.Tx(1)
		rs := []*world.TxResult{r}
		already := e.isSub(h)
		expOK := aw && hasMethod
		if expOK != r.Halted() {
			b.Violation(fmt.Sprintf("subscribeForNewEpoch by %s (has newEpoch/1: %v): got %s %s", sd, hasMethod, r.State, r.Fault), e.detail(rs, nil))
		}
		out := "refused"
		if r.Halted() {
			out = "new"
			nsub := 0
			for _, ev := range r.Events {
				if ev.Contract == e.nm && ev.Name == "NewEpochSubscription" {
					nsub++
				}
			}
			if already {
				out = "duplicate"
				if !r.Diff.Empty() || nsub != 0 {
					b.Violation("a repeated subscription had an additional effect", e.detail(rs, nil))
				}
				b.Hit("duplicate-subscription")
			} else {
				e.m.subs = append(e.m.subs, h)
				if nsub != 1 {
					b.Violation(fmt.Sprintf("new subscription emitted %d NewEpochSubscription notifications", nsub), e.detail(rs, nil))
				}
			}
		} else if !r.Diff.Empty() {
			b.Violation("failed subscription changed storage", e.detail(rs, nil))
		}
		b.Eval(fmt.Sprintf("subscribe|%s|%s|has%v", sd, out, hasMethod), true)
	}
	checkProbeCalls := func() {
		for _, p := range e.probes {
			r := e.w.Read(p, "calls")
			if !r.OK() || world.Int64(r.Top()) != calls[p] {
				b.Violation(fmt.Sprintf("probe %d was called %v times, expected %d", e.pid[p], world.RenderItems(r.Stack), calls[p]), nil)
				calls[p] = world.Int64(r.Top())
			}
		}
	}
	doTick := func(ep int64, class int, post func(), extra ...*world.Pending) {
		before := e.m.epoch
		e.tick(st, ep, class, post, extra...)
		if e.m.epoch != before {
			for _, s := range e.m.subs {
				if _, ok := e.pid[s]; ok {
					calls[s]++
				}
			}
		}
		checkProbeCalls()
	}
	// canonical scenario
	for _, p := range e.probes {
		subscribe(p, 0, true)
	}
	if len(e.probes) > 0 {
		subscribe(e.probes[0], 0, true) // duplicate
	}
	e.execCandidateOp(e.canonAddPeerIR(0))
	e.execCandidateOp(e.canonAddNode(1))
	doTick(1, 0, nil)
	doTick(1, 0, nil) // stale
	doTick(2, 3, nil) // stranger
	if len(e.probes) > 0 {
		e.setReject(e.probes[len(e.probes)-1], true)
		doTick(2, 0, nil) // subscriber rejects
		e.setReject(e.probes[len(e.probes)-1], false)
	}
	// two ticks in one block: the second one is valid too and takes effect
	p2 := e.w.Prepare(e.w.Alpha(), e.nm, "newEpoch", int64(3))
	doTick(2, 0, func() { e.afterExtraTick(st, 3, calls) }, p2)
	b.Hit("two-ticks-in-one-block")
	checkProbeCalls()
	e.checkNetmapState(nil)
	// an early jump (the history is not full yet) onto every value around the first byte boundary of the
	// epoch encoding, one value per batch (seeded change C06-5: an eviction target that wraps around)
	if b.Index%2 == 1 {
		d := int64((b.Index/2)%17) - 13
		doTick(256+d, 0, nil)
		b.Hit("early-jump-across-a-byte-boundary")
		e.checkNetmapState(nil)
	}

	// a subscriber that calls back into newEpoch from inside its callback (the carrier is Alphabet-witnessed with Global
	// scope, so the nested call is witnessed too). The outer tick has stored its epoch before it notifies anybody, so a
	// nested newEpoch(ep+d) is a tick of its own iff d >= 1 and makes the whole transaction fail otherwise (seeded change
	// C06-7: notification moved in front of the publication).
	histLen := int64(10) // the deployed default
	reentrantTick := func(d int64) {
		var armed util.Uint160
		k := -1
		for i, sub := range e.m.subs {
			if e.m.reject[sub] {
				return
			}
			if _, ok := e.pid[sub]; ok && (k < 0 || b.Rng.IntN(2) == 0) {
				armed, k = sub, i
			}
		}
		if k < 0 {
			return
		}
		if r := e.w.Invoke(nil, armed, "setReenter", e.nm, d, true); !r.Halted() {
			b.Inconclusive("probe could not be armed: " + r.Fault)
			return
		}
		b.Tx(1)
		ep := e.m.epoch + 1 + int64(b.Rng.IntN(3))
		r := e.w.Invoke(e.w.Alpha(), e.nm, "newEpoch", ep)
		b.Tx(1)
		rs := []*world.TxResult{r}
		expOK := d >= 1
		if expOK != r.Halted() {
			b.Violation(fmt.Sprintf("newEpoch(%d) at epoch %d with a subscriber that calls newEpoch(%d) from its callback: expected success=%v, got %s %s", ep, e.m.epoch, ep+d, expOK, r.State, r.Fault), e.detail(rs, nil))
		}
		if r.Halted() {
			var got, want []string
			for _, ev := range r.Events {
				if ev.Contract == e.nm && ev.Name == "NewEpoch" && len(ev.Items) == 1 {
					got = append(got, fmt.Sprintf("NewEpoch(%d)", world.Int64(ev.Items[0])))
				}
				if _, ok := e.pid[ev.Contract]; ok && ev.Name == "Tick" && len(ev.Items) == 2 {
					got = append(got, fmt.Sprintf("Tick(%d,%d)", world.Int64(ev.Items[0]), world.Int64(ev.Items[1])))
				}
			}
			ticks := func(subs []util.Uint160, x int64) {
				for _, sub := range subs {
					if id, ok := e.pid[sub]; ok {
						want = append(want, fmt.Sprintf("Tick(%d,%d)", id, x))
					}
				}
			}
			ticks(e.m.subs[:k+1], ep)
			ticks(e.m.subs, ep+d)
			want = append(want, fmt.Sprintf("NewEpoch(%d)", ep+d))
			ticks(e.m.subs[k+1:], ep)
			want = append(want, fmt.Sprintf("NewEpoch(%d)", ep))
			if fmt.Sprint(got) != fmt.Sprint(want) {
				b.Violation("nested tick: notifications differ from two complete ticks, the inner one inside the outer one's fan-out", e.detail(rs, map[string]any{"got": got, "want": want}))
			}
			if expOK {
				for _, x := range []int64{ep, ep + d} {
					e.m.histL[x] = e.m.legacyPublished()
					e.m.hist2[x] = e.m.v2All()
				}
				e.m.epoch = ep + d
				for _, sub := range e.m.subs {
					if _, ok := e.pid[sub]; ok {
						calls[sub] += 2
					}
				}
				leb := e.w.Read(e.nm, "lastEpochBlock")
				b.Read(1)
				if st.delta != noDelta && (!leb.OK() || world.Int64(leb.Top())-int64(r.Block) != st.delta) {
					b.Violation("nested tick: lastEpochBlock is not the height of the tick", e.detail(rs, nil))
				}
				e.m.tickBlock = world.Int64(leb.Top())
				// the outer epoch's structured map is a published map too
				// (while the history is long enough to hold it: the inner tick evicts the list of epoch ep+d-count)
				if ln := e.w.Read(e.nm, "listNodes", ep); ln.OK() && len(ln.Stack) == 1 && histLen > d {
					b.Read(1)
					if g, err := parseV2List(ln.Stack[0]); err != nil || !g.equal(e.m.hist2[ep]) {
						b.Violation(fmt.Sprintf("nested tick: listNodes(%d) differs from the map published at the outer epoch", ep), e.detail(rs, nil))
					}
				}
				b.Hit("tick-re-entered-by-a-subscriber")
			} else {
				e.resyncEpoch()
			}
		} else {
			if !r.Diff.Empty() {
				b.Violation("failed tick changed storage", e.detail(rs, nil))
			}
			if expOK {
				e.resyncEpoch()
			} else {
				b.Hit("tick-refused:subscriber-re-enters-with-a-stale-epoch")
			}
			// the failed transaction did not consume the arming
			e.w.Invoke(nil, armed, "setReenter", e.nm, int64(0), false)
			b.Tx(1)
		}
		checkProbeCalls()
		e.checkNetmapState(rs)
		b.Eval(fmt.Sprintf("tick-re-entered|d%d|pos%d/%d|%s", d, k, len(e.m.subs), r.State), true)
		// the inner epoch is the current one now: a second tick onto it is stale
		if r.Halted() && expOK {
			doTick(ep+d, 0, nil)
		}
	}
	if len(e.probes) > 0 {
		reentrantTick([]int64{1, 0, 2, -1}[b.Index%4])
	}
	nops := 100
	if b.Thorough() {
		nops = 250
	}
	holder := util.Uint160{}
	if d, err := e.w.Deploy("holder", b.Helpers["holder"], nil); err == nil {
		holder = d.Hash
	}
	for i := 0; i < nops && b.NViolations() == 0; i++ {
		switch k := b.Rng.IntN(20); {
		case k < 8:
			e.execCandidateOp(e.genC07())
		case k < 10 && len(e.probes) > 0:
			p := runner.Pick(b.Rng, e.probes)
			e.setReject(p, !e.m.reject[p])
		case k < 13 && b.Rng.IntN(3) == 0:
			// the length of the map history is changed (C08 judges the history; here only the tick after it matters: the
			// current map is where the readers look for it whatever the length; seeded change C06-9: the ring wrapping at
			// the compile-time default)
			c := int64(1 + b.Rng.IntN(12))
			if r := e.w.Invoke(e.w.Alpha(), e.nm, "updateSnapshotCount", c); r.Halted() {
				histLen = c
				b.Hit("history-length-changed-between-ticks")
			}
			b.Tx(1)
			e.checkNetmapState(nil)
		case k < 12:
			if len(e.probes) > 0 && b.Rng.IntN(3) != 0 {
				subscribe(runner.Pick(b.Rng, e.probes), e.pickAlpha(8), true)
			} else {
				subscribe(holder, e.pickAlpha(8), false) // no newEpoch/1 method
			}
		default:
			ep := e.m.epoch + runner.Pick(b.Rng, []int64{1, 1, 1, 1, 1, 2, 5, 0, -1, -e.m.epoch})
			if b.Rng.IntN(40) == 0 {
				ep = 1 << 31
			}
			if b.Rng.IntN(20) == 0 {
				// a jump next to a boundary of the epoch encoding
				if bd := runner.Pick(b.Rng, []int64{1 << 7, 1 << 8, 1 << 15, 1 << 16, 1 << 24}); bd > e.m.epoch+13 {
					ep = bd + int64(b.Rng.IntN(16)) - 13
					b.Hit("jump-next-to-an-encoding-boundary")
				}
			}
			if e.m.epoch >= 1<<31 {
				ep = e.m.epoch + 1
			}
			if b.Rng.IntN(16) == 0 && e.m.epoch < 1<<30 {
				reentrantTick(runner.Pick(b.Rng, []int64{1, 1, 2, 0, -1, 3}))
				continue
			}
			if b.Rng.IntN(8) == 0 {
				// tick + candidate change in one block: the change comes after the tick in block order
				o := e.genC07()
				pc := e.w.Prepare(o.signers, e.nm, o.kind, o.args...)
				// the candidate model is resynchronised from the chain: the extra transaction is C07's business
				doTick(ep, 0, e.resyncCandidates, pc)
				b.Hit("tick+candidate-change-in-one-block")
				continue
			}
			doTick(ep, e.pickAlpha(8), nil)
		}
	}
	// a subscriber that is gone (destroyed after it subscribed) cannot accept the call: from then on no tick may
	// succeed, and nothing may change (seeded change C06-6: "log and go on" for a subscriber that cannot be called)
	if b.NViolations() == 0 && b.Index%3 == 0 {
		for _, sub := range e.m.subs {
			if _, isProbe := e.pid[sub]; !isProbe {
				continue
			}
			r := e.w.Invoke(nil, sub, "destroy")
			b.Tx(1)
			if !r.Halted() {
				b.Inconclusive("probe could not be destroyed: " + r.Fault)
				break
			}
			e.m.reject[sub] = true
			var rest []util.Uint160
			for _, p := range e.probes {
				if p != sub {
					rest = append(rest, p)
				}
			}
			e.probes = rest
			doTick(e.m.epoch+1, 0, nil)
			doTick(e.m.epoch+3, 0, nil)
			e.checkNetmapState(nil)
			b.Hit("tick-refused:subscriber-destroyed")
			break
		}
	}
	if b.Index < 2 {
		h := b.HistoryFn()
		if len(h) > 10 {
			h = h[len(h)-10:]
		}
		b.Sample(map[string]any{"committee": n, "probes": nprobes, "tail_of_history": h})
	}
}

func (e *env) setReject(p util.Uint160, on bool) {
	r := e.w.Invoke(nil, p, "setReject", on)
	e.b.Tx(1)
	if r.Halted() {
		e.m.reject[p] = on
	}
}

// afterExtraTick accounts for a second valid tick placed in the same block.
func (e *env) afterExtraTick(st *c06State, ep int64, calls map[util.Uint160]int64) {
	rd := e.w.Read(e.nm, "epoch")
	if rd.OK() && world.Int64(rd.Top()) == ep {
		e.m.epoch = ep
		e.m.histL[ep] = e.m.legacyPublished()
		e.m.hist2[ep] = e.m.v2All()
		leb := e.w.Read(e.nm, "lastEpochBlock")
		e.m.tickBlock = world.Int64(leb.Top())
		for _, s := range e.m.subs {
			if _, ok := e.pid[s]; ok {
				calls[s]++
			}
		}
	} else {
		e.b.Violation(fmt.Sprintf("second tick of a block (epoch %d) did not take effect", ep), nil)
	}
}

func (e *env) canonAddPeerIR(node int) *nmOp {
	nk := e.nodes[node]
	ph := fmt.Sprintf("%x", nk.pub)
	blob := e.blob(nk.pub)
	return &nmOp{kind: "addPeerIR", args: []any{blob}, signers: e.w.Alpha(), sdesc: "alphabet", class: e.presence(ph), expect: expEffect,
		apply:  func(m *model) { m.legacy[ph] = legacyCand{blob: blob, state: 1} },
		events: []string{evKey("AddPeerSuccess", ph)}}
}

func (e *env) canonAddNode(node int) *nmOp {
	nk := e.nodes[node]
	ph := fmt.Sprintf("%x", nk.pub)
	addrs := []string{"grpc://canon:1"}
	attrs := map[string]string{"Capacity": "1"}
	s, _, _, sd := e.nodeSigners(cNodeAlpha, node)
	return &nmOp{kind: "addNode", args: []any{node2Item(addrs, attrs, nk.pub, 1)}, signers: s, sdesc: sd, class: e.presence(ph), expect: expEffect,
		apply:  func(m *model) { m.v2[ph] = v2Cand{addrs: addrs, attrs: attrs, key: nk.pub, state: 1} },
		events: []string{"AddNode:" + ph}}
}

// resyncEpoch re-reads the epoch after an outcome the model did not predict (a violation was filed already).
func (e *env) resyncEpoch() {
	if rd := e.w.Read(e.nm, "epoch"); rd.OK() && len(rd.Stack) == 1 {
		e.m.epoch = world.Int64(rd.Stack[0])
		if e.m.histL[e.m.epoch] == nil {
			e.m.histL[e.m.epoch] = e.m.legacyPublished()
			e.m.hist2[e.m.epoch] = e.m.v2All()
		}
		e.m.tickBlock = world.Int64(e.w.Read(e.nm, "lastEpochBlock").Top())
	}
}
