package netmap

import (
	"bytes"
	"encoding/hex"
	"fmt"
	"github.com/nspcc-dev/neo-go/pkg/core/transaction"

	"github.com/nspcc-dev/neo-go/pkg/vm/stackitem"

	"verif/harness/runner"
	"verif/harness/world"
)

const (
	expEffect = iota
	expFail
	expEither // the statement is silent (Offline for an unknown key): only "no storage effect" is asserted
)

type nmOp struct {
	kind    string
	args    []any
	signers []world.SignerSpec
	sdesc   string
	expect  int
	// model mutation applied when the call took effect
	apply func(m *model)
	// predicted notifications of the Netmap contract: name + canonical items
	events []string
	class  string
}

// signer combos for node-initiated calls
const (
	cNodeAlpha = iota
	cNodeOnly
	cAlphaOnly
	cOtherNodeAlpha
	cNodeMajority
	cNobody
	cNodeNoneAlpha   // the node signs with scope None (it only pays), the Alphabet with Global
	cNodeAlphaNone   // the other way round
	cNodeCustomAlpha // the node's signature is restricted to another contract
)

func (e *env) nodeSigners(combo int, node int) ([]world.SignerSpec, bool, bool, string) {
	// returns signers, nodeWitness, alphabetWitness
	nk := e.nodes[node]
	other := e.nodes[(node+1)%len(e.nodes)]
	majIsAlpha := e.w.Majority.ScriptHash() == e.w.Alphabet.ScriptHash()
	switch combo {
	case cNodeAlpha:
		return []world.SignerSpec{world.G(nk.signer), world.G(e.w.Alphabet)}, true, true, "node+alphabet"
	case cNodeOnly:
		return []world.SignerSpec{world.G(nk.signer)}, true, false, "node"
	case cAlphaOnly:
		return []world.SignerSpec{world.G(e.w.Alphabet)}, false, true, "alphabet"
	case cOtherNodeAlpha:
		return []world.SignerSpec{world.G(other.signer), world.G(e.w.Alphabet)}, false, true, "othernode+alphabet"
	case cNodeMajority:
		return []world.SignerSpec{world.G(nk.signer), world.G(e.w.Majority)}, true, majIsAlpha, "node+majority"
	case cNodeNoneAlpha:
		// a signature that does not reach the call is no witness (seeded change C07-11)
		return []world.SignerSpec{world.Scoped(nk.signer, transaction.None), world.G(e.w.Alphabet)}, false, true, "node(scope None)+alphabet"
	case cNodeAlphaNone:
		return []world.SignerSpec{world.G(nk.signer), world.Scoped(e.w.Alphabet, transaction.None)}, true, false, "node+alphabet(scope None)"
	case cNodeCustomAlpha:
		return []world.SignerSpec{world.Scoped(nk.signer, transaction.CustomContracts, e.w.GAS), world.G(e.w.Alphabet)}, false, true, "node(scoped to GAS)+alphabet"
	}
	return nil, false, false, "nobody"
}

// signer classes for Alphabet-only calls
func (e *env) alphaSigners(k int) ([]world.SignerSpec, bool, string) {
	majIsAlpha := e.w.Majority.ScriptHash() == e.w.Alphabet.ScriptHash()
	memIsAlpha := e.w.Members[0].ScriptHash() == e.w.Alphabet.ScriptHash()
	switch k {
	case 0:
		return e.w.Alpha(), true, "alphabet"
	case 1:
		return e.w.Major(), majIsAlpha, "majority"
	case 2:
		return []world.SignerSpec{world.G(e.w.Members[0])}, memIsAlpha, "member"
	case 3:
		return []world.SignerSpec{world.G(e.nodes[0].signer)}, false, "stranger"
	case 5:
		// the Alphabet's multi-signature is there, but its scope does not reach the call: no witness
		return []world.SignerSpec{world.Scoped(e.w.Alphabet, transaction.None)}, false, "alphabet(scope None)"
	case 6:
		return []world.SignerSpec{world.Scoped(e.w.Alphabet, transaction.CustomContracts, e.w.GAS)}, false, "alphabet(scoped to GAS)"
	}
	return nil, false, "nobody"
}

func (e *env) pickCombo(honest int) int {
	if e.b.Rng.IntN(10) < honest {
		return cNodeAlpha
	}
	return runner.Pick(e.b.Rng, []int{cNodeOnly, cAlphaOnly, cOtherNodeAlpha, cNodeMajority, cNobody, cNodeNoneAlpha, cNodeAlphaNone, cNodeCustomAlpha})
}

func (e *env) pickAlpha(honest int) int {
	if e.b.Rng.IntN(10) < honest {
		return 0
	}
	return 1 + e.b.Rng.IntN(6)
}

func (e *env) presence(pubHex string) string {
	_, l := e.m.legacy[pubHex]
	_, v := e.m.v2[pubHex]
	switch {
	case l && v:
		return "both"
	case l:
		return "legacy"
	case v:
		return "v2"
	}
	return "neither"
}

func evKey(name string, items ...any) string { return fmt.Sprint(name, items) }

// reannounce: fresh node information, or — one time in three for a listed node — exactly the bytes that are
// stored already (nodes re-announce themselves every epoch; seeded change C07-6: an "unchanged, nothing to
// write" shortcut that forgets the state)
func (e *env) reannounce(ph string, pub []byte) []byte {
	if c, ok := e.m.legacy[ph]; ok && e.b.Rng.IntN(3) == 0 {
		e.b.Hit("re-announced-with-identical-information")
		if c.state != 1 {
			e.b.Hit("re-announced-with-identical-information-while-not-online")
		}
		return append([]byte{}, c.blob...)
	}
	return e.blob(pub)
}

func (e *env) genC07() *nmOp {
	r := e.b.Rng
	node := r.IntN(len(e.nodes))
	nk := e.nodes[node]
	ph := hex.EncodeToString(nk.pub)
	switch k := r.IntN(20); {
	case k < 3: // addPeer
		combo := e.pickCombo(6)
		s, nw, aw, sd := e.nodeSigners(combo, node)
		blob := e.reannounce(ph, nk.pub)
		short := r.IntN(8) == 0
		if short {
			blob = blob[:runner.Pick(r, []int{0, 2, 20, 34})]
		}
		o := &nmOp{kind: "addPeer", args: []any{blob}, signers: s, sdesc: sd, class: e.presence(ph)}
		if nw && aw && !short {
			o.expect = expEffect
			o.apply = func(m *model) { m.legacy[ph] = legacyCand{blob: blob, state: 1} }
			o.events = []string{evKey("AddPeerSuccess", hex.EncodeToString(nk.pub))}
		} else {
			o.expect = expFail
		}
		if short {
			o.class += "/short"
		}
		return o
	case k < 6: // addPeerIR
		ac := e.pickAlpha(7)
		s, aw, sd := e.alphaSigners(ac)
		blob := e.reannounce(ph, nk.pub)
		short := r.IntN(8) == 0
		if short {
			blob = blob[:runner.Pick(r, []int{0, 2, 20, 34})]
		}
		o := &nmOp{kind: "addPeerIR", args: []any{blob}, signers: s, sdesc: sd, class: e.presence(ph)}
		if aw && !short {
			o.expect = expEffect
			o.apply = func(m *model) { m.legacy[ph] = legacyCand{blob: blob, state: 1} }
			o.events = []string{evKey("AddPeerSuccess", hex.EncodeToString(nk.pub))}
		} else {
			o.expect = expFail
		}
		if short {
			o.class += "/short"
		}
		return o
	case k < 10: // addNode
		combo := e.pickCombo(6)
		s, nw, aw, sd := e.nodeSigners(combo, node)
		state := int64(1)
		if r.IntN(5) == 0 {
			state = runner.Pick(r, []int64{0, 2, 3, 4, -1})
		}
		key := nk.pub
		if r.IntN(8) == 0 {
			switch r.IntN(3) {
			case 0:
				key = nil
			case 1:
				key = nk.pub[:32]
			default:
				key = append(append([]byte{}, nk.pub...), 0)
			}
		}
		e.ver++
		addrs := []string{fmt.Sprintf("grpcs://10.0.0.%d:8080", e.ver%250)}
		if r.IntN(3) == 0 {
			addrs = append(addrs, "grpc://second:1")
		}
		if r.IntN(6) == 0 {
			// a node announced without any address is a candidate like every other (seeded change C07-8: "no
			// addresses" read as "no record")
			addrs = []string{}
			e.b.Hit("node-announced-without-addresses")
		}
		attrs := map[string]string{"Capacity": fmt.Sprint(e.ver), "ver": fmt.Sprint(e.ver)}
		item := node2Item(addrs, attrs, key, state)
		if r.IntN(8) == 0 {
			// the structure as a later client might send it: one more field behind the state (seeded change C07-10: the
			// state patched into the last byte of the stored record)
			st := item.(*stackitem.Struct)
			st.Append(stackitem.Make("v2"))
			e.b.Hit("node-announced-with-a-trailing-field")
		}
		o := &nmOp{kind: "addNode", args: []any{item}, signers: s, sdesc: sd, class: fmt.Sprintf("%s/st%d/len%d", e.presence(ph), state, len(key))}
		if nw && aw && state == 1 && len(key) == 33 {
			o.expect = expEffect
			o.apply = func(m *model) { m.v2[ph] = v2Cand{addrs: addrs, attrs: attrs, key: key, state: 1} }
			o.events = []string{"AddNode:" + ph}
		} else {
			o.expect = expFail
		}
		return o
	case k < 12: // deleteNode
		ac := e.pickAlpha(7)
		s, aw, sd := e.alphaSigners(ac)
		key := nk.pub
		if r.IntN(8) == 0 {
			key = nk.pub[:runner.Pick(r, []int{0, 32})]
		}
		o := &nmOp{kind: "deleteNode", args: []any{key}, signers: s, sdesc: sd, class: fmt.Sprintf("%s/len%d", e.presence(ph), len(key))}
		switch {
		case !aw || len(key) != 33:
			o.expect = expFail
		case e.presence(ph) == "neither":
			o.expect = expEither
		default:
			o.expect = expEffect
			o.apply = func(m *model) { delete(m.legacy, ph); delete(m.v2, ph) }
			o.events = []string{evKey("UpdateStateSuccess", ph, 2)}
		}
		return o
	default: // updateState / updateStateIR
		ir := r.IntN(2) == 0
		state := runner.Pick(r, []int64{1, 2, 3, 1, 2, 3, 1, 2, 3, 0, 4, -1, 255})
		key := nk.pub
		if r.IntN(10) == 0 {
			key = nk.pub[:runner.Pick(r, []int{0, 32})]
		}
		var s []world.SignerSpec
		var nw, aw bool
		var sd string
		kind := "updateState"
		if ir {
			kind = "updateStateIR"
			s, aw, sd = e.alphaSigners(e.pickAlpha(7))
			nw = true
		} else {
			s, nw, aw, sd = e.nodeSigners(e.pickCombo(6), node)
		}
		o := &nmOp{kind: kind, args: []any{state, key}, signers: s, sdesc: sd, class: fmt.Sprintf("%s/st%d/len%d", e.presence(ph), state, len(key))}
		authorised := nw && aw && (ir || len(key) == 33)
		full := len(key) == 33
		switch {
		case !authorised:
			o.expect = expFail
		case state == 2:
			if !full || e.presence(ph) == "neither" {
				o.expect = expEither
			} else {
				o.expect = expEffect
				o.apply = func(m *model) { delete(m.legacy, ph); delete(m.v2, ph) }
				o.events = []string{evKey("UpdateStateSuccess", ph, 2)}
			}
		case state == 1 || state == 3:
			if !full || e.presence(ph) == "neither" {
				o.expect = expFail
			} else {
				o.expect = expEffect
				o.apply = func(m *model) {
					if c, ok := m.legacy[ph]; ok {
						c.state = state
						m.legacy[ph] = c
					}
					if c, ok := m.v2[ph]; ok {
						c.state = state
						m.v2[ph] = c
					}
				}
				o.events = []string{evKey("UpdateStateSuccess", ph, state)}
			}
		default:
			o.expect = expFail
		}
		return o
	}
}

// netmapEvents renders the Netmap contract's notifications of a transaction.
func (e *env) netmapEvents(r *world.TxResult) []string {
	var res []string
	for _, ev := range r.Events {
		if ev.Contract != e.nm {
			continue
		}
		switch ev.Name {
		case "AddPeerSuccess":
			if len(ev.Items) == 1 {
				res = append(res, evKey("AddPeerSuccess", hex.EncodeToString(world.Bytes(ev.Items[0]))))
				continue
			}
		case "UpdateStateSuccess":
			if len(ev.Items) == 2 {
				res = append(res, evKey("UpdateStateSuccess", hex.EncodeToString(world.Bytes(ev.Items[0])), world.Int64(ev.Items[1])))
				continue
			}
		case "AddNode":
			if len(ev.Items) == 3 {
				res = append(res, "AddNode:"+hex.EncodeToString(world.Bytes(ev.Items[0])))
				continue
			}
		}
		res = append(res, fmt.Sprint(ev.Name, world.RenderItems(ev.Items)))
	}
	return res
}

func sameStrings(a, b []string) bool {
	if len(a) != len(b) {
		return false
	}
	for i := range a {
		if a[i] != b[i] {
			return false
		}
	}
	return true
}

// execCandidateOp runs a candidate operation and judges outcome, events and
// both candidate lists.
func (e *env) execCandidateOp(o *nmOp) *world.TxResult {
	b := e.b
	r := e.w.Invoke(o.signers, e.nm, o.kind, o.args...)
	b.Tx(1)
	rs := []*world.TxResult{r}
	inert := r.Rejected != "" || r.Faulted() || (r.Diff.Empty() && len(r.Events) == 0)
	out := "effect"
	if inert {
		out = "inert"
	}
	switch o.expect {
	case expEffect:
		if !r.Halted() {
			b.Violation(fmt.Sprintf("%s with sufficient witnesses and valid arguments did not succeed: %s %s", o.kind, r.State, r.Fault), e.detail(rs, nil))
		} else {
			o.apply(e.m)
			if got := e.netmapEvents(r); !sameStrings(got, o.events) {
				b.Violation(fmt.Sprintf("%s: notifications %v, expected %v", o.kind, got, o.events), e.detail(rs, nil))
			}
		}
	case expFail:
		if !inert {
			b.Violation(fmt.Sprintf("%s (%s) must fail without effect but changed state or notified", o.kind, o.sdesc), e.detail(rs, nil))
		}
		if r.Halted() && (r.Faulted() || r.Rejected != "") {
			panic("unreachable")
		}
	case expEither:
		if !r.Diff.Empty() {
			b.Violation(fmt.Sprintf("%s for an unknown candidate changed storage", o.kind), e.detail(rs, nil))
		}
		b.Observe(fmt.Sprintf("%s Offline/remove for an unknown candidate: %s", o.kind, r.State))
	}
	if (r.Faulted() || r.Rejected != "") && !r.Diff.Empty() {
		b.Violation("failed invocation changed storage", e.detail(rs, nil))
	}
	e.checkCandidates(rs)
	b.Eval(fmt.Sprintf("%s|%s|%s|%s", o.kind, o.sdesc, o.class, out), true)
	b.Hit(fmt.Sprintf("%s:%s", o.kind, out))
	if o.expect == expEffect {
		b.Hit(o.kind + "@" + firstSeg(o.class))
	}
	return r
}

func firstSeg(s string) string {
	for i := range s {
		if s[i] == '/' {
			return s[:i]
		}
	}
	return s
}

// checkCandidates compares both candidate lists with the model.
func (e *env) checkCandidates(rs []*world.TxResult) {
	b := e.b
	rl := e.w.Read(e.nm, "netmapCandidates")
	r2 := e.w.Read(e.nm, "listCandidates")
	b.Read(2)
	if !rl.OK() || len(rl.Stack) != 1 {
		b.Violation("netmapCandidates does not answer: "+rl.Err, e.detail(rs, nil))
	} else if got, err := parseLegacyList(rl.Stack[0]); err != nil {
		b.Violation("netmapCandidates: "+err.Error(), e.detail(rs, nil))
	} else if want := e.m.legacyAll(); !got.equal(want) {
		b.Violation("netmapCandidates differs from the model", e.detail(rs, map[string]any{"got": got.String(), "want": want.String()}))
		e.resyncCandidates()
	}
	if !r2.OK() || len(r2.Stack) != 1 {
		b.Violation("listCandidates does not answer: "+r2.Err, e.detail(rs, nil))
	} else if got, err := parseV2List(r2.Stack[0]); err != nil {
		b.Violation("listCandidates: "+err.Error(), e.detail(rs, nil))
	} else if want := e.m.v2All(); !got.equal(want) {
		b.Violation("listCandidates differs from the model", e.detail(rs, map[string]any{"got": got.String(), "want": want.String()}))
		e.resyncCandidates()
	}
	e.b.State(fmt.Sprintf("L%d/V%d/%s", len(e.m.legacy), len(e.m.v2), e.stateClasses()))
}

func (e *env) stateClasses() string {
	var s []byte
	for _, n := range e.nodes {
		ph := hex.EncodeToString(n.pub)
		c := byte('-')
		if l, ok := e.m.legacy[ph]; ok {
			c = byte('0' + l.state)
		}
		d := byte('-')
		if v, ok := e.m.v2[ph]; ok {
			d = byte('0' + v.state)
		}
		s = append(s, c, d)
	}
	return string(s)
}

// resyncCandidates reloads the model from the chain after a reported
// discrepancy, so that one defect is reported once.
func (e *env) resyncCandidates() {
	e.m.legacy = map[string]legacyCand{}
	e.m.v2 = map[string]v2Cand{}
	for k, v := range e.w.Dump(e.nmID) {
		switch {
		case bytes.HasPrefix([]byte(k), []byte("candidate")):
			it, err := stackitem.Deserialize(v)
			if err != nil {
				continue
			}
			f := world.Arr(it)
			if len(f) == 2 {
				e.m.legacy[hex.EncodeToString([]byte(k[9:]))] = legacyCand{blob: world.Bytes(f[0]), state: world.Int64(f[1])}
			}
		case len(k) > 0 && k[0] == '2':
			it, err := stackitem.Deserialize(v)
			if err != nil {
				continue
			}
			f := world.Arr(it)
			if len(f) >= 4 {
				var addrs []string
				for _, a := range world.Arr(f[0]) {
					addrs = append(addrs, string(world.Bytes(a)))
				}
				attrs := map[string]string{}
				if mp, ok := f[1].(*stackitem.Map); ok {
					for _, el := range mp.Value().([]stackitem.MapElement) {
						attrs[string(world.Bytes(el.Key))] = string(world.Bytes(el.Value))
					}
				}
				e.m.v2[hex.EncodeToString([]byte(k[1:]))] = v2Cand{addrs: addrs, attrs: attrs, key: world.Bytes(f[2]), state: world.Int64(f[3])}
			}
		}
	}
}

func runC07(b *runner.Batch) {
	n := []int{4, 1, 3, 7}[b.Index%4]
	e, err := newEnv(b, n, []string{"netmap"})
	if err != nil {
		b.Inconclusive("world: " + err.Error())
		return
	}
	defer e.w.Close()
	e.addNodeKeys(6)
	nops := 150
	if b.Thorough() {
		nops = 300
	}
	epoch := int64(0)
	for i := 0; i < nops && b.NViolations() == 0; i++ {
		e.execCandidateOp(e.genC07())
		if b.Rng.IntN(20) == 0 {
			// an epoch tick is none of the six operations: it publishes the candidates and leaves both lists as they are
			// (seeded change C07-12: the tick drops the legacy record of a key that also has a structured one)
			epoch++
			r := e.w.Invoke(e.w.Alpha(), e.nm, "newEpoch", epoch)
			b.Tx(1)
			if !r.Halted() {
				b.Violation(fmt.Sprintf("newEpoch(%d) by the Alphabet failed in the middle of a candidate history: %s", epoch, r.Fault), e.detail([]*world.TxResult{r}, nil))
				break
			}
			e.checkCandidates([]*world.TxResult{r})
			b.Hit("candidate-lists-read-after-an-epoch-tick")
		}
	}
	if b.Index < 2 {
		h := b.HistoryFn()
		if len(h) > 10 {
			h = h[len(h)-10:]
		}
		b.Sample(map[string]any{"committee": n, "tail_of_history": h})
	}
}
