package upgrade

import (
	"encoding/binary"
	"fmt"
	"path/filepath"
	"strings"

	"github.com/nspcc-dev/neo-go/pkg/config"
	"github.com/nspcc-dev/neo-go/pkg/core/dao"
	"github.com/nspcc-dev/neo-go/pkg/core/native"
	"github.com/nspcc-dev/neo-go/pkg/core/state"
	"github.com/nspcc-dev/neo-go/pkg/core/storage"
	"github.com/nspcc-dev/neo-go/pkg/util"
	"github.com/nspcc-dev/neo-go/pkg/vm/stackitem"
	"github.com/nspcc-dev/neofs-contract/tests/dump"

	"verif/harness/runner"
	"verif/harness/world"
)

type dumpPlan struct {
	dir      string // relative to the repository
	id       string // label prefix of the dump files
	contract string // name inside the dump
	kind     string
	quick    bool
}

var dumpPlans = func() []dumpPlan {
	var ps []dumpPlan
	for _, net := range []string{"mainnet-3309907", "testnet-1254789"} {
		for _, c := range []string{"balance", "container", "netmap", "neofsid", "audit", "reputation"} {
			ps = append(ps, dumpPlan{dir: "testdata", id: net, contract: c, kind: c, quick: net == "testnet-1254789" && (c == "balance" || c == "container") || net == "mainnet-3309907" && c == "netmap"})
		}
	}
	return append(ps, dumpPlan{dir: "contracts/nns/testdata", id: "testnet-2281632", contract: "nns", kind: "nns", quick: true})
}()

type nopCloseStore struct{ storage.Store }

func (nopCloseStore) Close() error { return nil }

// loadDumpWorld builds a world whose chain contains the contracts (states and storages) of a dump.
func loadDumpWorld(b *runner.Batch, r *dump.Reader, batchSalt int) (*world.World, map[string]util.Uint160, error) {
	store := storage.NewMemoryStore()
	opts := world.Options{N: 1, Seed: b.Seed, Batch: b.Index*10 + batchSalt, Store: nopCloseStore{store}}
	w0, err := world.New(opts)
	if err != nil {
		return nil, nil, err
	}
	w0.Chain.Close()
	d := dao.NewSimple(store, false)
	nativeContracts := native.NewContracts(config.ProtocolConfiguration{})
	if err := nativeContracts.Management.InitializeCache(0, d); err != nil {
		return nil, nil, err
	}
	ids := map[string]int32{}
	hashes := map[string]util.Uint160{}
	var ierr error
	err = r.IterateContractStates(func(name string, st state.Contract) {
		st.UpdateCounter = 0
		if e := native.PutContractState(d, &st); e != nil && ierr == nil {
			ierr = e
		}
		ids[name] = st.ID
		hashes[name] = st.Hash
	})
	if err != nil || ierr != nil {
		return nil, nil, fmt.Errorf("contract states: %v %v", err, ierr)
	}
	err = r.IterateContractStorages(func(name string, key, value []byte) {
		id, ok := ids[name]
		if !ok {
			return
		}
		sk := make([]byte, 5+len(key))
		sk[0] = byte(d.Version.StoragePrefix)
		binary.LittleEndian.PutUint32(sk[1:], uint32(id))
		copy(sk[5:], key)
		d.Store.Put(sk, value)
	})
	if err != nil {
		return nil, nil, err
	}
	if _, err := d.PersistSync(); err != nil {
		return nil, nil, err
	}
	opts.Store = store
	opts.NoFunding = true
	w, err := world.New(opts)
	if err != nil {
		return nil, nil, err
	}
	w.SysFee = 300_0000_0000
	w.KeepHistory = false
	return w, hashes, nil
}

func findDump(repo string, p dumpPlan) (*dump.Reader, error) {
	var found *dump.Reader
	err := dump.IterateDumps(filepath.Join(repo, p.dir), func(id dump.ID, r *dump.Reader) {
		if strings.HasPrefix(id.String(), p.id) || strings.Contains(p.id, id.String()) {
			cp := *r
			found = &cp
		}
	})
	if err != nil {
		return nil, err
	}
	if found == nil {
		return nil, fmt.Errorf("dump %s not found under %s", p.id, p.dir)
	}
	return found, nil
}

// runDump: the dump is loaded twice; one copy is upgraded; the read API of both copies is compared.
func runDump(b *runner.Batch, p dumpPlan) {
	repo := world.RepoDir()
	vs, err := readVersions(repo)
	if err != nil {
		b.Inconclusive(err.Error())
		return
	}
	mk := func(salt int) (*world.World, util.Uint160, bool) {
		r, err := findDump(repo, p)
		if err != nil {
			b.Inconclusive(err.Error())
			return nil, util.Uint160{}, false
		}
		w, hs, err := loadDumpWorld(b, r, 0) // same keys in both copies
		if err != nil {
			b.Inconclusive("loading dump: " + err.Error())
			return nil, util.Uint160{}, false
		}
		h, ok := hs[p.contract]
		if !ok {
			b.Inconclusive("contract " + p.contract + " is not in the dump")
			w.Close()
			return nil, util.Uint160{}, false
		}
		if _, err := w.Adopt(p.contract, h); err != nil {
			b.Inconclusive(err.Error())
			w.Close()
			return nil, util.Uint160{}, false
		}
		if p.kind != "nns" {
			if _, err := w.Deploy("nns", b.Set["nns"], []any{[]any{[]any{"neofs", "ops@nspcc.io"}}}); err != nil {
				b.Inconclusive("deploy nns: " + err.Error())
				w.Close()
				return nil, util.Uint160{}, false
			}
			w.DesignateIR(w.Pubs)
		}
		_ = salt
		return w, h, true
	}
	w1, h1, ok := mk(1)
	if !ok {
		return
	}
	defer w1.Close()
	w2, h2, ok := mk(2)
	if !ok {
		return
	}
	defer w2.Close()
	e2 := &uenv{b: b, w: w2}
	old := e2.version(h2)
	real := b.Set[p.kind]
	var data any
	if p.kind == "netmap" {
		data = []any{false, util.Uint160{}, util.Uint160{}, []any{}, []any{}}
	}
	pending := false
	if v, ok := w2.Dump(w2.ByH[h2].ID)["ballots"]; ok {
		pending = len(v) > 2 // a non-empty serialized array
	}
	before2 := w2.Dump(w2.ByH[h2].ID)
	tr := w2.Invoke(w2.AM(), h2, "update", real.NEFBytes, real.ManBytes, data)
	b.Tx(1)
	det := map[string]any{"dump": p.id, "contract": p.contract, "version_in_dump": old, "tx": w2.RenderResult(tr, true)}
	inRange := vs.prev <= old && old < vs.cur
	switch {
	case !inRange:
		if tr.Halted() || !tr.Diff.Empty() {
			b.Violation(fmt.Sprintf("dump %s/%s at version %d is outside [%d, %d) but the upgrade was not refused without effect", p.id, p.contract, old, vs.prev, vs.cur), det)
		}
		b.Hit("dump-unsupported-version-refused")
	case !tr.Halted():
		if pending && strings.Contains(tr.Fault, "pending vote detected") {
			if !sameDump(before2, w2.Dump(w2.ByH[h2].ID)) {
				b.Violation("refused upgrade of a dump changed storage", det)
			}
			b.Hit("dump-pending-vote-refused")
		} else {
			b.Violation(fmt.Sprintf("dump %s/%s (version %d): upgrade failed: %s", p.id, p.contract, old, tr.Fault), det)
		}
	default:
		layout := w2.Dump(w2.ByH[h2].ID)
		after := snapshot(w2, p.kind, h2, layout)
		ref := snapshot(w1, p.kind, h1, layout)
		if p.kind == "nns" {
			normaliseTLDs(b, w1, h1, ref, after)
		}
		var diffs []string
		for _, d := range diffAPI(ref, after) {
			if strings.HasSuffix(d, "only answered after") {
				continue // a read method the old executable did not have
			}
			diffs = append(diffs, d)
		}
		if len(diffs) > 0 {
			b.Violation(fmt.Sprintf("dump %s/%s (version %d): %d read-API answers changed across the upgrade, e.g. %s", p.id, p.contract, old, len(diffs), strings.Join(diffs[:min(3, len(diffs))], " | ")), det)
		}
		if v := e2.version(h2); v != vs.cur {
			b.Violation(fmt.Sprintf("dump %s/%s reports version %d after the upgrade", p.id, p.contract, v), det)
		}
		b.EvalN(fmt.Sprintf("dump-reads|%s|%s", p.id, p.contract), len(ref), false)
		b.Extra("dump_read_queries_compared", len(ref))
		b.Hit("dump-upgraded")
		b.Hit("dump-upgraded:" + p.contract)
	}
	b.Eval(fmt.Sprintf("dump|%s|%s|v%d|%s", p.id, p.contract, old, tr.State), true)
	if b.Index%7 == 0 {
		b.Sample(map[string]any{"engine": "recorded dump", "dump": p.id, "contract": p.contract, "version_in_dump": old, "outcome": tr.State})
	}
}

// normaliseTLDs: the 0.17 -> 0.18 step hands top-level domains over to the committee and stops answering
// per-name reads for them: TLD queries are dropped, and for every former TLD owner balanceOf must have
// decreased by exactly the number of TLDs it owned (tokensOf is not compared for those owners).
func normaliseTLDs(b *runner.Batch, w1 *world.World, h1 util.Uint160, ref, after readAPI) {
	owned := map[string]int64{}
	for k, v := range w1.Dump(w1.ByH[h1].ID) {
		if len(k) != 21 || k[0] != 0x21 {
			continue
		}
		it, err := stackitem.Deserialize(v)
		if err != nil {
			continue
		}
		f := world.Arr(it)
		if len(f) < 3 || strings.Contains(string(world.Bytes(f[1])), ".") {
			continue
		}
		name := string(world.Bytes(f[1]))
		for q := range ref {
			if strings.Contains(q, "["+name+"]") || strings.Contains(q, "["+name+" ") {
				delete(ref, q)
				delete(after, q)
			}
		}
		if o := world.Bytes(f[0]); len(o) == 20 {
			owned[fmt.Sprintf("%x", o)]++
		}
	}
	for o, n := range owned {
		q := "balanceOf[0x" + o + "]"
		var x, y int64
		fmt.Sscan(ref[q], &x)
		fmt.Sscan(after[q], &y)
		if _, ok := ref[q]; ok && x-y != n {
			b.Violation(fmt.Sprintf("NNS upgrade: balanceOf of a former TLD owner went from %d to %d, it owned %d TLDs", x, y, n), nil)
		}
		delete(ref, q)
		delete(after, q)
		delete(ref, "tokensOf[0x"+o+"]")
		delete(after, "tokensOf[0x"+o+"]")
	}
	delete(ref, "tokens[]")
	delete(after, "tokens[]")
}
