package upgrade

import (
	"bytes"
	"crypto/sha256"
	"encoding/binary"
	"fmt"
	"os"
	"os/exec"
	"path/filepath"
	"regexp"
	"strconv"
	"strings"

	"github.com/nspcc-dev/neo-go/pkg/crypto/hash"
	"github.com/nspcc-dev/neo-go/pkg/crypto/keys"
	"github.com/nspcc-dev/neo-go/pkg/neotest"
	"github.com/nspcc-dev/neo-go/pkg/smartcontract"
	"github.com/nspcc-dev/neo-go/pkg/util"
	"github.com/nspcc-dev/neo-go/pkg/vm/stackitem"

	"verif/harness/runner"
	"verif/harness/world"
)

// ---- versions of the tree

type versions struct{ cur, prev int64 }

func readVersions(repo string) (versions, error) {
	data, err := os.ReadFile(filepath.Join(repo, "common", "version.go"))
	if err != nil {
		return versions{}, err
	}
	get := func(name string) (int64, error) {
		m := regexp.MustCompile(`(?m)^\s*` + name + `\s*=\s*(\d+)\s*$`).FindSubmatch(data)
		if m == nil {
			return 0, fmt.Errorf("constant %s not found in common/version.go", name)
		}
		return strconv.ParseInt(string(m[1]), 10, 64)
	}
	var v [6]int64
	for i, n := range []string{"major", "minor", "patch", "prevMajor", "prevMinor", "prevPatch"} {
		if v[i], err = get(n); err != nil {
			return versions{}, err
		}
	}
	return versions{cur: v[0]*1_000_000 + v[1]*1_000 + v[2], prev: v[3]*1_000_000 + v[4]*1_000 + v[5]}, nil
}

// prepareLow compiles the tree's sources from a scratch copy whose only change is a lower version.
func prepareLow(tier, work string) error {
	repo := world.RepoDir()
	vs, err := readVersions(repo)
	if err != nil {
		return err
	}
	if vs.cur <= vs.prev || vs.cur == 0 {
		return fmt.Errorf("version %d leaves no older supported version (oldest %d)", vs.cur, vs.prev)
	}
	low := vs.cur - 1
	dst := filepath.Join(work, "lowrepo")
	if out, err := exec.Command("rsync", "-a", "--exclude", ".git", repo+"/", dst+"/").CombinedOutput(); err != nil {
		return fmt.Errorf("rsync: %v %s", err, out)
	}
	defer os.RemoveAll(dst)
	p := filepath.Join(dst, "common", "version.go")
	data, err := os.ReadFile(p)
	if err != nil {
		return err
	}
	for name, val := range map[string]int64{"major": low / 1_000_000, "minor": low / 1_000 % 1_000, "patch": low % 1_000} {
		re := regexp.MustCompile(`(?m)^(\s*` + name + `\s*=\s*)\d+(\s*)$`)
		data = re.ReplaceAll(data, []byte(fmt.Sprintf("${1}%d${2}", val)))
	}
	if err := os.WriteFile(p, data, 0o644); err != nil {
		return err
	}
	if got, err := readVersions(dst); err != nil || got.cur != low {
		return fmt.Errorf("could not lower the version to %d (got %d, %v)", low, got.cur, err)
	}
	set, err := world.CompileTree(dst)
	if err != nil {
		return err
	}
	return set.Save(filepath.Join(work, "low"))
}

// ---- common world with state

type uenv struct {
	b      *runner.Batch
	w      *world.World
	ir     []*keys.PrivateKey
	irMaj  neotest.Signer
	users  []neotest.Signer
	ukeys  []*keys.PrivateKey
	probes []util.Uint160
	seq    int
}

func cidOf(blob []byte) []byte { h := sha256.Sum256(blob); return h[:] }

func ownerID(sh util.Uint160) []byte {
	return append(append([]byte{0x35}, sh.BytesBE()...), 1, 1, 1, 1)
}

func cblob(owner []byte, n int) []byte {
	b := []byte{0x0a, 0x03, 1, 2, 3, 0x12, 0x1b, 0x0a, 0x19}
	b = append(b, owner...)
	return append(b, byte(n), byte(n>>8), 0x55)
}

func eblob(cid []byte, n int) []byte {
	b := []byte{0x0a, 0x00, 0x12, 0x22, 0x0a, 0x20}
	b = append(b, cid...)
	return append(b, byte(n))
}

func nblob(pub []byte, tag byte) []byte { return append(append([]byte{0x0a, 0x21}, pub...), tag) }

func ablob(epoch int64, cid, from []byte) []byte {
	b := []byte{0x0a, 0x00, 0x11}
	var e8 [8]byte
	binary.LittleEndian.PutUint64(e8[:], uint64(epoch))
	b = append(b, e8[:]...)
	b = append(b, 0x1a, byte(2+len(cid)), 0x0a, byte(len(cid)))
	b = append(b, cid...)
	b = append(b, 0x22, byte(len(from)))
	return append(append(b, from...), 3)
}

// newWorldWithState deploys the given contract set and drives every contract into a non-trivial state.
func newWorldWithState(b *runner.Batch, n int, set world.Set, containers int, snapCount ...int64) (*uenv, error) {
	w, err := world.New(world.Options{N: n, Seed: b.Seed, Batch: b.Index})
	if err != nil {
		return nil, err
	}
	w.SysFee = 150_0000_0000
	w.KeepHistory = false
	e := &uenv{b: b, w: w}
	for i := 0; i < 3; i++ {
		e.ir = append(e.ir, world.Key(b.Seed, b.Index, "c16-ir", i))
	}
	e.irMaj = world.Multi(e.ir, smartcontract.GetMajorityHonestNodeCount(3))
	cfg := []any{[]byte("ContainerFee"), int64(0), []byte("ContainerAliasFee"), int64(0), []byte("EpochDuration"), int64(240)}
	if err := w.DeployFS(set, world.FSOptions{NetmapConfig: cfg, Alphabet: true, IR: world.Pubs(e.ir), ExtraTLDs: []string{"com"}}); err != nil {
		w.Close()
		return nil, err
	}
	var pubs []any
	for _, pk := range w.Pubs {
		pubs = append(pubs, pk.Bytes())
	}
	if _, err := w.Deploy("processing", set["processing"], []any{util.Uint160{1}}); err != nil {
		w.Close()
		return nil, err
	}
	if _, err := w.Deploy("neofs", set["neofs"], []any{false, w.H("processing"), pubs, []any{[]byte("WithdrawFee"), int64(7), []byte("InnerRingCandidateFee"), int64(9)}}); err != nil {
		w.Close()
		return nil, err
	}
	for i := 0; i < 3; i++ {
		k := world.Key(b.Seed, b.Index, "c16-user", i)
		e.ukeys = append(e.ukeys, k)
		e.users = append(e.users, world.Single(k))
		w.FundGAS(world.Hash160Of(k), 500_0000_0000)
	}
	r := b.Rng
	A := w.Alpha()
	ok := func(tr *world.TxResult, what string) error {
		if !tr.Halted() {
			return fmt.Errorf("state building step %s failed: %s %s", what, tr.State, tr.Fault)
		}
		return nil
	}
	steps := []func() error{
		func() error {
			for i, u := range e.users {
				if err := ok(w.Invoke(A, w.H("balance"), "mint", u.ScriptHash(), int64(1000*(i+1)+r.IntN(500)), []byte{1}), "mint"); err != nil {
					return err
				}
			}
			// accounts whose first address byte equals a storage prefix byte of the contract ('a' for accounts), or an
			// extreme value: a migration walking raw keys must not mistake them for something else (seeded change C16-8)
			for i, first := range []byte{'a', 'a', 0x00, 0xff, 't'} {
				h := util.Uint160{first, byte(i + 1), byte(r.IntN(256))}
				if err := ok(w.Invoke(A, w.H("balance"), "mint", h, int64(6000+i), []byte{1}), "mint"); err != nil {
					return err
				}
			}
			b.Hit("balance-account-beginning-with-a-prefix-byte")
			if err := ok(w.Invoke(A, w.H("balance"), "lock", []byte{1}, e.users[0].ScriptHash(), util.Uint160{0xcc, 1}, int64(100), int64(50)), "lock"); err != nil {
				return err
			}
			return ok(w.Invoke(A, w.H("balance"), "burn", e.users[1].ScriptHash(), int64(10), []byte{2}), "burn")
		},
		func() error {
			for i := 0; i < 3; i++ {
				pub := world.Key(b.Seed, b.Index, "c16-node", i).PublicKey().Bytes()
				if err := ok(w.Invoke(A, w.H("netmap"), "addPeerIR", nblob(pub, byte(i))), "addPeerIR"); err != nil {
					return err
				}
			}
			// a history length other than the deployed default (seeded change C16-3: a migration loop bounded by the default)
			c := runner.Pick(r, []int64{10, 10, 3, 12, 15})
			ticks := int64(3 + r.IntN(14))
			if len(snapCount) > 0 && snapCount[0] > 0 {
				c, ticks = snapCount[0], snapCount[0]+2
			}
			if c != 10 {
				if err := ok(w.Invoke(A, w.H("netmap"), "updateSnapshotCount", c), "updateSnapshotCount"); err != nil {
					return err
				}
				if ticks >= c {
					b.Hit(fmt.Sprintf("netmap-history-of-%d-filled", c))
				}
			}
			for ep := int64(1); ep <= ticks; ep++ {
				if err := ok(w.Invoke(A, w.H("netmap"), "newEpoch", ep), "tick"); err != nil {
					return err
				}
				if ep == 2 {
					pub := world.Key(b.Seed, b.Index, "c16-node", 3).PublicKey().Bytes()
					w.Invoke(A, w.H("netmap"), "addPeerIR", nblob(pub, 9))
				}
			}
			// a history that was made longer shortly before the upgrade: the ring then holds empty slots between the
			// newest maps and the moved older ones (seeded change C16-9: a migration loop that stops at the first empty slot)
			if (len(snapCount) == 0 || snapCount[0] == 0) && ticks >= c && r.IntN(2) == 0 {
				if err := ok(w.Invoke(A, w.H("netmap"), "updateSnapshotCount", c+int64(3+r.IntN(4))), "updateSnapshotCount (grow)"); err != nil {
					return err
				}
				for ep := ticks + 1; ep <= ticks+int64(r.IntN(3)); ep++ {
					if err := ok(w.Invoke(A, w.H("netmap"), "newEpoch", ep), "tick"); err != nil {
						return err
					}
				}
				b.Hit("netmap-history-grown-shortly-before-the-upgrade")
			}
			// after the last tick (the oldest layouts keep no state in the published maps) one candidate goes into
			// Maintenance: the state stored beside a legacy candidate is data too (seeded change C16-10: the candidate
			// conversion sharing a helper with the snapshot conversion, which sets Online)
			if err := ok(w.Invoke(A, w.H("netmap"), "updateStateIR", int64(3), world.Key(b.Seed, b.Index, "c16-node", 1).PublicKey().Bytes()), "updateStateIR"); err != nil {
				return err
			}
			return ok(w.Invoke(A, w.H("netmap"), "setConfig", []byte{1}, []byte("MaxObjectSize"), []byte{0, 0, 1}), "setConfig")
		},
		func() error {
			for i := 0; i < containers; i++ {
				u := i % 2
				blob := cblob(ownerID(e.users[u].ScriptHash()), i+1000*b.Index)
				tr := w.Invoke(A, w.H("container"), "put", blob, bytes.Repeat([]byte{byte(i)}, 64), e.ukeys[u].PublicKey().Bytes(), []byte{})
				if err := ok(tr, "container put"); err != nil {
					return err
				}
				if i%3 == 0 {
					if err := ok(w.Invoke(A, w.H("container"), "setEACL", eblob(cidOf(blob), i), bytes.Repeat([]byte{7}, 64), e.ukeys[u].PublicKey().Bytes(), []byte{}), "setEACL"); err != nil {
						return err
					}
				}
			}
			// named containers: the alias records are data of another shape beside the containers and the owner index, and a
			// migration that tells entries apart by their lengths meets domains of ten lengths out of 11..40 bytes in every world (all
			// of them over three batches) (seeded change C16-12: "key = owner + value" also true of the alias record of an 18-byte domain)
			for j := 0; j < 10; j++ {
				nameLen := 1 + (b.Index+3*j)%30
				name := strings.Repeat("n", nameLen-1) + string(rune('a'+j))
				if nameLen > 3 {
					name = fmt.Sprintf("%c%d-", 'a'+j, b.Index%10) + name[3:]
				}
				blob := cblob(ownerID(e.users[j%2].ScriptHash()), 500+j+1000*b.Index)
				tr := w.Invoke(A, w.H("container"), "putNamed", blob, bytes.Repeat([]byte{byte(j + 1)}, 64), e.ukeys[j%2].PublicKey().Bytes(), []byte{}, name, "")
				if err := ok(tr, "container putNamed "+name); err != nil {
					return err
				}
			}
			return nil
		},
		func() error {
			u := e.users[0]
			for _, nm := range []string{"first.com", "second.com"} {
				if err := ok(w.Invoke([]world.SignerSpec{world.G(u)}, w.H("nns"), "register", nm, u.ScriptHash(), "a@b.c", int64(1), int64(1), int64(10_000_000), int64(1)), "nns register"); err != nil {
					return err
				}
			}
			if err := ok(w.Invoke([]world.SignerSpec{world.G(u)}, w.H("nns"), "addRecord", "first.com", int64(16), "text"), "addRecord"); err != nil {
				return err
			}
			if err := ok(w.Invoke([]world.SignerSpec{world.G(u)}, w.H("nns"), "addRecord", "sub.first.com", int64(1), "1.2.3.4"), "addRecord sub"); err != nil {
				return err
			}
			return ok(w.Invoke([]world.SignerSpec{world.G(u)}, w.H("nns"), "transfer", e.users[1].ScriptHash(), "second.com", nil), "nns transfer")
		},
		func() error {
			if err := ok(w.Invoke(A, w.H("neofsid"), "addKey", ownerID(e.users[2].ScriptHash()), []any{e.ukeys[0].PublicKey().Bytes(), e.ukeys[1].PublicKey().Bytes()}), "addKey"); err != nil {
				return err
			}
			if err := ok(w.Invoke(A, w.H("reputation"), "put", int64(5), e.ukeys[0].PublicKey().Bytes(), []byte("trust")), "reputation put"); err != nil {
				return err
			}
			if err := ok(w.Invoke([]world.SignerSpec{world.G(world.Single(e.ir[0]))}, w.H("audit"), "put", ablob(4, cidOf([]byte("c")), e.ir[0].PublicKey().Bytes())), "audit put"); err != nil {
				return err
			}
			return ok(w.Invoke(A, w.H("neofs"), "setConfig", []byte{1}, []byte("SomeKey"), []byte("some value")), "neofs setConfig")
		},
	}
	for _, s := range steps {
		if err := s(); err != nil {
			w.Close()
			return nil, err
		}
	}
	return e, nil
}

func instanceOf(art string) string {
	if art == "alphabet" {
		return "alphabet0"
	}
	return art
}

func (e *uenv) version(h util.Uint160) int64 {
	rd := e.w.Read(h, "version")
	if !rd.OK() {
		return -1
	}
	return world.Int64(rd.Top())
}

func (e *uenv) checksum(h util.Uint160) uint32 {
	if cs := e.w.Chain.GetContractState(h); cs != nil {
		return cs.NEF.Checksum
	}
	return 0
}

// ---- engine A: the gate, on the real code reporting an older version

func runGate(b *runner.Batch, n int, art string) {
	vs, err := readVersions(world.RepoDir())
	if err != nil {
		b.Inconclusive(err.Error())
		return
	}
	low, err := world.LoadSet(filepath.Join(b.WorkDir, "low"))
	if err != nil {
		b.Inconclusive("down-versioned build: " + err.Error())
		return
	}
	e, err := newWorldWithState(b, n, low, 3)
	if err != nil {
		b.Inconclusive(err.Error())
		return
	}
	defer e.w.Close()
	w := e.w
	h := w.H(instanceOf(art))
	real := b.Set[art]
	before := snapshot(w, art, h, w.Dump(w.ByH[h].ID))
	if v := e.version(h); v != vs.cur-1 {
		b.Inconclusive(fmt.Sprintf("down-versioned %s reports version %d", art, v))
		return
	}
	roleGated := art == "neofs" || art == "processing"
	majIsAlpha := w.Majority.ScriptHash() == w.Alphabet.ScriptHash()
	type ss struct {
		label string
		s     []world.SignerSpec
		ok    bool
	}
	sets := []ss{{"nobody", nil, false}, {"stranger", []world.SignerSpec{world.G(e.users[2])}, false}, {"single-member", []world.SignerSpec{world.G(w.Members[0])}, false},
		{"one-inner-ring-key", []world.SignerSpec{world.G(world.Single(e.ir[0]))}, false}}
	if n%2 == 0 {
		// half of the committee: the largest coalition that is not a majority
		sets = append(sets, ss{"half-committee", []world.SignerSpec{world.G(world.Multi(w.Privs, n/2))}, false})
	}
	if roleGated {
		sets = append(sets, ss{"chain-alphabet", w.Alpha(), false}, ss{"chain-majority", w.Major(), false}, ss{"inner-ring-majority", []world.SignerSpec{world.G(e.irMaj)}, true})
	} else {
		sets = append(sets, ss{"inner-ring-majority", []world.SignerSpec{world.G(e.irMaj)}, false})
		if !majIsAlpha {
			sets = append(sets, ss{"alphabet", w.Alpha(), false})
		}
		sets = append(sets, ss{"majority", w.Major(), true})
	}
	rotate := roleGated && n == 7
	for _, s := range sets {
		var tr *world.TxResult
		if s.ok && rotate {
			// The NeoFSAlphabet role is re-designated in block N; in block N+1 the dismissed majority
			// asks for the update first and the acting one second (seeded change C16-2: a stale role height).
			var ir2 []*keys.PrivateKey
			for i := 0; i < 4; i++ {
				ir2 = append(ir2, world.Key(b.Seed, b.Index, "c16-ir2", i))
			}
			if err := w.DesignateIR(world.Pubs(ir2)); err != nil {
				b.Inconclusive("re-designation: " + err.Error())
				return
			}
			maj2 := world.Multi(ir2, smartcontract.GetMajorityHonestNodeCount(4))
			rs := w.Block(w.Prepare(s.s, h, "update", real.NEFBytes, real.ManBytes, nil),
				w.Prepare([]world.SignerSpec{world.G(maj2)}, h, "update", real.NEFBytes, real.ManBytes, nil))
			b.Tx(2)
			// (a block's storage diff is not attributable to one transaction; that the refused request
			// changed nothing follows from the acting majority's request succeeding from the old version)
			if old := rs[0]; old.Halted() {
				b.Violation(fmt.Sprintf("%s.update was granted to the majority of the Inner Ring dismissed in the previous block", art),
					map[string]any{"contract": art, "committee": n, "tx": w.RenderResult(old, true)})
				return
			}
			b.Hit("gate-refused:dismissed-inner-ring-majority")
			b.Eval(fmt.Sprintf("gate|%s|dismissed-inner-ring-majority|%s|n%d", art, rs[0].State, n), true)
			tr = rs[1]
			s.label = "inner-ring-majority designated in the previous block"
			s.s = []world.SignerSpec{world.G(maj2)}
			b.Hit("gate-accepted-after-rotation")
		} else {
			tr = w.Invoke(s.s, h, "update", real.NEFBytes, real.ManBytes, nil)
			b.Tx(1)
		}
		det := map[string]any{"contract": art, "signers": s.label, "committee": n, "tx": w.RenderResult(tr, true)}
		if !s.ok {
			if tr.Halted() || !tr.Diff.Empty() || e.version(h) != vs.cur-1 || e.checksum(h) != low[art].NEF.Checksum {
				b.Violation(fmt.Sprintf("%s.update under signer set '%s' was not refused without effect", art, s.label), det)
			}
			b.Hit("gate-refused:" + s.label)
		} else {
			if !tr.Halted() {
				b.Violation(fmt.Sprintf("%s.update with the %s witness failed: %s", art, s.label, tr.Fault), det)
				return
			}
			if v := e.version(h); v != vs.cur {
				b.Violation(fmt.Sprintf("%s reports version %d after the upgrade, the repository version is %d", art, v, vs.cur), det)
			}
			if e.checksum(h) != real.NEF.Checksum {
				b.Violation(fmt.Sprintf("%s carries another executable after the upgrade", art), det)
			}
			after := snapshot(w, art, h, w.Dump(w.ByH[h].ID))
			if d := diffAPI(before, after); len(d) > 0 {
				b.Violation(fmt.Sprintf("%s: the read API changed across the upgrade from %d: %s", art, vs.cur-1, strings.Join(d[:min(3, len(d))], " | ")), det)
			}
			b.EvalN(fmt.Sprintf("gate-reads|%s", art), len(after), false)
			b.Hit("gate-accepted:" + art)
			// a second upgrade is a rollback-or-same: refused, nothing changes
			tr2 := w.Invoke(s.s, h, "update", real.NEFBytes, real.ManBytes, nil)
			b.Tx(1)
			if tr2.Halted() || !strings.Contains(tr2.Fault, "already of the latest version") || !tr2.Diff.Empty() {
				b.Violation(fmt.Sprintf("%s: upgrading from the current version was not refused with 'already of the latest version': %s %s", art, tr2.State, tr2.Fault), nil)
			}
			b.Hit("gate-same-version-refused")
			// the same with caller data naming an older, supported version: the contract's own version decides
			tr3 := w.Invoke(s.s, h, "update", real.NEFBytes, real.ManBytes, []any{vs.prev, "caller data"})
			b.Tx(1)
			if art != "alphabet" {
				if tr3.Halted() || !strings.Contains(tr3.Fault, "already of the latest version") {
					b.Violation(fmt.Sprintf("%s: upgrading from the current version with caller data [%d, ...] was not refused with 'already of the latest version': %s %s", art, vs.prev, tr3.State, tr3.Fault), nil)
				}
				b.Hit("gate-same-version-refused-with-caller-data")
			}
		}
		b.Eval(fmt.Sprintf("gate|%s|%s|%s|n%d", art, s.label, tr.State, n), true)
	}
	b.State(fmt.Sprintf("gate|%s|n%d", art, n))
}

// ---- engine B: version bounds and synthetic legacy storages through the shim

type variant struct {
	v          int64
	notary     string // absent | false | true-empty | true-stale | true-pending   (only for v < 17000)
	legacyKeys bool   // container: un-prefixed keys
	snapCount  int64  // netmap: history length set before the ticks (0: PRNG-chosen), with enough ticks to fill it
	lead       int64  // caller data in front of the version handed to _deploy (0: none)
}

func serialize(it stackitem.Item) []byte {
	data, err := stackitem.Serialize(it)
	if err != nil {
		panic(err)
	}
	return data
}

func ballotsValue(kind string, height int64) []byte {
	mk := func(h int64) stackitem.Item {
		return stackitem.NewStruct([]stackitem.Item{stackitem.NewByteArray([]byte("ballot-id")), stackitem.NewArray([]stackitem.Item{stackitem.NewByteArray(bytes.Repeat([]byte{2}, 33))}), stackitem.Make(h)})
	}
	switch kind {
	case "true-stale":
		return serialize(stackitem.NewArray([]stackitem.Item{mk(0)}))
	case "true-pending-before-stale":
		// several decisions in the list, the one in progress not the last: a re-voted ballot is refreshed in place
		// (seeded change C16-11: only the last ballot's age looked at)
		return serialize(stackitem.NewArray([]stackitem.Item{mk(height), mk(0)}))
	case "true-pending-between-stale":
		return serialize(stackitem.NewArray([]stackitem.Item{mk(0), mk(height), mk(1)}))
	case "true-stale-before-pending":
		return serialize(stackitem.NewArray([]stackitem.Item{mk(0), mk(height)}))
	case "true-several-stale":
		return serialize(stackitem.NewArray([]stackitem.Item{mk(0), mk(1), mk(0)}))
	case "true-pending", "true-age20", "true-age21":
		// for the two boundary kinds the height is rewritten right before the update (ballotAtAge)
		return serialize(stackitem.NewArray([]stackitem.Item{mk(height)}))
	}
	return serialize(stackitem.NewArray([]stackitem.Item{}))
}

var hasNotarySwitch = map[string]bool{"balance": true, "container": true, "netmap": true, "audit": true, "neofsid": true, "reputation": true}

// legacyLayout rewrites a current-layout dump of `art` into the layout of version vr.v.
// It returns the storage to poke and the keys that the migration must remove again.
func (e *uenv) legacyLayout(art string, cur map[string][]byte, vr variant) map[string][]byte {
	out := map[string][]byte{}
	for k, v := range cur {
		out[k] = v
	}
	w := e.w
	if hasNotarySwitch[art] && vr.v < 17_000 && vr.notary != "absent" {
		if vr.notary == "false" {
			out["notary"] = []byte{0}
		} else {
			out["notary"] = []byte{1}
			if art != "audit" { // the Audit contract never collected votes
				out["ballots"] = ballotsValue(vr.notary, int64(w.Height()))
			}
		}
		switch art {
		case "balance":
			out["netmapScriptHash"] = w.H("netmap").BytesBE()
			out["containerScriptHash"] = w.H("container").BytesBE()
		case "netmap":
			out["innerring"] = serialize(stackitem.NewArray([]stackitem.Item{}))
		case "audit":
			out["netmapScriptHash"] = w.H("netmap").BytesBE()
		case "neofsid":
			out["containerScriptHash"] = w.H("container").BytesBE()
		}
	}
	switch art {
	case "balance":
		if vr.v < 20_000 {
			for k, v := range cur {
				if len(k) == 21 && k[0] == 'a' {
					delete(out, k)
					out[k[1:]] = v
				}
			}
		}
	case "container":
		if vr.legacyKeys {
			for k, v := range cur {
				if (len(k) == 33 && k[0] == 'x') || (len(k) == 58 && k[0] == 'o') {
					delete(out, k)
					out[k[1:]] = v
				}
			}
		}
	case "neofsid":
		if vr.v < 19_000 {
			out["netmapScriptHash"] = w.H("netmap").BytesBE()
		}
	case "netmap":
		for k := range cur {
			if len(k) == 22 && k[0] == 'e' {
				delete(out, k)
			}
		}
		if vr.v < 19_000 {
			out["balanceScriptHash"] = e.probes[0].BytesBE()
			out["containerScriptHash"] = e.probes[1].BytesBE()
		} else {
			out["e\x00"+string(e.probes[0].BytesBE())] = []byte{}
			out["e\x01"+string(e.probes[1].BytesBE())] = []byte{}
		}
		if vr.v < 16_000 {
			for k, v := range cur {
				switch {
				case strings.HasPrefix(k, "snapshot_"):
					it, err := stackitem.Deserialize(v)
					if err != nil {
						continue
					}
					var old []stackitem.Item
					for _, nd := range world.Arr(it) {
						if f := world.Arr(nd); len(f) == 2 {
							old = append(old, stackitem.NewStruct([]stackitem.Item{f[0]}))
						}
					}
					out[k] = serialize(stackitem.NewArray(old))
				case strings.HasPrefix(k, "candidate"):
					it, err := stackitem.Deserialize(v)
					if err != nil {
						continue
					}
					if f := world.Arr(it); len(f) == 2 {
						out[k] = serialize(stackitem.NewStruct([]stackitem.Item{stackitem.NewStruct([]stackitem.Item{f[0]}), f[1]}))
					}
				}
			}
		}
	case "nns":
		if vr.v < 18_000 {
			committee := w.Majority.ScriptHash().BytesBE()
			cnt := int64(0)
			for k, v := range cur {
				if len(k) == 21 && k[0] == 0x21 {
					it, err := stackitem.Deserialize(v)
					if err != nil {
						continue
					}
					f := world.Arr(it)
					if len(f) == 4 && !strings.Contains(string(world.Bytes(f[1])), ".") {
						name := world.Bytes(f[1])
						out[k] = serialize(stackitem.NewStruct([]stackitem.Item{stackitem.NewByteArray(committee), f[1], f[2], f[3]}))
						out["\x02"+string(committee)+string(hash.RipeMD160(name).BytesBE())] = name
						cnt++
					}
				}
			}
			if cnt > 0 {
				if old, ok := cur["\x01"+string(committee)]; ok {
					cnt += world.LEInt(old).Int64()
				}
				b, _ := stackitem.Make(cnt).TryBytes()
				out["\x01"+string(committee)] = b
			}
		}
	}
	return out
}

func (e *uenv) poke(h util.Uint160, kv map[string][]byte) error {
	var batch []any
	size := 0
	flush := func() error {
		if len(batch) == 0 {
			return nil
		}
		tr := e.w.Invoke(nil, h, "pokeMany", batch)
		e.b.Tx(1)
		batch, size = nil, 0
		if !tr.Halted() {
			return fmt.Errorf("pokeMany: %s %s", tr.State, tr.Fault)
		}
		return nil
	}
	var ks []string
	for k := range kv {
		ks = append(ks, k)
	}
	for _, k := range ks {
		v := kv[k]
		if v == nil {
			v = []byte{}
		}
		batch = append(batch, []byte(k), v)
		size += len(k) + len(v) + 8
		if size > 40000 || len(batch) >= 400 {
			if err := flush(); err != nil {
				return err
			}
		}
	}
	return flush()
}

// updateData: what ContractManagement hands to _deploy(isUpdate) — the caller's data followed by the deployed
// version (common.AppendVersion). lead != 0 puts caller data in front: a number chosen so that a reader of
// the wrong element would take the opposite decision, and a string (seeded change C16-4).
func updateData(art string, v, lead int64) []any {
	if art == "alphabet" {
		return []any{false, nil, nil, "letter", v}
	}
	if lead != 0 {
		return []any{lead, "caller data", v}
	}
	return []any{v}
}

// runSynthetic: one world, one contract, one version/variant.
func runSynthetic(b *runner.Batch, art string, vr variant, containers int) {
	vs, err := readVersions(world.RepoDir())
	if err != nil {
		b.Inconclusive(err.Error())
		return
	}
	e, err := newWorldWithState(b, 1, b.Set, containers, vr.snapCount)
	if err != nil {
		b.Inconclusive(err.Error())
		return
	}
	defer e.w.Close()
	w := e.w
	for i := 0; i < 2; i++ {
		d, err := w.Deploy(fmt.Sprintf("probe%d", i), b.Helpers["probe"].Renamed(fmt.Sprintf("Verif Probe %d", i)), int64(i))
		if err != nil {
			b.Inconclusive(err.Error())
			return
		}
		e.probes = append(e.probes, d.Hash)
	}
	// enough height for a stale ballot to be older than the 20-block window
	w.EmptyBlocks(25)
	inst := instanceOf(art)
	A := w.C[inst]
	real := b.Set[art]
	snd := world.Single(world.Key(b.Seed, b.Index, "c16-shimdeployer", 0))
	w.FundGAS(snd.ScriptHash(), 2000_0000_0000)
	B, err := w.DeployFrom(snd, "shim-"+art, b.Helpers["shim"].Renamed(real.Manifest.Name), nil)
	if err != nil {
		b.Inconclusive("deploy shim: " + err.Error())
		return
	}
	curA := w.Dump(A.ID)
	legacy := e.legacyLayout(art, curA, vr)
	if err := e.poke(B.Hash, legacy); err != nil {
		b.Inconclusive(err.Error())
		return
	}
	// ballots exactly 20 (still live: the upgrade must be refused) and 21 (stale: purged) blocks old when the
	// update transaction runs (seeded change C16-5: the two sites that judge a ballot's age disagree at 20)
	if _, has := legacy["ballots"]; has && (vr.notary == "true-age20" || vr.notary == "true-age21") {
		age := int64(20)
		if vr.notary == "true-age21" {
			age = 21
		}
		for w.Height() < 30 {
			w.EmptyBlocks(1)
		}
		cur := int64(w.Height())
		// this poke is block cur+1, the update runs in block cur+2 and sees ledger.CurrentIndex() = cur+1
		if err := e.poke(B.Hash, map[string][]byte{"ballots": ballotsValue(vr.notary, cur+1-age)}); err != nil {
			b.Inconclusive(err.Error())
			return
		}
		if int64(w.Height()) != cur+1 {
			b.Inconclusive("the ballot rewrite took more than one block")
			return
		}
	}
	ref := snapshot(w, art, A.Hash, curA)
	if art == "alphabet" {
		delete(ref, "gas[]")
		delete(ref, "neo[]")
	}
	pokedDump := w.Dump(B.ID)
	if len(pokedDump) > 500 {
		w.SysFee = 8000_0000_0000 // thousands of storage rewrites in one transaction
	}
	tr := w.Invoke(nil, B.Hash, "update", real.NEFBytes, real.ManBytes, updateData(art, vr.v, vr.lead))
	if vr.lead != 0 && art != "alphabet" {
		b.Hit("update-with-leading-caller-data")
	}
	w.SysFee = 150_0000_0000
	b.Tx(1)
	pending := hasNotarySwitch[art] && art != "audit" && vr.v < 17_000 && (vr.notary == "true-pending" || vr.notary == "true-age20" ||
		vr.notary == "true-pending-before-stale" || vr.notary == "true-pending-between-stale" || vr.notary == "true-stale-before-pending")
	inRange := vs.prev <= vr.v && vr.v < vs.cur
	expOK := inRange && !pending
	det := map[string]any{"contract": art, "reported_version": vr.v, "notary_flag": vr.notary, "legacy_keys": vr.legacyKeys, "tx": w.RenderResult(tr, true), "oldest_supported": vs.prev, "new_version": vs.cur}
	cls := "in-range"
	switch {
	case vr.v < vs.prev:
		cls = "too-old"
	case vr.v >= vs.cur:
		cls = "not-older"
	case pending:
		cls = "pending-vote"
	}
	if expOK != tr.Halted() {
		b.Violation(fmt.Sprintf("%s: upgrade from reported version %d (%s): expected success=%v, got %s %s", art, vr.v, cls, expOK, tr.State, tr.Fault), det)
	}
	if !tr.Halted() {
		want := map[string]string{"too-old": "previous version mismatch", "not-older": "already of the latest version", "pending-vote": "pending vote detected"}[cls]
		if want != "" && !strings.Contains(tr.Fault, want) {
			b.Violation(fmt.Sprintf("%s: upgrade from %d refused with %q, expected %q", art, vr.v, trunc(tr.Fault, 100), want), det)
		}
		if !tr.Diff.Empty() || !sameDump(pokedDump, w.Dump(B.ID)) || e.checksum(B.Hash) == real.NEF.Checksum {
			b.Violation(fmt.Sprintf("%s: a refused upgrade changed something", art), det)
		}
		b.Hit("bounds-refused:" + cls)
		if cls == "pending-vote" && strings.Contains(vr.notary, "stale") {
			b.Hit("bounds-refused:pending-vote-among-stale-ones")
		}
		if cls == "pending-vote" && vr.notary == "true-age20" {
			b.Hit("bounds-refused:pending-vote-aged-20-blocks")
		}
	} else {
		after := snapshot(w, art, B.Hash, w.Dump(B.ID))
		delete(after, "gas[]")
		delete(after, "neo[]")
		if d := diffAPI(ref, after); len(d) > 0 {
			b.Violation(fmt.Sprintf("%s: the read API after upgrading a version-%d storage differs from the state it was derived from: %s", art, vr.v, strings.Join(d[:min(3, len(d))], " | ")), det)
		}
		b.EvalN(fmt.Sprintf("synthetic-reads|%s|%s", art, migrationClass(vr.v)), len(after), false)
		// raw dump: exactly the current layout again
		if d := dumpDiff(art, curA, w.Dump(B.ID), e); len(d) > 0 {
			b.Violation(fmt.Sprintf("%s: raw storage after the upgrade from %d is not the current layout: %s", art, vr.v, strings.Join(d[:min(4, len(d))], " | ")), det)
		}
		if v := e.version(B.Hash); v != vs.cur {
			b.Violation(fmt.Sprintf("%s reports version %d after the upgrade", art, v), det)
		}
		if art == "netmap" {
			// the migrated subscriber list still delivers ticks, in order
			ep := world.Int64(w.Read(B.Hash, "epoch").Top())
			tk := w.Invoke(w.Alpha(), B.Hash, "newEpoch", ep+1)
			b.Tx(1)
			var ticks []int64
			for _, ev := range tk.Events {
				if ev.Name == "Tick" && len(ev.Items) == 2 {
					ticks = append(ticks, world.Int64(ev.Items[0]))
				}
			}
			if !tk.Halted() || fmt.Sprint(ticks) != "[0 1]" {
				b.Violation(fmt.Sprintf("netmap upgraded from %d: tick %s %s, subscribers called %v (expected [0 1])", vr.v, tk.State, tk.Fault, ticks), det)
			}
		}
		if art == "balance" {
			// a migrated lock account still unlocks
			tk := w.Invoke(w.Alpha(), B.Hash, "newEpoch", int64(60))
			b.Tx(1)
			lock := w.Read(B.Hash, "balanceOf", util.Uint160{0xcc, 1})
			if !tk.Halted() || world.Int64(lock.Top()) != 0 {
				b.Violation(fmt.Sprintf("balance upgraded from %d: the migrated lock account was not released by an epoch tick", vr.v), det)
			}
		}
		b.Hit("upgrade-ok:" + migrationClass(vr.v))
		b.Hit("upgrade-ok:" + art)
		if hasNotarySwitch[art] && vr.v < 17_000 {
			b.Hit("notary-flag:" + vr.notary)
		}
	}
	b.Eval(fmt.Sprintf("upgrade|%s|%s|%s|%s|legacy%v|%s", art, cls, migrationClass(vr.v), vr.notary, vr.legacyKeys, tr.State), true)
	b.State(fmt.Sprintf("%s|%s|%s", art, migrationClass(vr.v), vr.notary))
}

func migrationClass(v int64) string {
	switch {
	case v < 16_000:
		return "<0.16"
	case v < 17_000:
		return "<0.17"
	case v < 18_000:
		return "<0.18"
	case v < 19_000:
		return "<0.19"
	case v < 20_000:
		return "<0.20"
	}
	return ">=0.20"
}

func sameDump(a, b map[string][]byte) bool {
	if len(a) != len(b) {
		return false
	}
	for k, v := range a {
		if w, ok := b[k]; !ok || !bytes.Equal(v, w) {
			return false
		}
	}
	return true
}

// dumpDiff compares the migrated storage with the current-layout storage it was derived from.
func dumpDiff(art string, want, got map[string][]byte, e *uenv) []string {
	var res []string
	skip := func(k string) bool {
		return art == "netmap" && len(k) == 22 && k[0] == 'e'
	}
	for k, v := range want {
		if skip(k) {
			continue
		}
		g, ok := got[k]
		if !ok {
			res = append(res, fmt.Sprintf("key %q… is missing", trunc(k, 16)))
		} else if !bytes.Equal(g, v) && !sameItem(g, v) {
			res = append(res, fmt.Sprintf("value of %q… differs", trunc(k, 16)))
		}
	}
	for k := range got {
		if skip(k) {
			continue
		}
		if _, ok := want[k]; !ok {
			res = append(res, fmt.Sprintf("residue of the old layout: key %q… (%d bytes)", trunc(k, 20), len(k)))
		}
	}
	return res
}

// sameItem: two serialized stack items that denote the same value (an empty list may be stored as Null).
func sameItem(a, b []byte) bool {
	ia, ea := stackitem.Deserialize(a)
	ib, eb := stackitem.Deserialize(b)
	if ea != nil || eb != nil {
		return false
	}
	empty := func(it stackitem.Item) bool {
		return world.IsNull(it) || (world.Arr(it) != nil && len(world.Arr(it)) == 0)
	}
	return world.Canon(ia) == world.Canon(ib) || (empty(ia) && empty(ib))
}

func versionList(vs versions) []int64 {
	return []int64{0, vs.prev - 1, vs.prev, vs.prev + 1, 15_999, 16_000, 16_999, 17_000, 17_999, 18_000, 18_999, 19_000, 19_999, vs.cur - 1, vs.cur, vs.cur + 1, 1 << 31}
}

var notaryKinds = []string{"absent", "false", "true-empty", "true-stale", "true-pending", "true-age20", "true-age21",
	"true-pending-before-stale", "true-pending-between-stale", "true-stale-before-pending", "true-several-stale"}

// ---- batches

type plan struct {
	kind string // gate | bounds | synthetic | dump
	art  string
	n    int
	idx  int
}

func plans(tier string) []plan {
	var ps []plan
	for _, n := range []int{3, 7, 4} {
		for _, a := range world.ContractNames {
			ps = append(ps, plan{kind: "gate", art: a, n: n})
		}
	}
	for _, a := range world.ContractNames {
		ps = append(ps, plan{kind: "bounds", art: a})
	}
	ns := 40
	if tier == "thorough" {
		ns = 600
	}
	for i := 0; i < ns; i++ {
		ps = append(ps, plan{kind: "synthetic", idx: i})
	}
	for i := 0; i < len(dumpPlans); i++ {
		if tier != "thorough" && !dumpPlans[i].quick {
			continue
		}
		ps = append(ps, plan{kind: "dump", idx: i})
	}
	return ps
}

func runC16(b *runner.Batch) {
	ps := plans(b.Tier)
	if b.Index >= len(ps) {
		return
	}
	p := ps[b.Index]
	switch p.kind {
	case "gate":
		runGate(b, p.n, p.art)
		if b.Index < 2 {
			b.Sample(map[string]any{"engine": "gate", "contract": p.art, "committee": p.n, "signer_sets": "nobody, stranger, single member, one Inner Ring key, Alphabet (2/3+1), Inner Ring majority, committee majority"})
		}
	case "bounds":
		vs, err := readVersions(world.RepoDir())
		if err != nil {
			b.Inconclusive(err.Error())
			return
		}
		for _, v := range versionList(vs) {
			if v < 0 {
				continue
			}
			runSynthetic(b, p.art, variant{v: v, notary: "absent", legacyKeys: v < 17_000}, 2)
			if b.NViolations() > 0 {
				return
			}
		}
		// caller data in front of the version: an in-range version in front of a refused one and vice versa
		for _, vl := range [][2]int64{{vs.cur, vs.prev}, {vs.cur - 1, vs.cur}, {vs.prev - 1, vs.cur - 1}} {
			if vl[0] < 0 {
				continue
			}
			runSynthetic(b, p.art, variant{v: vl[0], notary: "absent", legacyKeys: vl[0] < 17_000, lead: vl[1]}, 2)
			if b.NViolations() > 0 {
				return
			}
		}
		if p.art == "netmap" {
			// histories longer and shorter than the deployed default, completely filled, from the oldest layouts
			for _, c := range []int64{12, 3} {
				for _, v := range []int64{vs.prev, 16_500} {
					runSynthetic(b, p.art, variant{v: v, notary: "absent", legacyKeys: true, snapCount: c}, 2)
					if b.NViolations() > 0 {
						return
					}
				}
			}
		}
		if hasNotarySwitch[p.art] {
			for _, nk := range notaryKinds {
				runSynthetic(b, p.art, variant{v: 16_500, notary: nk, legacyKeys: true}, 2)
				if b.NViolations() > 0 {
					return
				}
			}
		}
		b.Hit("version-bounds:" + p.art)
	case "synthetic":
		vs, err := readVersions(world.RepoDir())
		if err != nil {
			b.Inconclusive(err.Error())
			return
		}
		arts := []string{"balance", "container", "netmap", "nns", "neofsid", "audit", "reputation"}
		art := arts[p.idx%len(arts)]
		// versions inside the supported range, one per migration class, PRNG-chosen within the class
		classes := [][2]int64{{vs.prev, 15_999}, {16_000, 16_999}, {17_000, 17_999}, {18_000, 18_999}, {19_000, min(19_999, vs.cur-1)}}
		c := classes[p.idx%len(classes)]
		v := c[0]
		if c[1] > c[0] {
			v = c[0] + b.Rng.Int64N(c[1]-c[0]+1)
		}
		vr := variant{v: v, notary: notaryKinds[(p.idx*3+p.idx/5)%len(notaryKinds)], legacyKeys: b.Rng.IntN(3) != 0}
		if b.Rng.IntN(3) == 0 {
			vr.lead = vs.cur
		}
		containers := 2 + b.Rng.IntN(5)
		if art == "container" && p.idx%35 == 1 {
			containers = 1200 // the migration iterates the store it rewrites
			b.Hit("thousand-item-storage")
		}
		runSynthetic(b, art, vr, containers)
	case "dump":
		runDump(b, dumpPlans[p.idx])
	}
}

func init() {
	runner.Register(&runner.Check{
		ID: "C16", Level: "exploration",
		Rule: "Three engines executing the tree's real update/_deploy(isUpdate). Gate: the current sources compiled from a scratch copy whose only change is a lower version number are deployed on committees of 3, 7 and 4 (there also: half of the committee as a signer set) with state in every contract, and update to the real build is attempted under {nobody, stranger, single member, one Inner Ring key, Alphabet 2/3+1, Inner Ring majority, committee majority}; for the role-gated main-chain contracts on the committee of 7 the NeoFSAlphabet role is re-designated in block N and block N+1 carries the update request of the dismissed majority (must be refused) followed by that of the acting one (must be granted); refusals must change nothing, the accepted upgrade must preserve the whole read API, a second upgrade must be refused. Bounds + synthetic legacy storages: a shim contract carrying the target's manifest name is filled (raw pokes) with the state of a live contract of the same world rewritten into the layout of the reported version {0, oldest-1, oldest, oldest+1, 15999..19999 class borders, new-1, new, new+1, 2^31} x notary flag {absent, false, true with no / stale / pending ballots} x legacy key layout, then upgraded; success iff oldest <= v < new and no pending vote, the read API and the raw storage afterwards must equal the live contract's, migrated subscribers must still receive ticks in order and migrated locks must unlock. Recorded dumps: the repository's network dumps are loaded twice, one copy upgraded, and the read API of both copies compared. distinct = (engine, contract, version class, flag variant, signer set, outcome). Ballot lists with several decisions are synthesised too (the one in progress first, in the middle, last; several stale ones).",
		Assumptions: []string{"neo-go v0.107.0 VM, ledger, ContractManagement are the trusted base", "contracts are compiled at check time from /repo/contracts; the down-versioned build differs only in common/version.go",
			"the legacy layouts are reconstructed from the migration code's documented expectations (un-prefixed balance accounts, un-prefixed container keys, pre-0.16 node structures, notary/ballots flags, legacy subscriber keys, committee-owned TLD entries); the pre-0.17 non-notary Alphabet contract migration (GAS redistribution) is not synthesised"},
		Batches: func(t string) int { return len(plans(t)) },
		Helpers: []string{"probe", "shim"}, Chunk: 2,
		Prepare: prepareLow,
		Floors: []string{"gate-refused:nobody", "gate-refused:half-committee", "gate-refused:single-member", "gate-refused:alphabet", "gate-refused:chain-majority", "gate-refused:inner-ring-majority", "gate-accepted:balance", "gate-accepted:container", "gate-accepted:netmap", "gate-accepted:nns", "gate-accepted:neofs", "gate-accepted:processing", "gate-accepted:proxy", "gate-accepted:alphabet", "gate-accepted:audit", "gate-accepted:neofsid", "gate-accepted:reputation", "gate-same-version-refused", "gate-same-version-refused-with-caller-data", "update-with-leading-caller-data", "gate-refused:dismissed-inner-ring-majority", "gate-accepted-after-rotation", "netmap-history-of-12-filled", "netmap-history-of-3-filled",
			"bounds-refused:too-old", "bounds-refused:not-older", "bounds-refused:pending-vote", "upgrade-ok:<0.16", "upgrade-ok:<0.17", "upgrade-ok:<0.18", "upgrade-ok:<0.19", "upgrade-ok:<0.20", "notary-flag:true-stale", "notary-flag:true-age21", "bounds-refused:pending-vote-aged-20-blocks", "notary-flag:true-empty", "notary-flag:false", "version-bounds:nns", "version-bounds:balance", "dump-upgraded"},
		Run: runC16,
	})
}
