// Package upgrade holds the monitors of C16: contract upgrade is committee-gated,
// version-monotonic and data-preserving.
package upgrade

import (
	"fmt"
	"sort"
	"strings"

	"github.com/nspcc-dev/neo-go/pkg/util"
	"github.com/nspcc-dev/neo-go/pkg/vm/stackitem"

	"verif/harness/world"
)

// readAPI is a snapshot of everything observable through a contract's read API:
// query -> canonical answer ("FAULT" for refusals).
type readAPI map[string]string

// flatNode normalises network map entries across API generations: [[blob], state] (pre-0.16 candidates),
// [blob] (pre-0.16 snapshot nodes, implicitly Online) and [blob, state] all denote (blob, state).
func flatNode(x stackitem.Item) stackitem.Item {
	f := world.Arr(x)
	switch {
	case len(f) == 2 && world.Arr(f[0]) != nil && len(world.Arr(f[0])) == 1:
		return stackitem.NewStruct([]stackitem.Item{world.Arr(f[0])[0], f[1]})
	case len(f) == 1:
		if _, isArr := f[0].(*stackitem.Array); !isArr {
			if _, isStruct := f[0].(*stackitem.Struct); !isStruct {
				return stackitem.NewStruct([]stackitem.Item{f[0], stackitem.Make(1)})
			}
		}
	}
	return x
}

func canonSet(it stackitem.Item) string {
	var xs []string
	for _, x := range world.Arr(it) {
		xs = append(xs, world.Canon(flatNode(x)))
	}
	sort.Strings(xs)
	return "{" + strings.Join(xs, ";") + "}"
}

type reader struct {
	w    *world.World
	h    util.Uint160
	has  map[string]bool
	snap readAPI
}

func newReader(w *world.World, h util.Uint160) *reader {
	r := &reader{w: w, h: h, has: map[string]bool{}, snap: readAPI{}}
	if cs := w.Chain.GetContractState(h); cs != nil {
		for _, m := range cs.Manifest.ABI.Methods {
			r.has[fmt.Sprintf("%s/%d", m.Name, len(m.Parameters))] = true
		}
	}
	return r
}

func (r *reader) q(set bool, method string, args ...any) {
	if !r.has[fmt.Sprintf("%s/%d", method, len(args))] {
		return
	}
	key := method + fmt.Sprint(world.RenderArgs(args))
	rd := r.w.Read(r.h, method, args...)
	if mp, ok := rd.Top().(*stackitem.Map); ok && rd.OK() && method == "properties" {
		// the admin field was added to properties later: kept as a query of its own
		var base []string
		for _, el := range mp.Value().([]stackitem.MapElement) {
			if string(world.Bytes(el.Key)) == "admin" {
				r.snap["properties.admin"+fmt.Sprint(world.RenderArgs(args))] = world.Canon(el.Value)
				continue
			}
			base = append(base, world.Canon(el.Key)+"="+world.Canon(el.Value))
		}
		sort.Strings(base)
		r.snap[key] = strings.Join(base, ";")
		return
	}
	switch {
	case !rd.OK():
		r.snap[key] = "FAULT"
	case set:
		r.snap[key] = canonSet(rd.Top())
	case world.IsNull(rd.Top()) || (world.Arr(rd.Top()) != nil && len(world.Arr(rd.Top())) == 0):
		r.snap[key] = "[]" // "nothing" is Null in some generations of the API and an empty list in others
	default:
		r.snap[key] = world.Canon(rd.Top())
	}
}

// snapshot reads the whole read API of a contract of the given kind. The argument sets are
// enumerated from `layout`, a storage dump in the current layout (prefix conventions of the tree).
func snapshot(w *world.World, kind string, h util.Uint160, layout map[string][]byte) readAPI {
	r := newReader(w, h)
	switch kind {
	case "balance":
		r.q(false, "totalSupply")
		r.q(false, "decimals")
		r.q(false, "symbol")
		for k := range layout {
			if len(k) == 21 && k[0] == 'a' {
				r.q(false, "balanceOf", []byte(k[1:]))
			}
		}
		r.q(false, "balanceOf", make([]byte, 20))
	case "container":
		owners := map[string]bool{}
		for k := range layout {
			switch {
			case len(k) == 33 && k[0] == 'x':
				cid := []byte(k[1:])
				r.q(false, "get", cid)
				r.q(false, "owner", cid)
				r.q(false, "eACL", cid)
				r.q(false, "alias", cid)
			case len(k) == 58 && k[0] == 'o':
				owners[k[1:26]] = true
			}
		}
		for o := range owners {
			r.q(true, "list", []byte(o))
			r.q(true, "containersOf", []byte(o))
		}
		r.q(true, "list", []byte{})
		r.q(true, "containersOf", []byte{})
		r.q(false, "count")
		r.q(false, "get", make([]byte, 32))
	case "netmap":
		r.q(false, "epoch")
		r.q(true, "netmap")
		r.q(true, "netmapCandidates")
		r.q(true, "listCandidates")
		r.q(true, "listNodes")
		r.q(true, "listConfig")
		n := int64(10)
		if v, ok := layout["snapshotCount"]; ok {
			n = world.LEInt(v).Int64()
		}
		for d := int64(0); d <= n; d++ {
			r.q(true, "snapshot", d)
		}
		for k := range layout {
			if strings.HasPrefix(k, "config") {
				r.q(false, "config", []byte(k[6:]))
			}
		}
		r.q(false, "config", []byte("no such key"))
	case "nns":
		r.q(false, "totalSupply")
		r.q(true, "roots")
		r.q(true, "tokens")
		r.q(false, "getPrice")
		owners := map[string]bool{}
		for k, v := range layout {
			switch {
			case len(k) == 21 && k[0] == 0x21:
				it, err := stackitem.Deserialize(v)
				if err != nil {
					continue
				}
				f := world.Arr(it)
				if len(f) < 3 {
					continue
				}
				name := string(world.Bytes(f[1]))
				r.q(false, "ownerOf", name)
				r.q(false, "properties", name)
				r.q(false, "isAvailable", name)
				r.q(true, "getAllRecords", name)
				for _, t := range []int64{1, 5, 6, 16, 28} {
					r.q(false, "getRecords", name, t)
				}
				r.q(false, "resolve", name, int64(16))
				if o := world.Bytes(f[0]); len(o) == 20 && strings.Contains(name, ".") {
					owners[string(o)] = true
				}
			}
		}
		for o := range owners {
			r.q(false, "balanceOf", []byte(o))
			r.q(true, "tokensOf", []byte(o))
		}
	case "neofsid":
		owners := map[string]bool{}
		for k := range layout {
			if len(k) == 1+25+33 && k[0] == 'o' {
				owners[k[1:26]] = true
			}
		}
		for o := range owners {
			r.q(true, "key", []byte(o))
		}
		r.q(true, "key", make([]byte, 25))
	case "audit":
		r.q(true, "list")
		for k := range layout {
			if len(k) >= 56 {
				r.q(false, "get", []byte(k))
			}
		}
	case "reputation":
		for k := range layout {
			if len(k) > 1 && k[0] == 'c' {
				r.q(false, "getByID", []byte(k[1:]))
			}
		}
		for _, e := range []int64{0, 1, 2, 3, 100} {
			r.q(true, "listByEpoch", e)
		}
	case "alphabet":
		r.q(false, "gas")
		r.q(false, "neo")
		r.q(false, "name")
	case "neofs":
		r.q(true, "alphabetList")
		r.q(false, "alphabetAddress")
		r.q(true, "innerRingCandidates")
		r.q(true, "listConfig")
		for k := range layout {
			if strings.HasPrefix(k, "config") {
				r.q(false, "config", []byte(k[6:]))
			}
		}
	case "processing", "proxy":
		// nothing but version and verify
	}
	return r.snap
}

// diffAPI lists the queries whose answers differ (or are missing on one side).
func diffAPI(before, after readAPI) []string {
	var res []string
	for k, v := range before {
		a, ok := after[k]
		if !ok {
			res = append(res, fmt.Sprintf("%s: answered before, not asked after", k))
		} else if a != v {
			res = append(res, fmt.Sprintf("%s: %s -> %s", k, trunc(v, 120), trunc(a, 120)))
		}
	}
	for k := range after {
		if _, ok := before[k]; !ok {
			res = append(res, fmt.Sprintf("%s: only answered after", k))
		}
	}
	sort.Strings(res)
	return res
}

func trunc(s string, n int) string {
	if len(s) > n {
		return s[:n] + "…"
	}
	return s
}
