// Package deployc holds the monitors of C13: the committee-run deployment procedure
// converges, deploys exactly once and is idempotent; its pure helpers are exact.
package deployc

import (
	"bytes"
	"context"
	"encoding/json"
	"errors"
	"fmt"
	"github.com/nspcc-dev/neo-go/pkg/neorpc"
	"math"
	"math/rand/v2"
	"os"
	"slices"
	"sort"
	"strconv"
	"strings"
	"sync"
	"sync/atomic"
	"time"

	"github.com/nspcc-dev/neo-go/pkg/core/block"
	"github.com/nspcc-dev/neo-go/pkg/core/native/nativenames"
	"github.com/nspcc-dev/neo-go/pkg/core/native/noderoles"
	"github.com/nspcc-dev/neo-go/pkg/core/transaction"
	"github.com/nspcc-dev/neo-go/pkg/neorpc/result"
	"github.com/nspcc-dev/neo-go/pkg/network/payload"
	"github.com/nspcc-dev/neo-go/pkg/rpcclient"
	"github.com/nspcc-dev/neo-go/pkg/rpcclient/invoker"
	"github.com/nspcc-dev/neo-go/pkg/rpcclient/unwrap"
	"github.com/nspcc-dev/neo-go/pkg/smartcontract/trigger"
	"github.com/nspcc-dev/neo-go/pkg/util"
	"github.com/nspcc-dev/neo-go/pkg/wallet"
	"github.com/nspcc-dev/neofs-contract/contracts"
	"github.com/nspcc-dev/neofs-contract/deploy"
	"go.uber.org/zap"

	"verif/harness/node"
	"verif/harness/runner"
	"verif/harness/world"
)

// ---- the client boundary: records every submission, injects delays

type rpcEvent struct {
	Member int    `json:"member"`
	Height uint32 `json:"height"`
	Call   string `json:"call"`
	Info   string `json:"info,omitempty"`
	Err    string `json:"err,omitempty"`
}

type recorder struct {
	mu     sync.Mutex
	events []rpcEvent
	calls  atomic.Int64
}

func (r *recorder) add(e rpcEvent) {
	r.mu.Lock()
	r.events = append(r.events, e)
	r.mu.Unlock()
}

type adapter struct {
	*rpcclient.Internal
	member int
	nd     *node.Node
	rec    *recorder
	jitter time.Duration
	rng    *rand.Rand
	rmu    sync.Mutex
	// crash gate: the member's process dies right after it has handed the transaction that registers crashOn
	// (an NNS name) to the node; everything it tries to send afterwards is lost
	// hold: the transaction that hands in this member's signature (calls *Record for holdOn) is kept back until
	// holdUntil says go (a delay at the client boundary, as a slow link would cause)
	holdOn    string
	holdUntil func() bool
	// refuseOnce: the first transaction calling this method is answered like a node whose sender cannot pay the fee
	// just now ("Insufficient funds"), without reaching the pool; the same transaction is acceptable a moment later
	refuseOnce string
	refused    atomic.Bool
	crashOn    string
	crashVerb  string // part of the method name the transaction must call ("register", "Record")
	// ... or right after its crashAfter-th accepted submission (transactions and notary requests counted together)
	crashAfter int
	sent       atomic.Int64
	crashed    atomic.Bool
	onCrash    func()
}

// accepted counts a submission the node took and lets the member die if that was the chosen one.
func (a *adapter) accepted() {
	if n := a.sent.Add(1); a.crashAfter > 0 && n == int64(a.crashAfter) && a.crashed.CompareAndSwap(false, true) {
		a.rec.add(rpcEvent{Member: a.member, Height: a.nd.Height(), Call: "crash", Info: fmt.Sprintf("right after its accepted submission #%d", n)})
		a.onCrash()
	}
}

func (a *adapter) delay() {
	a.rec.calls.Add(1)
	if a.jitter <= 0 {
		return
	}
	a.rmu.Lock()
	d := time.Duration(a.rng.Int64N(int64(a.jitter)))
	a.rmu.Unlock()
	time.Sleep(d)
}

func (a *adapter) SubscribeToNewBlocks() (<-chan *block.Block, error) {
	ch := make(chan *block.Block, 1000)
	_, err := a.ReceiveBlocks(nil, ch)
	return ch, err
}

func (a *adapter) SubscribeToNotaryRequests() (<-chan *result.NotaryRequestEvent, error) {
	ch := make(chan *result.NotaryRequestEvent, 1000)
	_, err := a.ReceiveNotaryRequests(nil, ch)
	return ch, err
}

func (a *adapter) SendRawTransaction(tx *transaction.Transaction) (util.Uint256, error) {
	a.delay()
	if a.crashed.Load() {
		a.rec.add(rpcEvent{Member: a.member, Height: a.nd.Height(), Call: "sendrawtransaction", Err: "member is down (injected crash)"})
		return util.Uint256{}, errors.New("member is down (injected crash)")
	}
	if a.refuseOnce != "" && bytes.Contains(tx.Script, []byte(a.refuseOnce)) && a.refused.CompareAndSwap(false, true) {
		a.rec.add(rpcEvent{Member: a.member, Height: a.nd.Height(), Call: "sendrawtransaction", Info: "injected refusal of the first " + a.refuseOnce, Err: "Insufficient funds (-511) - insufficient funds (injected)"})
		return util.Uint256{}, fmt.Errorf("%w: injected", neorpc.ErrInsufficientFunds)
	}
	if a.holdOn != "" && a.holdUntil != nil && bytes.Contains(tx.Script, []byte(a.holdOn)) && bytes.Contains(tx.Script, []byte("Record")) {
		for !a.holdUntil() {
			time.Sleep(3 * time.Millisecond)
		}
	}
	h, err := a.Internal.SendRawTransaction(tx)
	if err == nil && a.crashOn != "" && bytes.Contains(tx.Script, []byte(a.crashOn)) && bytes.Contains(tx.Script, []byte(a.crashVerb)) && a.crashed.CompareAndSwap(false, true) {
		a.rec.add(rpcEvent{Member: a.member, Height: a.nd.Height(), Call: "crash", Info: "right after sending the transaction that calls *" + a.crashVerb + "* for " + a.crashOn})
		a.onCrash()
	}
	ev := rpcEvent{Member: a.member, Height: a.nd.Height(), Call: "sendrawtransaction", Info: fmt.Sprintf("tx %s sender %s signers %d vub %d", tx.Hash().StringLE()[:12], tx.Sender().StringLE()[:8], len(tx.Signers), tx.ValidUntilBlock)}
	if err != nil {
		ev.Err = err.Error()
	}
	a.rec.add(ev)
	if err == nil {
		a.accepted()
	}
	return h, err
}

func (a *adapter) SubmitP2PNotaryRequest(req *payload.P2PNotaryRequest) (util.Uint256, error) {
	a.delay()
	if a.crashed.Load() {
		return util.Uint256{}, errors.New("member is down (injected crash)")
	}
	h, err := a.Internal.SubmitP2PNotaryRequest(req)
	ev := rpcEvent{Member: a.member, Height: a.nd.Height(), Call: "submitnotaryrequest", Info: fmt.Sprintf("main %s", req.MainTransaction.Hash().StringLE()[:12])}
	if err != nil {
		ev.Err = err.Error()
	}
	a.rec.add(ev)
	if err == nil {
		a.accepted()
	}
	return h, err
}

func (a *adapter) GetBlockCount() (uint32, error) {
	a.delay()
	return a.Internal.GetBlockCount()
}

type glagolitsa struct{}

func (glagolitsa) Size() int                  { return 41 }
func (glagolitsa) LetterByIndex(i int) string { return fmt.Sprintf("letter%d", i) }

// ---- scenarios

type scenario struct {
	N         int
	BlockMS   int
	Offsets   []int // start offset per member, in blocks
	JitterMS  int
	RestartOf int // member to interrupt (-1: none)
	RestartAt int // blocks after that member's start (with RestartWhen: after the condition became true)
	// RestartWhen makes the first interruption state-triggered: the run is cancelled as soon as the
	// chain shows the named stage boundary (see stageReached)
	RestartWhen string
	// RestartDelay: blocks between an interruption and the new start of that member
	RestartDelay int
	// StayAway: the interrupted member comes back only after the Notary role is designated (it crashed in the
	// middle of the bootstrap and the others have to do without it)
	StayAway bool
	// second interruption: another member, or the same one again after its restart (-1: none)
	Restart2Of int
	Restart2At int
	Absent     []int // members that start only after the Notary role is designated
	// LateOf starts only 135 blocks after an early signer's signature (or, without one, the shared
	// transaction data) has appeared in the NNS, i.e. after that data expired (-1: none)
	LateOf int
	// LateAlso: further members that wait like LateOf, all of them for the signature in LateDomain
	LateAlso []int
	// Stagger: members 1..N-2 hand their signatures in together, and only after the highest member's signature has been
	// in the NNS for three blocks (the leader has seen it alone)
	Stagger bool
	// RefuseDesignation: the leader's first submission of the transaction designating the Notary role is refused as
	// unaffordable (as on a chain where the leader has just spent its GAS); it must simply be sent again
	RefuseDesignation bool
	LateDomain        string
	Label             string
}

// longAbsence: in a committee of two, one member goes down when the Notary role appears and stays away for 750 blocks.
// Everything the other one asks the Notary service for in the meantime expires unsigned, and each expired request costs
// it a part of its Notary deposit (a request lives about 70 blocks, a deposit pays for eight): the deposit has to be
// refilled on the way, or the member can neither ask nor co-sign any more when its partner is back (seeded change
// C13-11: the refill carries an expiration height the Notary contract refuses). Faster blocks keep the run short.
func longAbsence(s scenario, of int) scenario {
	s.BlockMS = 40
	s.RestartOf, s.RestartWhen, s.RestartAt, s.RestartDelay = of, "notary-designated", 0, 750
	return s
}

func scenarios(tier string, seed uint64) (res []scenario) {
	r := rand.New(rand.NewPCG(seed, 0xC13))
	mk := func(n int, label string) scenario {
		s := scenario{N: n, BlockMS: 70, RestartOf: -1, Restart2Of: -1, LateOf: -1, Label: label}
		s.Offsets = make([]int, n)
		return s
	}
	jit := func(s scenario) scenario {
		for i := range s.Offsets {
			s.Offsets[i] = r.IntN(12)
		}
		s.JitterMS = 5 + r.IntN(25)
		return s
	}
	if tier != "thorough" {
		res = append(res, mk(1, "plain"))
		res = append(res, jit(mk(2, "jitter")))
		s := jit(mk(3, "absent-minority"))
		s.Absent = []int{1}
		res = append(res, s)
		s = jit(mk(4, "restart"))
		s.RestartOf, s.RestartAt = 2, 40+r.IntN(60)
		res = append(res, s)
		res = append(res, jit(mk(4, "jitter")))
		s = jit(mk(3, "leader-restart"))
		s.RestartOf, s.RestartAt = 0, 30+r.IntN(80)
		res = append(res, s)
		res = append(res, lateMajority(jit(mk(4, "late-majority")), r))
		res = append(res, signerGone(mk(4, "late-majority-signer-gone")))
		// staggered arrival: the highest member signs first, two lower ones arrive together a few blocks later
		// (first seeded change for C13: a per-pass signature counter next to a multi-tick map)
		s = mk(4, "staggered")
		s.Stagger = true
		res = append(res, s)
		// the node refuses the leader's first designation transaction for lack of funds (seeded change C13-10: "tried"
		// noted before the outcome of the submission is known)
		s = mk(3, "designation-refused-once")
		s.RefuseDesignation = true
		res = append(res, s)
		// the only member is interrupted right at a stage boundary (seeded change C13-3: a restart between the two role designations)
		// (every offset of the few blocks between the designation and the first transaction that needs it:
		// seeded change C13-5 needs the leader to come back exactly there)
		// a non-leading member crashes right after registering its signature domain, before it has published the
		// signature, and stays away: leader and the remaining member are a majority (seeded change C13-7)
		s = mk(3, "crash-mid-bootstrap")
		s.RestartOf, s.RestartWhen, s.RestartAt, s.StayAway = 1, "sigdomain:1", 0, true
		res = append(res, s)
		for _, ad := range [][2]int{{0, 0}, {0, 1}, {1, 0}} {
			s = mk(1, "stage-restart")
			s.RestartOf, s.RestartWhen, s.RestartAt, s.RestartDelay = 0, "notary-designated", ad[0], ad[1]
			res = append(res, s)
		}
		s = jit(mk(2, "stage-restart"))
		s.RestartOf, s.RestartWhen, s.RestartAt = r.IntN(2), runner.Pick(r, stages), r.IntN(3)
		res = append(res, s)
		res = append(res, longAbsence(mk(2, "long-absence"), 1))
		// crash points: a member dies right after its k-th accepted submission and starts again 0-3 blocks later.
		// A lone member makes 26 of them, a leader of three about 40, another member about 23 (counted on the
		// unchanged tree); the quick tier draws four points per seed, the thorough tier runs them all.
		for _, c := range [][3]int{{1, 0, 1 + r.IntN(26)}, {1, 0, 1 + r.IntN(26)}, {3, 0, 1 + r.IntN(40)}, {3, 1 + r.IntN(2), 1 + r.IntN(23)}} {
			res = append(res, crashPoint(mk(c[0], "crash-point"), c[1], c[2], r.IntN(4)))
		}
		return res
	}
	defer func() {
		// thorough: every interrupted member comes back after a PRNG-chosen number of blocks
		for i := range res {
			if res[i].RestartOf >= 0 && res[i].RestartDelay == 0 {
				res[i].RestartDelay = r.IntN(6)
			}
		}
	}()
	for k := 1; k <= 28; k++ {
		res = append(res, crashPoint(mk(1, "crash-point"), 0, k, r.IntN(4)))
	}
	for k := 1; k <= 42; k++ {
		res = append(res, crashPoint(jit(mk(3, "crash-point")), 0, k, r.IntN(4)))
	}
	for k := 1; k <= 25; k++ {
		res = append(res, crashPoint(jit(mk(3, "crash-point")), 1+k%2, k, r.IntN(4)))
	}
	res = append(res, longAbsence(mk(2, "long-absence"), 1), longAbsence(mk(2, "long-absence"), 0))
	for n := 1; n <= 7; n++ {
		res = append(res, mk(n, "plain"))
		res = append(res, jit(mk(n, "jitter")))
		s := jit(mk(n, "reverse-order"))
		for i := range s.Offsets {
			s.Offsets[i] = (n - 1 - i) * 4
		}
		res = append(res, s)
		for k := 0; k < 2; k++ {
			s = jit(mk(n, "restart"))
			s.RestartOf = r.IntN(n)
			s.RestartAt = 5 + r.IntN(250)
			res = append(res, s)
		}
		s = jit(mk(n, "leader-restart"))
		s.RestartOf, s.RestartAt = 0, 5+r.IntN(200)
		res = append(res, s)
		if n >= 2 {
			s = jit(mk(n, "double-restart"))
			s.RestartOf, s.RestartAt = r.IntN(n), 5+r.IntN(150)
			s.Restart2Of, s.Restart2At = r.IntN(n), 20+r.IntN(200)
			res = append(res, s)
		}
		s = jit(mk(n, "absent-minority"))
		if n >= 3 {
			maj := n/2 + 1
			// absent: a PRNG-chosen set of n-maj non-leading members
			perm := r.Perm(n - 1)
			for _, p := range perm[:n-maj] {
				s.Absent = append(s.Absent, p+1)
			}
			sort.Ints(s.Absent)
		}
		res = append(res, s)
		if n >= 3 {
			res = append(res, lateMajority(jit(mk(n, "late-majority")), r))
		}
		if n >= 4 {
			res = append(res, signerGone(mk(n, "late-majority-signer-gone")))
			s = mk(n, "staggered")
			s.Stagger = true
			res = append(res, s)
			s = jit(mk(n, "designation-refused-once"))
			s.RefuseDesignation = true
			res = append(res, s)
		}
		if n >= 3 {
			s = jit(mk(n, "crash-mid-bootstrap"))
			k := 1 + r.IntN(n/2) // low index: the leader meets it before the members it still needs
			s.RestartOf, s.RestartWhen, s.RestartAt, s.StayAway = k, fmt.Sprintf("sigdomain:%d", k), 0, true
			res = append(res, s)
		}
		if n <= 2 {
			for _, st := range stages {
				s = jit(mk(n, "stage-restart"))
				s.RestartOf, s.RestartWhen, s.RestartAt = r.IntN(n), st, r.IntN(2)
				res = append(res, s)
			}
		} else {
			s = jit(mk(n, "stage-restart"))
			s.RestartOf, s.RestartWhen, s.RestartAt = r.IntN(n), runner.Pick(r, stages), r.IntN(3)
			res = append(res, s)
		}
	}
	return res
}

// signerGone: one member short of a majority starts at once; member 1 hands in its signature and dies (it comes back
// only when the Notary role is there); the two members that complete a majority without it join after the shared
// transaction data has expired, i.e. the leader, alive all the time, holds a signature for data that is no longer
// current when the new ones arrive (seeded change C13-8: collected signatures surviving a re-generation).
func signerGone(s scenario) scenario {
	maj := s.N/2 + 1
	s.RestartOf, s.RestartWhen, s.RestartAt, s.StayAway = 1, "sigpublished:1", 0, true
	s.LateOf, s.LateAlso, s.LateDomain = maj-1, []int{maj}, "designate-committee-notary-1.bootstrap"
	for i := maj + 1; i < s.N; i++ {
		s.Absent = append(s.Absent, i)
	}
	return s
}

// crashPoint: member of dies right after its k-th accepted submission and comes back delay blocks later.
func crashPoint(s scenario, of, k, delay int) scenario {
	s.RestartOf, s.RestartWhen, s.RestartAt, s.RestartDelay = of, fmt.Sprintf("sends:%d", k), 0, delay
	return s
}

// lateMajority: one member short of a majority starts at once and publishes signatures, the member
// completing the majority joins only after the shared transaction data has expired (120 blocks
// after it was published); the rest stays away until the Notary role is designated.
func lateMajority(s scenario, r *rand.Rand) scenario {
	maj := s.N/2 + 1
	for i := range s.Offsets {
		switch {
		case i < maj-1:
			s.Offsets[i] = r.IntN(4)
		case i == maj-1:
			s.Offsets[i] = r.IntN(30)
			s.LateOf = i
		default:
			s.Offsets[i] = 0
			s.Absent = append(s.Absent, i)
		}
	}
	return s
}

const blockBudget = 1500

type memberRun struct {
	started    bool // Deploy was called at least once (startBlock may legitimately be 0)
	startBlock uint32
	endBlock   uint32
	err        error
	done       bool
	restarts   int
}

func buildPrm(nd *node.Node, i int, a *adapter, log *zap.Logger) (deploy.Prm, error) {
	cs, err := contracts.GetFS()
	if err != nil {
		return deploy.Prm{}, err
	}
	if len(cs) != 9 {
		return deploy.Prm{}, fmt.Errorf("GetFS returned %d contracts", len(cs))
	}
	valAcc, err := nd.ValidatorAccount(i)
	if err != nil {
		return deploy.Prm{}, err
	}
	var prm deploy.Prm
	prm.Logger = log
	prm.Blockchain = a
	prm.LocalAccount = wallet.NewAccountFromPrivateKey(nd.Privs[i])
	prm.ValidatorMultiSigAccount = valAcc
	c := func(k int) deploy.CommonDeployPrm {
		return deploy.CommonDeployPrm{NEF: cs[k].NEF, Manifest: cs[k].Manifest}
	}
	prm.NNS.Common = c(0)
	prm.NNS.SystemEmail = "nonexistent@nspcc.io"
	prm.ProxyContract.Common = c(1)
	prm.AuditContract.Common = c(2)
	prm.NetmapContract.Common = c(3)
	prm.NetmapContract.Config = deploy.NetworkConfiguration{MaxObjectSize: 1 << 20, EpochDuration: 240, ContainerFee: 1000, ContainerAliasFee: 500, EigenTrustIterations: 4, EigenTrustAlpha: 0.1}
	prm.BalanceContract.Common = c(4)
	prm.ReputationContract.Common = c(5)
	prm.NeoFSIDContract.Common = c(6)
	prm.ContainerContract.Common = c(7)
	prm.AlphabetContract.Common = c(8)
	prm.Glagolitsa = glagolitsa{}
	return prm, nil
}

// stageReached: chain-observable boundaries between the stages of the procedure.
func stageReached(nd *node.Node, stage string) bool {
	resolves := func(name string) bool {
		h, err := nd.Chain.GetContractScriptHash(1)
		if err != nil {
			return false
		}
		recs, err := (&chainReader{nd: nd}).resolveTXT(h, name)
		return err == nil && len(recs) > 0
	}
	if strings.HasPrefix(stage, "sigdomain:") {
		// the member's signature domain is registered but holds no record yet
		h, err := nd.Chain.GetContractScriptHash(1)
		if err != nil {
			return false
		}
		name := "designate-committee-notary-" + strings.TrimPrefix(stage, "sigdomain:") + ".bootstrap"
		cli, err := nd.Client()
		if err != nil {
			return false
		}
		free, err := unwrap.Bool(invoker.New(cli, nil).Call(h, "isAvailable", name))
		return err == nil && !free && !resolves(name)
	}
	switch stage {
	case "nns-deployed":
		_, err := nd.Chain.GetContractScriptHash(1)
		return err == nil
	case "notary-designated":
		return notaryDesignated(nd)
	case "alphabet-designated":
		ks, _, _ := nd.Chain.GetDesignatedByRole(noderoles.NeoFSAlphabet)
		return len(ks) > 0
	case "proxy-registered":
		return resolves("proxy.neofs")
	case "netmap-registered":
		return resolves("netmap.neofs")
	case "container-registered":
		return resolves("container.neofs")
	}
	return false
}

// stageReachedRecord: does the NNS hold a TXT record for name?
func stageReachedRecord(nd *node.Node, name string) bool {
	h, err := nd.Chain.GetContractScriptHash(1)
	if err != nil {
		return false
	}
	recs, err := (&chainReader{nd: nd}).resolveTXT(h, name)
	return err == nil && len(recs) > 0
}

var stages = []string{"nns-deployed", "notary-designated", "alphabet-designated", "proxy-registered", "netmap-registered", "container-registered"}

func notaryDesignated(nd *node.Node) bool {
	ks, _, _ := nd.Chain.GetDesignatedByRole(noderoles.P2PNotary)
	return len(ks) > 0
}

var invalidSubmission = []string{"nvalid signature", "-508", "nvalid witness", "witness check failed", "signature check failed"}

func runScenario(b *runner.Batch, sc scenario) {
	blockTime := time.Duration(sc.BlockMS) * time.Millisecond
	nd, err := node.New(b.Seed, b.Index, sc.N, blockTime, zap.NewNop())
	if err != nil {
		b.Inconclusive("node: " + err.Error())
		return
	}
	defer nd.Cleanup()
	nd.Run(blockTime)
	rec := &recorder{}
	b.HistoryFn = func() []any {
		rec.mu.Lock()
		defer rec.mu.Unlock()
		ev := rec.events
		if len(ev) > 300 {
			ev = ev[len(ev)-300:]
		}
		res := []any{fmt.Sprintf("scenario %+v", sc)}
		for _, e := range ev {
			res = append(res, e)
		}
		return res
	}
	absent := map[int]bool{}
	for _, a := range sc.Absent {
		absent[a] = true
	}
	runs := make([]*memberRun, sc.N)
	var mu sync.Mutex
	var wg sync.WaitGroup
	start := time.Now()
	watchdog := 12 * time.Minute
	waitBlocks := func(k int) {
		t := nd.Height() + uint32(k)
		for nd.Height() < t && time.Since(start) < watchdog {
			time.Sleep(blockTime / 2)
		}
	}
	var lateRegenerated atomic.Bool
	// the barrier of a staggered scenario
	var staggerArrived atomic.Int64
	var staggerSeenAt atomic.Int64
	staggerGo := func() bool {
		if time.Since(start) > watchdog || notaryDesignated(nd) {
			return true
		}
		if staggerSeenAt.Load() == 0 {
			if stageReachedRecord(nd, fmt.Sprintf("designate-committee-notary-%d.bootstrap", sc.N-1)) {
				staggerSeenAt.CompareAndSwap(0, int64(nd.Height()))
			}
			return false
		}
		return staggerArrived.Load() >= int64(sc.N-2) && int64(nd.Height()) >= staggerSeenAt.Load()+3
	}
	var runMember func(i int, first bool)
	runMember = func(i int, first bool) {
		defer wg.Done()
		if first && (sc.LateOf == i || slices.Contains(sc.LateAlso, i)) {
			// wait for the record that is about to become stale, then let the shared data expire
			domain := "designate-committee-notary-tx.bootstrap"
			if i >= 2 {
				domain = fmt.Sprintf("designate-committee-notary-%d.bootstrap", i-1)
			}
			if sc.LateDomain != "" {
				domain = sc.LateDomain
			}
			cr := &chainReader{nd: nd}
			read := func(name string) string {
				h, err := nd.Chain.GetContractScriptHash(1)
				if err != nil {
					return ""
				}
				recs, _ := cr.resolveTXT(h, name)
				return strings.Join(recs, ",")
			}
			for read(domain) == "" && time.Since(start) < watchdog && nd.Height() < 3*blockBudget {
				time.Sleep(blockTime)
			}
			shared := read("designate-committee-notary-tx.bootstrap")
			waitBlocks(135)
			if now := read("designate-committee-notary-tx.bootstrap"); shared != "" && now != "" && now != shared {
				lateRegenerated.Store(true)
			}
		}
		if first {
			waitBlocks(sc.Offsets[i])
			if absent[i] {
				for !notaryDesignated(nd) && time.Since(start) < watchdog && nd.Height() < blockBudget {
					time.Sleep(blockTime)
				}
			}
		}
		cli, err := nd.Client()
		if err != nil {
			mu.Lock()
			runs[i].err, runs[i].done = err, true
			mu.Unlock()
			return
		}
		a := &adapter{Internal: cli, member: i, nd: nd, rec: rec, jitter: time.Duration(sc.JitterMS) * time.Millisecond, rng: rand.New(rand.NewPCG(b.Seed, uint64(b.Index*100+i)))}
		if sc.RefuseDesignation && i == 0 {
			a.refuseOnce = "designateAsRole"
		}
		if sc.Stagger && i >= 1 && i <= sc.N-2 {
			var once sync.Once
			a.holdOn = fmt.Sprintf("designate-committee-notary-%d.bootstrap", i)
			a.holdUntil = func() bool {
				once.Do(func() { staggerArrived.Add(1) })
				return staggerGo()
			}
		}
		lg := zap.NewNop()
		if f := os.Getenv("VERIF_C13_DEBUG"); f != "" {
			cfg := zap.NewDevelopmentConfig()
			cfg.OutputPaths = []string{fmt.Sprintf("%s-%d-log-member%d", f, b.Index, i)}
			if l, err := cfg.Build(); err == nil {
				lg = l
			}
		}
		prm, err := buildPrm(nd, i, a, lg)
		if err != nil {
			mu.Lock()
			runs[i].err, runs[i].done = err, true
			mu.Unlock()
			return
		}
		ctx, cancel := context.WithCancel(context.Background())
		mu.Lock()
		runs[i].startBlock, runs[i].started = nd.Height(), true
		mu.Unlock()
		interrupted := false
		at := -1
		mu.Lock()
		nth := runs[i].restarts
		mu.Unlock()
		switch {
		case nth == 0 && sc.RestartOf == i:
			at = sc.RestartAt
		case sc.Restart2Of == i && ((sc.RestartOf == i && nth == 1) || (sc.RestartOf != i && nth == 0)):
			at = sc.Restart2At
		}
		if at >= 0 {
			when := ""
			if nth == 0 && sc.RestartOf == i {
				when = sc.RestartWhen
			}
			if strings.HasPrefix(when, "sigdomain:") || strings.HasPrefix(when, "sends:") || strings.HasPrefix(when, "sigpublished:") {
				// decided at the member's own client boundary, not by polling the chain: the member dies with the
				// registration of its signature domain sent and the signature not yet published (or right after its
				// k-th accepted submission), on every schedule
				if strings.HasPrefix(when, "sends:") {
					a.crashAfter, _ = strconv.Atoi(strings.TrimPrefix(when, "sends:"))
				} else if strings.HasPrefix(when, "sigpublished:") {
					// ... or with its signature handed in (the record transaction accepted by the node)
					a.crashOn, a.crashVerb = "designate-committee-notary-"+strings.TrimPrefix(when, "sigpublished:")+".bootstrap", "Record"
				} else {
					a.crashOn, a.crashVerb = "designate-committee-notary-"+strings.TrimPrefix(when, "sigdomain:")+".bootstrap", "register"
				}
				a.onCrash = func() {
					mu.Lock()
					interrupted = true
					mu.Unlock()
					cancel()
				}
			} else {
				go func() {
					for when != "" && !stageReached(nd, when) && time.Since(start) < watchdog && nd.Height() < 3*blockBudget {
						mu.Lock()
						d := runs[i].done
						mu.Unlock()
						if d {
							return
						}
						time.Sleep(blockTime / 4)
					}
					waitBlocks(at)
					mu.Lock()
					if !runs[i].done {
						interrupted = true
					}
					mu.Unlock()
					cancel()
				}()
			}
		}
		derr := deploy.Deploy(ctx, prm)
		mu.Lock()
		wasInterrupted := interrupted
		mu.Unlock()
		if wasInterrupted && derr != nil {
			// an interrupted run: start again with a fresh client
			rec.add(rpcEvent{Member: i, Height: nd.Height(), Call: "interrupted", Err: derr.Error()})
			mu.Lock()
			runs[i].restarts++
			mu.Unlock()
			wg.Add(1)
			go func() {
				defer cancel()
				waitBlocks(sc.RestartDelay)
				if sc.StayAway {
					for !notaryDesignated(nd) && time.Since(start) < watchdog && nd.Height() < 3*blockBudget {
						time.Sleep(blockTime)
					}
				}
				runMember(i, false)
			}()
			return
		}
		_ = cancel // never cancel a finished client's context while the RPC server lives
		mu.Lock()
		runs[i].err, runs[i].done, runs[i].endBlock = derr, true, nd.Height()
		mu.Unlock()
	}
	for i := 0; i < sc.N; i++ {
		runs[i] = &memberRun{}
		wg.Add(1)
		go runMember(i, true)
	}
	doneCh := make(chan struct{})
	go func() { wg.Wait(); close(doneCh) }()
	// progress bound in blocks; the wall clock only yields "inconclusive"
	timedOut, overBudget := false, false
wait:
	for {
		select {
		case <-doneCh:
			break wait
		case <-time.After(time.Second):
			if time.Since(start) > watchdog {
				timedOut = true
				break wait
			}
			mu.Lock()
			for i, r := range runs {
				if !r.done && r.started && nd.Height() > r.startBlock+blockBudget {
					overBudget = true
					_ = i
				}
			}
			mu.Unlock()
			if overBudget {
				break wait
			}
		}
	}
	det := func() map[string]any {
		m := map[string]any{"scenario": sc, "height": nd.Height(), "rpc_calls": rec.calls.Load()}
		var rs []string
		mu.Lock()
		for i, r := range runs {
			rs = append(rs, fmt.Sprintf("member %d: start %d end %d done %v restarts %d err %v", i, r.startBlock, r.endBlock, r.done, r.restarts, r.err))
		}
		mu.Unlock()
		m["members"] = rs
		m["notary_role_designated"] = notaryDesignated(nd)
		return m
	}
	b.Extra("blocks_produced", int(nd.Height()))
	b.Extra("rpc_calls_recorded", int(rec.calls.Load()))
	key := fmt.Sprintf("n%d|%s", sc.N, sc.Label)
	if overBudget {
		b.Violation(fmt.Sprintf("deployment (n=%d, %s) did not finish within %d blocks of a member's (re)start although blocks kept coming", sc.N, sc.Label, blockBudget), det())
		b.Eval("scenario|"+key+"|no-progress", true)
		return
	}
	if timedOut {
		b.Inconclusive(fmt.Sprintf("wall-clock watchdog fired at height %d (n=%d, %s)", nd.Height(), sc.N, sc.Label))
		return
	}
	if nd.BlockErr != nil {
		b.Inconclusive("block producer: " + nd.BlockErr.Error())
		return
	}
	for i, r := range runs {
		if r.err != nil {
			b.Violation(fmt.Sprintf("Deploy of member %d returned an error: %v", i, r.err), det())
		}
	}
	if b.NViolations() > 0 {
		return
	}
	// submissions the node refused as invalid (an assembled multi-signature that does not verify)
	rec.mu.Lock()
	bad := 0
	var firstBad rpcEvent
	for _, e := range rec.events {
		if e.Err == "" {
			continue
		}
		for _, pat := range invalidSubmission {
			if strings.Contains(e.Err, pat) {
				if bad == 0 {
					firstBad = e
				}
				bad++
				break
			}
		}
	}
	nEvents := len(rec.events)
	rec.mu.Unlock()
	if bad > 0 {
		b.Violation(fmt.Sprintf("the procedure submitted %d transactions the node refused as invalid, first: member %d at height %d: %s (%s)", bad, firstBad.Member, firstBad.Height, firstBad.Err, firstBad.Info), det())
	}
	b.Extra("submissions_recorded", nEvents)
	// bounded progress, second form: silence of a lone member. A committee of one has nobody to wait for: while
	// the deployment is unfinished it either has something to try or a transaction of its own outstanding, and
	// those expire within 140 blocks (unchanged tree: at most 10 blocks without any attempt). A lone member
	// attempting nothing for more than 150 blocks is a stall, even if block rewards happen to end it (seeded
	// change C13-5). With several members silence is recorded, not judged: a restarted member may have to wait
	// for the others or for its balance to grow (the unchanged tree was seen silent for 366 blocks after a
	// non-leading member of four was restarted late in the procedure: it waits for a top-up the leader made
	// long ago, the leader for that member's Alphabet contract, until block rewards lift the balance); what is
	// judged there is the progress budget.
	{
		rec.mu.Lock()
		var prev, worst, at uint32
		for i, e := range rec.events {
			if i > 0 && e.Height > prev && e.Height-prev > worst {
				worst, at = e.Height-prev, prev
			}
			prev = e.Height
		}
		rec.mu.Unlock()
		b.Extra(fmt.Sprintf("longest_silence_blocks:n%d:%s", sc.N, sc.Label), int(worst))
		if worst > 200 && sc.N > 1 {
			b.Hit("observation:nobody-attempted-anything-for>150-blocks-with-several-members")
		}
		if worst > 200 && sc.N == 1 {
			b.Violation(fmt.Sprintf("deployment (n=%d, %s): no member attempted any submission for %d blocks (after height %d) although the deployment was unfinished", sc.N, sc.Label, worst, at), det())
		}
	}
	if f := os.Getenv("VERIF_C13_DEBUG"); f != "" {
		rec.mu.Lock()
		var evs []string
		for _, e := range rec.events {
			evs = append(evs, fmt.Sprintf("h%d m%d %s %s %s", e.Height, e.Member, e.Call, e.Info, e.Err))
		}
		rec.mu.Unlock()
		_ = os.WriteFile(fmt.Sprintf("%s-%d-n%d-%s-%d-%d", f, b.Index, sc.N, sc.Label, sc.RestartAt, sc.RestartDelay), []byte(fmt.Sprintf("%+v\n", sc)+strings.Join(evs, "\n")+"\n"), 0o644)
	}
	// interleaving signature: the order in which members got their submissions through, run-length encoded
	rec.mu.Lock()
	var sig []string
	prev := -1
	for _, e := range rec.events {
		if e.Err == "" && e.Member != prev {
			sig = append(sig, fmt.Sprint(e.Member))
			prev = e.Member
		}
	}
	rec.mu.Unlock()
	if len(sig) > 60 {
		sig = sig[:60]
	}
	b.State("interleaving:" + strings.Join(sig, ""))
	firstEnd := nd.Height()
	checkFinalState(b, nd, sc, det)
	if sc.N >= 3 && len(sc.Absent) > 0 {
		b.Hit("absent-minority-bootstrap")
	}
	if sc.RestartOf >= 0 && runs[sc.RestartOf].restarts > 0 {
		b.Hit("restart-survived")
		if sc.RestartOf == 0 {
			b.Hit("leader-restart-survived")
		}
		if strings.HasPrefix(sc.RestartWhen, "sends:") {
			b.Hit("crash-after-kth-accepted-submission-survived")
			b.Hit(fmt.Sprintf("crash-point:n%d:member%d:%s", sc.N, sc.RestartOf, sc.RestartWhen))
		} else if sc.RestartWhen != "" {
			b.Hit("restart-at-stage-boundary")
			b.Hit("restart-at:" + sc.RestartWhen)
		}
	}
	if sc.N >= 4 {
		b.Hit("designation-with>=2-remote-signatures")
	}
	if sc.LateOf >= 0 && lateRegenerated.Load() {
		b.Hit("majority-completed-after-shared-data-expiry")
		rec.mu.Lock()
		var evs []string
		for _, e := range rec.events {
			if len(evs) < 120 {
				evs = append(evs, fmt.Sprintf("h%d m%d %s %s %s", e.Height, e.Member, e.Call, e.Info, e.Err))
			}
		}
		rec.mu.Unlock()
		b.Sample(map[string]any{"scenario": fmt.Sprintf("%+v", sc), "submissions": evs})
	}
	b.Hit(fmt.Sprintf("completed-n%d", sc.N))
	b.Eval("scenario|"+key+"|completed", true)
	b.State(key)

	// ---- idempotence: run everybody again on the finished chain — some chain time later (an hour in half of
	// the scenarios, thirty days in the others): whatever the first run registered must still be there and in
	// force (seeded change C13-6: names registered for ten minutes)
	shift := time.Hour
	if b.Index%2 == 1 {
		shift = 30 * 24 * time.Hour
	}
	nd.ShiftTime(shift)
	waitBlocks(2)
	b.Hit("second-run-after-chain-time-passed")
	nnsBefore := dumpNNS(nd)
	var wg2 sync.WaitGroup
	errs := make([]error, sc.N)
	for i := 0; i < sc.N; i++ {
		wg2.Add(1)
		go func(i int) {
			defer wg2.Done()
			cli, err := nd.Client()
			if err != nil {
				errs[i] = err
				return
			}
			a := &adapter{Internal: cli, member: i, nd: nd, rec: rec, rng: rand.New(rand.NewPCG(b.Seed, uint64(i)))}
			prm, err := buildPrm(nd, i, a, zap.NewNop())
			if err != nil {
				errs[i] = err
				return
			}
			errs[i] = deploy.Deploy(context.Background(), prm)
		}(i)
	}
	c2 := make(chan struct{})
	go func() { wg2.Wait(); close(c2) }()
	select {
	case <-c2:
	case <-time.After(3 * time.Minute):
		if nd.Height() > firstEnd+blockBudget {
			b.Violation("the second run over the finished chain did not return", det())
		} else {
			b.Inconclusive("second run: wall-clock watchdog")
		}
		return
	}
	for i, e := range errs {
		if e != nil {
			b.Violation(fmt.Sprintf("second run: Deploy of member %d returned %v", i, e), det())
		}
	}
	// let the last submissions land
	h := nd.Height()
	for nd.Height() < h+3 {
		time.Sleep(blockTime)
	}
	mgmt, _ := nd.Chain.GetNativeContractScriptHash(nativenames.Management)
	roles, _ := nd.Chain.GetNativeContractScriptHash(nativenames.Designation)
	forbidden := 0
	txs := 0
	for hgt := firstEnd + 1; hgt <= nd.Height(); hgt++ {
		blk, err := nd.Chain.GetBlock(nd.Chain.GetHeaderHash(hgt))
		if err != nil {
			continue
		}
		for _, tx := range blk.Transactions {
			txs++
			aers, _ := nd.Chain.GetAppExecResults(tx.Hash(), trigger.Application)
			for _, aer := range aers {
				for _, ev := range aer.Events {
					if (ev.ScriptHash == mgmt && (ev.Name == "Deploy" || ev.Name == "Update")) || (ev.ScriptHash == roles && ev.Name == "Designation") {
						forbidden++
						b.Violation(fmt.Sprintf("second run over the finished chain caused a %s event in block %d", ev.Name, hgt), det())
					}
				}
			}
		}
	}
	if d := nnsDiff(nnsBefore, dumpNNS(nd)); d != "" {
		b.Violation("second run over the finished chain changed the NNS storage: "+d, det())
	}
	b.Extra("second_run_transactions_observed", txs)
	b.Hit("idempotence-rerun")
	b.Eval("rerun|"+key, true)
	nd.Stop()
	if b.Index < 3 {
		b.Sample(map[string]any{"scenario": sc, "blocks": firstEnd, "submissions": nEvents, "second_run_transactions": txs})
	}
}

func dumpNNS(nd *node.Node) map[string]string {
	m := map[string]string{}
	nd.Chain.SeekStorage(1, nil, func(k, v []byte) bool {
		m[string(k)] = string(v)
		return true
	})
	return m
}

func nnsDiff(a, b map[string]string) string {
	for k, v := range b {
		if w, ok := a[k]; !ok {
			return fmt.Sprintf("key %x added", k)
		} else if w != v {
			return fmt.Sprintf("key %x changed", k)
		}
	}
	for k := range a {
		if _, ok := b[k]; !ok {
			return fmt.Sprintf("key %x removed", k)
		}
	}
	return ""
}

func checkFinalState(b *runner.Batch, nd *node.Node, sc scenario, det func() map[string]any) {
	want := nd.Pubs.Copy()
	sort.Sort(want)
	for _, role := range []noderoles.Role{noderoles.P2PNotary, noderoles.NeoFSAlphabet} {
		ks, _, err := nd.Chain.GetDesignatedByRole(role)
		sort.Sort(ks)
		same := err == nil && len(ks) == len(want)
		for i := 0; same && i < len(ks); i++ {
			same = ks[i].Equal(want[i])
		}
		if !same {
			b.Violation(fmt.Sprintf("role %s is designated to %d keys, expected exactly the %d committee keys", role, len(ks), len(want)), det())
		}
	}
	nnsHash, err := nd.Chain.GetContractScriptHash(1)
	nnsState := nd.Chain.GetContractState(nnsHash)
	if err != nil || nnsState == nil || nnsState.Manifest.Name != "NameService" {
		b.Violation("contract ID 1 is not the NameService", det())
		return
	}
	cs, _ := contracts.GetFS()
	supplied := map[string]uint32{"proxy": cs[1].NEF.Checksum, "audit": cs[2].NEF.Checksum, "netmap": cs[3].NEF.Checksum, "balance": cs[4].NEF.Checksum,
		"reputation": cs[5].NEF.Checksum, "neofsid": cs[6].NEF.Checksum, "container": cs[7].NEF.Checksum}
	for i := 0; i < sc.N; i++ {
		supplied[fmt.Sprintf("alphabet%d", i)] = cs[8].NEF.Checksum
	}
	if nnsState.NEF.Checksum != cs[0].NEF.Checksum {
		b.Violation("the NameService on chain does not carry the supplied executable", det())
	}
	w := &chainReader{nd: nd}
	seen := map[util.Uint160]string{}
	for name, sum := range supplied {
		recs, err := w.resolveTXT(nnsHash, name+".neofs")
		if err != nil || len(recs) != 1 {
			b.Violation(fmt.Sprintf("%s.neofs resolves to %d records (%v), expected exactly one", name, len(recs), err), det())
			continue
		}
		h, err := util.Uint160DecodeStringLE(recs[0])
		if err != nil {
			b.Violation(fmt.Sprintf("%s.neofs record %q is not a contract address", name, recs[0]), det())
			continue
		}
		st := nd.Chain.GetContractState(h)
		if st == nil || st.NEF.Checksum != sum {
			b.Violation(fmt.Sprintf("%s.neofs points to %s, which does not carry the supplied executable", name, recs[0]), det())
		}
		if other, dup := seen[h]; dup {
			b.Violation(fmt.Sprintf("%s.neofs and %s.neofs point to the same contract", name, other), det())
		}
		seen[h] = name
	}
	// exactly one ContractManagement Deploy event per system contract (n for Alphabet, 1 for NNS)
	mgmt, _ := nd.Chain.GetNativeContractScriptHash(nativenames.Management)
	counts := map[string]int{}
	for hgt := uint32(1); hgt <= nd.Height(); hgt++ {
		blk, err := nd.Chain.GetBlock(nd.Chain.GetHeaderHash(hgt))
		if err != nil {
			continue
		}
		for _, tx := range blk.Transactions {
			aers, _ := nd.Chain.GetAppExecResults(tx.Hash(), trigger.Application)
			for _, aer := range aers {
				for _, ev := range aer.Events {
					if ev.ScriptHash == mgmt && ev.Name == "Deploy" {
						items := world.Arr(ev.Item)
						if len(items) == 1 {
							if h, err := util.Uint160DecodeBytesBE(world.Bytes(items[0])); err == nil {
								if st := nd.Chain.GetContractState(h); st != nil {
									counts[st.Manifest.Name]++
								}
							}
						}
					}
				}
			}
		}
	}
	wantCounts := map[string]int{}
	for k, c := range cs {
		wantCounts[c.Manifest.Name] = 1
		if k == 8 {
			wantCounts[c.Manifest.Name] = sc.N
		}
	}
	for name, wn := range wantCounts {
		if counts[name] != wn {
			b.Violation(fmt.Sprintf("%d deployments of %q on chain, expected %d", counts[name], name, wn), det())
		}
	}
	for name := range counts {
		if _, ok := wantCounts[name]; !ok {
			b.Violation(fmt.Sprintf("unexpected contract %q was deployed", name), det())
		}
	}
}

type chainReader struct{ nd *node.Node }

func (c *chainReader) resolveTXT(nns util.Uint160, name string) ([]string, error) {
	cli, err := c.nd.Client()
	if err != nil {
		return nil, err
	}
	return unwrap.ArrayOfUTF8Strings(invoker.New(cli, nil).Call(nns, "resolve", name, 16))
}

// ---- pure helpers (through the verif-tagged exports)

func runHelpers(b *runner.Batch) {
	// divideFundsEvenly: exhaustive for amounts 0..2000 x n 1..41 plus boundary values
	amounts := []uint64{}
	for a := uint64(0); a <= 2000; a++ {
		amounts = append(amounts, a)
	}
	amounts = append(amounts, math.MaxUint64, math.MaxUint64-1, 1<<63, 1<<63-1, 1<<32, 1<<32+1, 10_000_0000_0000)
	for _, amount := range amounts {
		for n := 1; n <= 41; n++ {
			var sum uint64
			var shares []uint64
			last := -1
			ok := true
			deploy.VerifDivideFundsEvenly(amount, n, func(ind int, a uint64) {
				if ind <= last || ind >= n || a == 0 {
					ok = false
				}
				last = ind
				sum += a
				shares = append(shares, a)
			})
			mn, mx := uint64(math.MaxUint64), uint64(0)
			for _, s := range shares {
				mn, mx = min(mn, s), max(mx, s)
			}
			// members that got nothing count as share 0 when the amount is smaller than n
			if len(shares) < n && amount > 0 {
				mn = 0
			}
			if !ok || sum != amount || (len(shares) > 0 && mx-mn > 1) || (amount >= uint64(n) && len(shares) != n) {
				b.Violation(fmt.Sprintf("divideFundsEvenly(%d, %d): shares %v (sum %d): must sum to the input, differ by at most one, come in ascending index order, never deliver zero", amount, n, shares, sum), nil)
				return
			}
		}
	}
	b.EvalN("divideFundsEvenly", len(amounts)*41, true)
	b.Eval("divideFundsEvenly|boundary", true)
	b.Hit("helper:divideFundsEvenly")
	// transaction modifier: all heights 0..10000 and the last 300 below 2^32
	heights := []uint32{}
	for h := uint32(0); h <= 10000; h++ {
		heights = append(heights, h)
	}
	for h := uint32(math.MaxUint32 - 300); h != 0; h++ {
		heights = append(heights, h)
	}
	for _, h := range heights {
		hh := h
		m := deploy.VerifNeoFSRuntimeTransactionModifier(func() uint32 { return hh })
		tx := new(transaction.Transaction)
		if err := m(&result.Invoke{State: "HALT"}, tx); err != nil {
			b.Violation(fmt.Sprintf("transaction modifier failed at height %d: %v", h, err), nil)
			return
		}
		wantNonce := h / 100 * 100
		wantVUB := wantNonce + 100
		if uint64(wantNonce)+100 >= math.MaxUint32 {
			wantVUB = math.MaxUint32
		}
		if tx.Nonce != wantNonce || tx.ValidUntilBlock != wantVUB || tx.ValidUntilBlock < h {
			b.Violation(fmt.Sprintf("transaction modifier at height %d: nonce %d vub %d, expected %d / %d", h, tx.Nonce, tx.ValidUntilBlock, wantNonce, wantVUB), nil)
			return
		}
		if err := m(&result.Invoke{State: "FAULT", FaultException: "x"}, new(transaction.Transaction)); err == nil {
			b.Violation("transaction modifier accepted a non-HALT invocation result", nil)
			return
		}
	}
	b.EvalN("txModifier", len(heights), true)
	b.Eval("txModifier|window", true)
	b.Hit("helper:transactionModifier")
	// shared transaction data codec
	r := b.Rng
	samples := 200000
	if b.Thorough() {
		samples = 1000000
	}
	for i := 0; i < samples; i++ {
		var d deploy.VerifSharedTxData
		for j := range d.Sender {
			d.Sender[j] = byte(r.Uint32())
		}
		d.ValidUntilBlock, d.Nonce = r.Uint32(), r.Uint32()
		switch i {
		case 0:
			d = deploy.VerifSharedTxData{}
		case 1:
			d.ValidUntilBlock, d.Nonce = math.MaxUint32, math.MaxUint32
		}
		s := d.EncodeToString()
		back, err := deploy.VerifDecodeSharedTxData(s)
		if err != nil || back != d {
			b.Violation(fmt.Sprintf("shared transaction data does not survive encode/decode: %+v -> %q -> %+v (%v)", d, s, back, err), nil)
			return
		}
		payload := []byte{byte(i), byte(i >> 8), 7}
		ok, p := d.ShiftChecksum(d.UnshiftChecksum(payload))
		if !ok || string(p) != string(payload) {
			b.Violation("shiftChecksum(unshiftChecksum(x)) != x", nil)
			return
		}
		other := d
		other.Nonce ^= 1 + r.Uint32N(1<<31)
		if ok, _ := other.ShiftChecksum(d.UnshiftChecksum(payload)); ok && i < 1000 {
			// 32-bit checksum: a collision within 1000 samples would be a one-in-four-million event
			b.Violation("checksum of different shared data matched", nil)
			return
		}
		if i < 200 {
			if _, err := deploy.VerifDecodeSharedTxData(s[:len(s)-4]); err == nil {
				b.Violation("decode accepted a truncated string", nil)
				return
			}
			if _, err := deploy.VerifDecodeSharedTxData("!" + s[1:]); err == nil {
				b.Violation("decode accepted invalid base64", nil)
				return
			}
		}
	}
	b.EvalN("sharedTxData", samples, true)
	b.Eval("sharedTxData|roundtrip", true)
	b.Hit("helper:sharedTransactionData")
	b.Sample(map[string]any{"helpers": "divideFundsEvenly exhaustive 0..2000 x 1..41 + uint64 boundaries; tx modifier heights 0..10000 and the last 300 below 2^32; shared data codec random round trips", "codec_samples": samples})
}

func runC13(b *runner.Batch) {
	if b.Index == 0 {
		runHelpers(b)
		return
	}
	scs := scenarios(b.Tier, b.Seed)
	if b.Index-1 >= len(scs) {
		return
	}
	sc := scs[b.Index-1]
	// VERIF_C13_SCENARIO=<json of a scenario, as printed in a replay file>: every batch runs that scenario (to repeat
	// a recorded one on other schedules); a diagnostic aid, not used by the registered commands
	if js := os.Getenv("VERIF_C13_SCENARIO"); js != "" {
		sc = scenario{RestartOf: -1, Restart2Of: -1, LateOf: -1}
		if err := json.Unmarshal([]byte(js), &sc); err != nil {
			b.Inconclusive("VERIF_C13_SCENARIO: " + err.Error())
			return
		}
	}
	runScenario(b, sc)
}

func init() {
	runner.Register(&runner.Check{
		ID: "C13", Level: "exploration",
		Rule: "Scenarios on a real in-process neo-go node (blockchain, network server with mempool and notary request pool, Notary service, RPC server with in-process clients, harness block producer as logical clock): every committee member runs the public deploy.Deploy with the embedded contracts; a scenario fixes committee size (quick: 20 scenarios on sizes 1-4; thorough: 192 on sizes 1..7), per-member start offsets, per-call delays injected at the RPC boundary, optionally an interruption of one member at a PRNG-chosen block followed by a restart, optionally a state-triggered interruption (the run is cancelled when the chain shows a stage boundary: NNS deployed, Notary role designated, NeoFSAlphabet role designated, proxy / netmap / container registered), optionally a crash injected at a member's own client boundary (the registration of its signature domain is let through, everything it sends afterwards fails and it is cancelled; it stays away until the Notary role is designated; or the same right after the transaction carrying its signature; or right after its k-th accepted submission, restarting 0-3 blocks later: four PRNG-chosen crash points per seed in quick, all 95 in thorough), optionally a hold at the client boundary that releases the lower members' signatures together after the highest member's ('staggered'), optionally an early signer that disappears while the members completing a majority arrive after the shared data expired, a restart delay of 0-5 blocks, optionally a second interruption (of the same or another member), optionally a minority of non-leading members absent until the Notary role appears, optionally a 'late majority' (one member short of a majority publishes signatures, the completing member joins 135 blocks after the last early signature appeared in the NNS; the monitor confirms that the shared transaction data was generated again in between), optionally a 'long absence' (in a committee of two one member goes down when the Notary role appears and comes back 750 blocks later; the other one's Notary requests expire unsigned in the meantime and use up its deposit, which has to be refilled). Judged: return values, progress within 1500 blocks, for a lone member also no silence (no submission attempt) longer than 150 blocks while unfinished (with several members the longest silence is recorded, not judged), roles, NNS id and records, executables by checksum, ContractManagement Deploy event counts, submissions the node refuses as invalid, a second run over the finished chain one hour / thirty days of chain time later (must finish; no Deploy/Update/Designation event, NNS storage unchanged), and Go race detector reports with a frame in neofs-contract/deploy (the child binary is built with -race). Pure helpers through verif-tagged exports: fund division exhaustive for 0..2000 x 1..41 plus uint64 boundaries, nonce/validity window for heights 0..10000 and the last 300 below 2^32, shared-transaction-data codec round trips. distinct = scenario (size, label, outcome) and helper class.",
		Assumptions: []string{"neo-go v0.107.0 node components are the trusted base", "goroutine interleavings are sampled, not enumerated; a replay re-runs the scenario parameters and carries the recorded RPC log of the failing run as witness",
			"funding transfers (GAS top-ups, notary deposits) of a second run are logged, not judged"},
		Batches: func(t string) int { return 1 + len(scenarios(t, 1)) },
		NoTree:  true, Chunk: 1, Race: true, MaxParallel: 6,
		ChildTimeout: func(string) time.Duration { return 20 * time.Minute },
		Floors:       []string{"helper:divideFundsEvenly", "helper:transactionModifier", "helper:sharedTransactionData", "completed-n1", "completed-n2", "completed-n3", "completed-n4", "restart-survived", "leader-restart-survived", "restart-at-stage-boundary", "restart-at:notary-designated", "crash-after-kth-accepted-submission-survived", "absent-minority-bootstrap", "majority-completed-after-shared-data-expiry", "second-run-after-chain-time-passed", "idempotence-rerun", "designation-with>=2-remote-signatures"},
		Run:          runC13,
		Exhaustive: func(string) (bool, string) {
			return true, "fund division for all amounts 0..2000 x 1..41 receivers; nonce/validity window for all heights 0..10000 (deployment scenarios are sampled)"
		},
	})
}
