package nns

import (
	"bytes"
	"encoding/hex"
	"fmt"
	"strings"

	"github.com/nspcc-dev/neo-go/pkg/vm/stackitem"

	"verif/harness/runner"
	"verif/harness/world"
)

var c10Names = []string{
	"aa.com", "bb.com", "aa.org", "bb.org",
	"cc.aa.com", "dd.aa.com", "cc.aa.org", "cc.bb.com",
	"ee.cc.aa.com", "ee.cc.aa.org",
	// names whose leftmost label is itself the name of a registered TLD (seeded change C10-6: a TLD test on the wrong label)
	"org.com", "com.org",
}

func (e *env) ownerActors() [][]byte {
	res := [][]byte{}
	for _, u := range e.users {
		res = append(res, u.hash)
	}
	res = append(res, e.holder)
	if e.registrar != nil {
		res = append(res, e.registrar)
	}
	return res
}

// accountingSweep: supply, balances, tokensOf, tokens (C10 clauses on accounting).
func (e *env) accountingSweep() {
	b := e.b
	m := e.m
	ts := e.w.Read(e.nns, "totalSupply")
	b.Read(1)
	if !ts.OK() || world.Int64(ts.Top()) != m.supply {
		b.Violation(fmt.Sprintf("totalSupply() = %v, %d non-TLD names were ever registered", world.RenderItems(ts.Stack), m.supply), nil)
	}
	// sum of balances over the raw balance prefix
	var sum int64
	for k, v := range e.w.Dump(e.nnsID) {
		if len(k) > 0 && k[0] == 0x01 {
			sum += world.LEInt(v).Int64()
		}
	}
	if sum != m.supply {
		b.Violation(fmt.Sprintf("sum of balanceOf over all owners is %d, totalSupply %d", sum, m.supply), nil)
	}
	for _, o := range e.ownerActors() {
		k := hex.EncodeToString(o)
		r := e.w.Read(e.nns, "balanceOf", o)
		b.Read(1)
		if !r.OK() || world.Int64(r.Top()) != m.bal[k] {
			b.Violation(fmt.Sprintf("balanceOf(%x…) = %v, model %d", o[:4], world.RenderItems(r.Stack), m.bal[k]), nil)
		}
		r = e.w.Read(e.nns, "tokensOf", o)
		b.Read(1)
		got := strItems(r.Top())
		want := sortedNames(m.toks[k])
		gs := map[string]bool{}
		for _, g := range got {
			gs[g] = true
		}
		if !r.OK() || len(gs) != len(got) || len(got) != len(want) || strings.Join(sortedNames(gs), ",") != strings.Join(want, ",") {
			b.Violation(fmt.Sprintf("tokensOf(%x…) = %v, names recorded for that owner: %v", o[:4], got, want), nil)
		}
	}
	r := e.w.Read(e.nns, "tokens")
	b.Read(1)
	all := map[string]bool{}
	for n := range m.names {
		all[n] = true
	}
	gs := map[string]bool{}
	for _, g := range strItems(r.Top()) {
		gs[g] = true
	}
	if !r.OK() || strings.Join(sortedNames(gs), ",") != strings.Join(sortedNames(all), ",") {
		b.Violation(fmt.Sprintf("tokens() = %v, registered names are %v", sortedNames(gs), sortedNames(all)), nil)
	}
}

// lifecycleReads judges isAvailable / ownerOf / properties of name at instant t.
func (e *env) lifecycleReads(name string, t int64, tag string) {
	b := e.b
	m := e.m
	o := world.ReadOpts{TS: uint64(t)}
	l := labels(name)
	parentsOK := m.roots[l[len(l)-1]] && m.suffixesAlive(name, 1, t)
	alive := m.alive(name, t)
	av := e.w.ReadWith(o, e.nns, "isAvailable", name)
	b.Read(1)
	if parentsOK {
		want := !alive
		if !av.OK() || world.Bool(av.Top()) != want {
			b.Violation(fmt.Sprintf("isAvailable(%s) at %s = %v %s, expected %v (expiration %d, t=%d)", name, tag, world.RenderItems(av.Stack), av.Err, want, expOf(m, name), t), nil)
		}
		b.Hit("isAvailable@" + tag)
	} else {
		b.Observe("isAvailable under an expired or missing parent: " + fmt.Sprint(world.RenderItems(av.Stack), trunc(av.Err, 40)))
	}
	ow := e.w.ReadWith(o, e.nns, "ownerOf", name)
	pr := e.w.ReadWith(o, e.nns, "properties", name)
	b.Read(2)
	if alive && parentsOK {
		n := m.names[name]
		if !ow.OK() || !bytes.Equal(world.Bytes(ow.Top()), n.owner) {
			b.Violation(fmt.Sprintf("ownerOf(%s) at %s = %v %s, expected %x", name, tag, world.RenderItems(ow.Stack), ow.Err, n.owner), nil)
		}
		props := map[string]stackitem.Item{}
		if mp, ok := pr.Top().(*stackitem.Map); ok {
			for _, el := range mp.Value().([]stackitem.MapElement) {
				props[string(world.Bytes(el.Key))] = el.Value
			}
		}
		if !pr.OK() || string(world.Bytes(props["name"])) != name || world.Int64(props["expiration"]) != n.exp || !bytes.Equal(world.Bytes(props["admin"]), n.admin) {
			b.Violation(fmt.Sprintf("properties(%s) at %s = %v %s, expected expiration %d admin %x", name, tag, world.RenderItems(pr.Stack), pr.Err, n.exp, n.admin), nil)
		}
		b.Hit("ownerOf-answers@" + tag)
	} else {
		if ow.OK() {
			b.Violation(fmt.Sprintf("ownerOf(%s) at %s answers %v although the name or a parent is expired/missing", name, tag, world.RenderItems(ow.Stack)), nil)
		}
		if pr.OK() {
			b.Violation(fmt.Sprintf("properties(%s) at %s answers although the name or a parent is expired/missing", name, tag), nil)
		}
		if m.names[name] != nil && alive && !parentsOK {
			b.Hit("ownerOf-refuses-under-expired-parent")
		}
	}
}

func expOf(m *model, name string) int64 {
	if n := m.names[name]; n != nil {
		return n.exp
	}
	return -1
}

func trunc(s string, n int) string {
	if len(s) > n {
		return s[len(s)-n:]
	}
	return s
}

func (e *env) userIdx(h []byte) int {
	for i, u := range e.users {
		if bytes.Equal(u.hash, h) {
			return i
		}
	}
	return -1
}

// honestRegisterSigners: the new owner plus whoever controls the parent.
func (e *env) honestRegisterSigners(name string, owner []byte, now int64) ([]int, bool) {
	users := []int{}
	committee := false
	if i := e.userIdx(owner); i >= 0 {
		users = append(users, i)
	}
	l := labels(name)
	if len(l) > 2 {
		p := e.m.names[strings.Join(l[1:], ".")]
		if p != nil {
			if len(p.owner) == 0 {
				committee = true
			} else if i := e.userIdx(p.owner); i >= 0 {
				users = append(users, i)
			} else if p.admin != nil {
				if j := e.userIdx(p.admin); j >= 0 {
					users = append(users, j)
				}
			}
		}
	}
	return users, committee
}

func runC10(b *runner.Batch) {
	n := []int{1, 4, 3, 7}[b.Index%4]
	e, err := newEnv(b, n, []string{"com"})
	if err != nil {
		b.Inconclusive("world: " + err.Error())
		return
	}
	defer e.w.Close()
	r := b.Rng
	do := func(o *nnsOp, users []int, committee bool) *opResult {
		s, w := e.signerSet(users, committee, false, false)
		// a contract owner (holder) cannot witness: registrations for it always fail the owner check
		return e.exec(o, s, w)
	}
	// a short-lived TLD so that a parent expires during the history
	do(e.opRegisterTLD("org", 20000), nil, true)
	// canonical: registration, refused double registration, transfer to other/self/contract, renew ok / 0 / 11 / beyond 10y
	do(e.opRegister("aa.com", e.users[0].hash, 3000), []int{0}, false)
	do(e.opRegister("aa.com", e.users[1].hash, 3000), []int{1}, false) // taken
	do(e.opTransfer(e.users[1].hash, "aa.com"), []int{0}, false)
	do(e.opTransfer(e.users[1].hash, "aa.com"), []int{1}, false) // self
	do(e.opRegister("bb.com", e.users[2].hash, 3000), []int{2}, false)
	do(e.opTransfer(e.holder, "bb.com"), []int{2}, false) // to a contract
	do(e.opRenew("aa.com", 1, false), []int{1}, false)
	do(e.opRenew("aa.com", 0, false), []int{1}, false)
	do(e.opRenew("aa.com", 11, false), []int{1}, false)
	do(e.opRenew("aa.com", 10, false), []int{1}, false) // beyond ten years
	do(e.opRenew("aa.com", 1, true), []int{1}, false)   // renewDefault overload
	// a name with between nine and ten years to go: one more year is beyond the cap, through either form of the method
	// (seeded change C10-10: the one-argument form taking a path around the cap)
	do(e.opRegister("cap.com", e.users[0].hash, 9*365*24*3600+180*24*3600), []int{0}, false)
	do(e.opRenew("cap.com", 1, true), []int{0}, false)
	do(e.opRenew("cap.com", 1, false), []int{0}, false)
	b.Hit("default-renewal-of-a-name-with-more-than-nine-years-to-go")
	do(e.opRegister("aa.org", e.users[0].hash, 100000), []int{0}, false)
	e.accountingSweep()
	// expirations need not grow towards the leaf: every other history starts with a chain under the short-lived TLD whose
	// closest parents outlive the names below them (aa.org 100000 s >= cc.aa.org 30000 s >= ee.cc.aa.org 25000 s > org
	// 20000 s); at the TLD's expiry none of them answers any more (seeded change C10-11: the walk up the chain cut short
	// when the closest parent outlives the name)
	if b.Index%2 == 0 {
		do(e.opRegister("cc.aa.org", e.users[0].hash, 30000), []int{0}, false)
		do(e.opRegister("ee.cc.aa.org", e.users[1].hash, 25000), []int{1, 0}, false)
		if st := e.m.names["org"]; st != nil && e.m.names["ee.cc.aa.org"] != nil && e.m.names["ee.cc.aa.org"].exp > st.exp {
			for _, nm := range []string{"aa.org", "cc.aa.org", "ee.cc.aa.org"} {
				e.lifecycleReads(nm, st.exp-1, "exp-1")
				e.lifecycleReads(nm, st.exp, "exp")
				e.lifecycleReads(nm, st.exp+1, "exp+1")
			}
			b.Hit("names-outliving-an-upper-ancestor-read-at-its-expiry")
		}
	}
	// boundary instants of aa.org's parent: the TLD org expires before aa.org does
	nops := 100
	if b.Thorough() {
		nops = 250
	}
	for i := 0; i < nops && b.NViolations() == 0; i++ {
		now := int64(e.w.Now)
		// clock: mostly small steps, sometimes onto a boundary instant of a live name
		var boundaryName string
		if r.IntN(3) == 0 {
			var cands []string
			for _, nm := range append(c10Names, "org") {
				if st := e.m.names[nm]; st != nil && st.exp-1 > now {
					cands = append(cands, nm)
				}
			}
			if len(cands) > 0 {
				boundaryName = runner.Pick(r, cands)
				exp := e.m.names[boundaryName].exp
				// reads at exp-1, exp, exp+1 (virtual time of a synthetic block)
				for _, nm := range c10Names {
					if nm == boundaryName || strings.HasSuffix(nm, "."+boundaryName) {
						e.lifecycleReads(nm, exp-1, "exp-1")
						e.lifecycleReads(nm, exp, "exp")
						e.lifecycleReads(nm, exp+1, "exp+1")
					}
				}
				e.w.Now = uint64(exp + runner.Pick(r, []int64{-1, 0, 1}))
				if len(labels(boundaryName)) == 1 {
					b.Hit("parent-tld-boundary")
				}
			}
		} else {
			e.w.Now += uint64(r.IntN(400)) * 1000
		}
		now = int64(e.w.Now)
		name := runner.Pick(r, c10Names)
		if boundaryName != "" && len(labels(boundaryName)) > 1 && r.IntN(2) == 0 {
			name = boundaryName
		}
		k := r.IntN(20)
		if k >= 10 && r.IntN(4) != 0 {
			// transfers, renewals and admin changes mostly aim at live names
			var live []string
			for _, nm := range c10Names {
				if e.m.alive(nm, now) && e.m.suffixesAlive(nm, 1, now) {
					live = append(live, nm)
				}
			}
			if len(live) > 0 {
				name = runner.Pick(r, live)
			}
		}
		if !e.m.alive("org", now) && r.IntN(3) == 0 {
			do(e.opRegisterTLD("org", int64(8000+r.IntN(20000))), nil, true)
		}
		// now and then the owner of a live parent describes an expired (or never registered) sub-name in its own
		// zone: a record named exactly like a name does not stand in the way of registering it (seeded change C10-7)
		if r.IntN(20) == 0 {
			for _, nm := range c10Names {
				l := labels(nm)
				if len(l) < 3 || e.m.alive(nm, now) {
					continue
				}
				parent := strings.Join(l[1:], ".")
				if pst := e.m.names[parent]; pst != nil && e.m.alive(parent, now) && e.m.suffixesAlive(parent, 1, now) {
					if i := e.userIdx(pst.owner); i >= 0 {
						e.seq++
						if res := do(e.opAddRecord(nm, tTXT, fmt.Sprintf("described by the parent %d", e.seq)), []int{i}, false); res.applied {
							b.Hit("parent-zone-record-named-like-a-free-name")
						}
						break
					}
				}
			}
		}
		if e.registrar != nil && r.IntN(12) == 0 {
			var own []string
			for _, nm := range c10Names {
				if st := e.m.names[nm]; st != nil && e.m.alive(nm, now) && bytes.Equal(st.owner, e.registrar) {
					own = append(own, nm)
				}
			}
			if len(own) > 0 {
				if res := do(e.opKeepAgain(runner.Pick(r, own)), nil, false); res.applied {
					b.Hit("contract-transfers-its-name-to-itself-as-a-buffer")
				}
				continue
			}
		}
		switch {
		case k < 9 && r.IntN(7) == 0 && e.registrar != nil:
			// bought through a contract that passes the name on from its payment callback (seeded change C10-5)
			buyer := runner.Pick(r, e.ownerActors()[:3])
			if r.IntN(5) == 0 {
				buyer = []byte{} // the registrar keeps it
			}
			res := do(e.opBuy(name, buyer, int64(500+r.IntN(5000))), nil, false)
			if res.applied {
				b.Hit("bought-through-a-re-entering-contract")
			}
		case k < 9:
			owner := runner.Pick(r, e.ownerActors()[:3])
			if r.IntN(15) == 0 {
				owner = e.holder
			}
			users, committee := e.honestRegisterSigners(name, owner, now)
			if r.IntN(8) == 0 {
				users = []int{r.IntN(3)}
			}
			exp := int64(500 + r.IntN(5000))
			res := do(e.opRegister(name, owner, exp), users, committee)
			if res.applied && res.reason == "takeover-of-expired" {
				b.Hit("takeover-of-expired-name")
			}
		case k < 10:
			do(e.opRegisterTLD(runner.Pick(r, []string{"org", "com", "net"}), int64(8000+r.IntN(20000))), nil, r.IntN(4) != 0)
		case k < 14:
			st := e.m.names[name]
			to := runner.Pick(r, e.ownerActors())
			users := []int{r.IntN(3)}
			if st != nil && r.IntN(5) != 0 {
				if i := e.userIdx(st.owner); i >= 0 {
					users = []int{i}
				}
				if r.IntN(6) == 0 {
					to = st.owner
				}
			}
			do(e.opTransfer(to, name), users, false)
		case k < 18:
			st := e.m.names[name]
			users := []int{r.IntN(3)}
			if st != nil {
				if i := e.userIdx(st.owner); i >= 0 && r.IntN(6) != 0 {
					users = []int{i}
				}
			}
			years := runner.Pick(r, []int64{1, 1, 2, 3, 5, 9, 10, 0, 11})
			if r.IntN(6) == 0 {
				name = runner.Pick(r, []string{"org", "com"})
				do(e.opRenew(name, years, false), nil, true)
			} else {
				do(e.opRenew(name, years, r.IntN(8) == 0), users, false)
			}
		default:
			st := e.m.names[name]
			users := []int{r.IntN(3)}
			adm := r.IntN(3)
			if st != nil {
				if i := e.userIdx(st.owner); i >= 0 {
					users = []int{i, adm}
				}
			}
			if r.IntN(5) == 0 {
				do(e.opSetAdmin(name, nil), users, false) // dismissal
			} else {
				do(e.opSetAdmin(name, e.users[adm].hash), users, false)
			}
		}
		e.accountingSweep()
		for _, nm := range c10Names {
			e.lifecycleReads(nm, int64(e.w.Now), "now")
		}
		b.State(fmt.Sprintf("supply%d alive%d", e.m.supply, e.aliveCount()))
	}
	if b.Index < 2 {
		h := b.HistoryFn()
		if len(h) > 8 {
			h = h[len(h)-8:]
		}
		b.Sample(map[string]any{"committee": n, "tail_of_history": h})
	}
}

func (e *env) aliveCount() int {
	c := 0
	for n := range e.m.names {
		if e.m.alive(n, int64(e.w.Now)) {
			c++
		}
	}
	return c
}
