// Package nns holds the NNS reference model and the monitors of C10, C11, C12 and C18.
package nns

import (
	"bytes"
	"encoding/hex"
	"fmt"
	"sort"
	"strings"

	"github.com/nspcc-dev/neo-go/pkg/neotest"
	"github.com/nspcc-dev/neo-go/pkg/util"
	"github.com/nspcc-dev/neo-go/pkg/vm/stackitem"

	"verif/harness/runner"
	"verif/harness/world"
)

const (
	tA     = 1
	tCNAME = 5
	tSOA   = 6
	tTXT   = 16
	tAAAA  = 28

	msYear = int64(365 * 24 * 3600 * 1000)
)

type nameSt struct {
	owner []byte // nil: committee
	exp   int64
	admin []byte
}

type model struct {
	roots  map[string]bool
	names  map[string]*nameSt
	recs   map[string][]string // token|name|type -> ordered data
	serial map[string]int64    // token -> SOA serial
	supply int64
	bal    map[string]int64
	toks   map[string]map[string]bool
}

func newModel() *model {
	return &model{roots: map[string]bool{}, names: map[string]*nameSt{}, recs: map[string][]string{}, serial: map[string]int64{}, bal: map[string]int64{}, toks: map[string]map[string]bool{}}
}

func rkey(token, name string, typ int) string { return fmt.Sprintf("%s|%s|%d", token, name, typ) }

func labels(name string) []string { return strings.Split(name, ".") }

func (m *model) alive(name string, now int64) bool {
	n := m.names[name]
	return n != nil && now < n.exp
}

// suffixesAlive: every suffix of name starting at label index >= first is registered and unexpired.
func (m *model) suffixesAlive(name string, first int, now int64) bool {
	l := labels(name)
	for i := len(l) - 1; i >= first; i-- {
		if !m.alive(strings.Join(l[i:], "."), now) {
			return false
		}
	}
	return true
}

// tokenOf: longest registered unexpired suffix with at least two labels, else the name itself.
func (m *model) tokenOf(name string, now int64) string {
	l := labels(name)
	for i := 0; i < len(l)-1; i++ {
		s := strings.Join(l[i:], ".")
		if m.alive(s, now) {
			return s
		}
	}
	return name
}

// tokenUsable: the token exists, is unexpired, its parents are alive and it is not a TLD.
func (m *model) tokenUsable(token string, now int64) bool {
	return len(labels(token)) > 1 && m.alive(token, now) && m.suffixesAlive(token, 1, now)
}

func (m *model) addBal(owner []byte, name string, d int64) {
	k := hex.EncodeToString(owner)
	m.bal[k] += d
	if m.toks[k] == nil {
		m.toks[k] = map[string]bool{}
	}
	if d > 0 {
		m.toks[k][name] = true
	} else {
		delete(m.toks[k], name)
	}
}

// conflict: the parent token holds records for proper sub-names of name.
func (m *model) conflict(name string) bool {
	l := labels(name)
	parent := strings.Join(l[1:], ".")
	for k, v := range m.recs {
		if len(v) == 0 {
			continue
		}
		p := strings.SplitN(k, "|", 3)
		if p[0] == parent && p[1] != name && strings.HasSuffix(p[1], "."+name) {
			return true
		}
	}
	return false
}

// ---- witnesses

type wits struct {
	accounts  map[string]bool
	committee bool
	desc      string
}

func (w wits) has(acc []byte) bool { return len(acc) == 20 && w.accounts[hex.EncodeToString(acc)] }

func (m *model) checkAdmin(n *nameSt, w wits) bool {
	if len(n.owner) == 0 {
		return w.committee
	}
	if w.has(n.owner) {
		return true
	}
	return n.admin != nil && w.has(n.admin)
}

// ---- environment

type actor struct {
	name   string
	signer neotest.Signer
	hash   []byte
}

type env struct {
	registrar  []byte // helper contract that re-enters NNS from its payment callback (nil if not deployed)
	registrarH util.Uint160

	b      *runner.Batch
	w      *world.World
	nns    util.Uint160
	nnsID  int32
	m      *model
	users  []actor
	holder []byte
	seq    int
}

func newEnv(b *runner.Batch, n int, tlds []string) (*env, error) {
	w, err := world.New(world.Options{N: n, Seed: b.Seed, Batch: b.Index})
	if err != nil {
		return nil, err
	}
	w.SysFee = 150_0000_0000
	e := &env{b: b, w: w, m: newModel()}
	arg := []any{}
	for _, t := range tlds {
		arg = append(arg, []any{t, "ops@nspcc.io"})
	}
	now := int64(w.Now)
	d, err := w.Deploy("nns", b.Set["nns"], []any{arg})
	if err != nil {
		return nil, err
	}
	e.nns, e.nnsID = d.Hash, d.ID
	dump := w.Dump(d.ID)
	for _, t := range tlds {
		e.m.roots[t] = true
		e.m.names[t] = &nameSt{exp: now + 10*365*24*3600*1000}
		e.m.serial[t] = now
		// the SOA record the deployment wrote for the TLD, as stored (a resolve of type SOA that reaches the TLD through
		// an alias returns it)
		for _, v := range dump {
			if !bytes.Contains(v, []byte(t+" ops@nspcc.io ")) {
				continue
			}
			if it, err := stackitem.Deserialize(v); err == nil {
				if f, ok := it.Value().([]stackitem.Item); ok && len(f) >= 3 {
					if data, err := f[2].TryBytes(); err == nil && strings.HasPrefix(string(data), t+" ops@nspcc.io ") {
						e.m.recs[rkey(t, t, tSOA)] = []string{string(data)}
					}
				}
			}
		}
	}
	for i := 0; i < 3; i++ {
		s := world.Single(world.Key(b.Seed, b.Index, "nnsuser", i))
		e.users = append(e.users, actor{name: fmt.Sprintf("user%d", i), signer: s, hash: s.ScriptHash().BytesBE()})
	}
	if h := b.Helpers["holder"]; h != nil {
		hd, err := w.Deploy("holder", h, nil)
		if err != nil {
			return nil, err
		}
		e.holder = hd.Hash.BytesBE()
	}
	if h := b.Helpers["registrar"]; h != nil {
		hd, err := w.Deploy("registrar", h, nil)
		if err != nil {
			return nil, err
		}
		e.registrar = hd.Hash.BytesBE()
		e.registrarH = hd.Hash
	}
	b.HistoryFn = func() []any {
		var res []any
		h := w.History
		if len(h) > 80 {
			h = h[len(h)-80:]
		}
		for _, r := range h {
			res = append(res, w.RenderResult(r, true))
		}
		return res
	}
	return e, nil
}

// signerSet builds transaction signers and the witness summary.
func (e *env) signerSet(users []int, committee bool, alphabetOnly bool, member bool) ([]world.SignerSpec, wits) {
	var s []world.SignerSpec
	w := wits{accounts: map[string]bool{}}
	var d []string
	for _, u := range users {
		s = append(s, world.G(e.users[u].signer))
		w.accounts[hex.EncodeToString(e.users[u].hash)] = true
		d = append(d, e.users[u].name)
	}
	if committee {
		s = append(s, world.G(e.w.Majority))
		w.committee = true
		d = append(d, "committee")
	}
	if alphabetOnly {
		s = append(s, world.G(e.w.Alphabet))
		if e.w.Alphabet.ScriptHash() == e.w.Majority.ScriptHash() {
			w.committee = true
		}
		d = append(d, "alphabet")
	}
	if member {
		// a single committee member; on committees of even size half of the committee (n/2 of n), the
		// largest coalition that is not a majority
		ms := e.w.Members[0]
		label := "member"
		if n := len(e.w.Privs); n%2 == 0 {
			ms = world.Multi(e.w.Privs, n/2)
			label = "half-committee"
		}
		s = append(s, world.G(ms))
		if ms.ScriptHash() == e.w.Majority.ScriptHash() {
			w.committee = true
		}
		d = append(d, label)
	}
	if len(d) == 0 {
		d = []string{"nobody"}
	}
	w.desc = strings.Join(d, "+")
	return s, w
}

// ---- operations

type opResult struct {
	r       *world.TxResult
	expect  string // "ok", "false", "fail"
	reason  string
	applied bool
}

type nnsOp struct {
	method string
	args   []any
	// target: the contract to invoke when it is not NNS itself (a helper that calls NNS)
	target *util.Uint160
	// predict returns the expected outcome class and, for "ok", the model mutation and expected events.
	predict func(now int64, w wits) (string, string, func(), []string)
	desc    string
}

func evTransfer(from, to []byte, name string) string {
	return fmt.Sprintf("Transfer(%x,%x,1,%s)", from, to, name)
}

func (e *env) nnsEvents(r *world.TxResult) []string {
	var res []string
	for _, ev := range r.Events {
		if ev.Contract != e.nns {
			continue
		}
		switch ev.Name {
		case "Transfer":
			if len(ev.Items) == 4 {
				res = append(res, fmt.Sprintf("Transfer(%x,%x,%d,%s)", world.Bytes(ev.Items[0]), world.Bytes(ev.Items[1]), world.Int64(ev.Items[2]), world.Bytes(ev.Items[3])))
				continue
			}
		case "Renew":
			if len(ev.Items) == 3 {
				res = append(res, fmt.Sprintf("Renew(%s,%d,%d)", world.Bytes(ev.Items[0]), world.Int64(ev.Items[1]), world.Int64(ev.Items[2])))
				continue
			}
		case "SetAdmin":
			if len(ev.Items) == 3 {
				res = append(res, fmt.Sprintf("SetAdmin(%s,%x,%x)", world.Bytes(ev.Items[0]), world.Bytes(ev.Items[1]), world.Bytes(ev.Items[2])))
				continue
			}
		}
		res = append(res, ev.Name+fmt.Sprint(world.RenderItems(ev.Items)))
	}
	return res
}

// exec runs an operation at the virtual clock and judges it against the model.
func (e *env) exec(o *nnsOp, signers []world.SignerSpec, w wits) *opResult {
	b := e.b
	now := int64(e.w.Now)
	expect, reason, apply, events := o.predict(now, w)
	callee := e.nns
	if o.target != nil {
		callee = *o.target
	}
	r := e.w.Invoke(signers, callee, o.method, o.args...)
	b.Tx(1)
	if uint64(now) != r.TS && r.Rejected == "" {
		b.Inconclusive(fmt.Sprintf("block timestamp %d differs from the planned virtual time %d", r.TS, now))
	}
	res := &opResult{r: r, expect: expect, reason: reason}
	det := func() any {
		return map[string]any{"tx": e.w.RenderResult(r, true), "expected": expect, "reason": reason, "signers": w.desc}
	}
	got := "fail"
	if r.Halted() {
		got = "ok"
		if o.method == "register" || o.method == "transfer" || o.method == "buy" {
			if len(r.Stack) == 1 && !world.Bool(r.Stack[0]) {
				got = "false"
			}
		}
	}
	if got != expect {
		b.Violation(fmt.Sprintf("nns.%s %s by %s: expected %s (%s), got %s %s", o.method, o.desc, w.desc, expect, reason, got, r.Fault), det())
	}
	switch got {
	case "ok":
		if expect == "ok" {
			apply()
			res.applied = true
			if gotEv := e.nnsEvents(r); strings.Join(gotEv, ";") != strings.Join(events, ";") {
				b.Violation(fmt.Sprintf("nns.%s %s: notifications %v, expected %v", o.method, o.desc, gotEv, events), det())
			}
		}
	default:
		// (the NNS contract's own storage: a helper contract that made the call may have written its own)
		if len(r.Diff[e.nnsID]) > 0 || (o.target == nil && !r.Diff.Empty()) || len(e.nnsEvents(r)) > 0 {
			b.Violation(fmt.Sprintf("nns.%s %s: refused call changed state or notified", o.method, o.desc), det())
		}
	}
	b.Eval(fmt.Sprintf("%s|%s|%s|%s", o.method, w.desc, reason, got), true)
	b.Hit(o.method + ":" + got)
	return res
}

func (e *env) opRegister(name string, owner []byte, expireSec int64) *nnsOp {
	m := e.m
	return &nnsOp{method: "register", desc: fmt.Sprintf("%s for %x… (%d s)", name, owner[:min(4, len(owner))], expireSec),
		args: []any{name, owner, "ops@x.io", int64(3600), int64(600), expireSec, int64(3600)},
		predict: func(now int64, w wits) (string, string, func(), []string) {
			l := labels(name)
			switch {
			case len(l) < 2:
				return "fail", "tld-denied", nil, nil
			case !m.roots[l[len(l)-1]]:
				return "fail", "tld-not-found", nil, nil
			case !m.suffixesAlive(name, 1, now):
				return "fail", "parent-missing-or-expired", nil, nil
			}
			if len(l) > 2 {
				p := m.names[strings.Join(l[1:], ".")]
				if !m.checkAdmin(p, w) {
					return "fail", "not-parent-owner-or-admin", nil, nil
				}
			}
			if m.conflict(name) {
				return "fail", "parent-has-conflicting-records", nil, nil
			}
			if len(owner) != 20 {
				return "fail", "invalid-owner", nil, nil
			}
			if !w.has(owner) {
				return "fail", "owner-witness-missing", nil, nil
			}
			old := m.names[name]
			if old != nil && now < old.exp {
				return "false", "name-taken", nil, nil
			}
			var oldOwner []byte
			reason := "fresh"
			if old != nil {
				oldOwner = old.owner
				reason = "takeover-of-expired"
			}
			return "ok", reason, func() {
				if old != nil {
					m.addBal(old.owner, name, -1)
				} else {
					m.supply++
				}
				m.names[name] = &nameSt{owner: owner, exp: now + expireSec*1000}
				m.addBal(owner, name, +1)
				m.recs[rkey(name, name, tSOA)] = []string{fmt.Sprintf("%s ops@x.io %d 3600 600 %d 3600", name, now, expireSec)}
				m.serial[name] = now
			}, []string{evTransfer(oldOwner, owner, name)}
		}}
}

// opBuy: the registrar contract registers the name for itself and, from inside its NEP-11 payment callback
// (i.e. while register is still running), transfers it to the buyer. Predicted as a registration witnessed
// by the registrar followed by a transfer witnessed by the registrar.
func (e *env) opBuy(name string, buyer []byte, expireSec int64) *nnsOp {
	reg := e.opRegister(name, e.registrar, expireSec)
	return &nnsOp{method: "buy", target: &e.registrarH, desc: fmt.Sprintf("%s through the registrar for %x…", name, buyer[:min(4, len(buyer))]),
		args: []any{e.nns, name, buyer, expireSec},
		predict: func(now int64, _ wits) (string, string, func(), []string) {
			w := wits{accounts: map[string]bool{hex.EncodeToString(e.registrar): true}, desc: "registrar"}
			exp, reason, apply, evs := reg.predict(now, w)
			if exp != "ok" {
				return exp, reason, apply, evs
			}
			if len(buyer) != 20 {
				return "ok", reason + "+kept", apply, evs
			}
			return "ok", reason + "+forwarded", func() {
				apply()
				_, _, apply2, _ := e.opTransfer(buyer, name).predict(now, w)
				if apply2 != nil {
					apply2()
				}
			}, append(append([]string{}, evs...), evTransfer(e.registrar, buyer, name))
		}}
}

// opKeepAgain: the registrar transfers a name it owns to itself, passing its own address as a Buffer: a transfer to
// the present owner, whatever the item type of the argument (seeded change C10-8: credit before debit, which only
// shows when the contract takes owner and receiver for two parties although the bytes are the same).
func (e *env) opKeepAgain(name string) *nnsOp {
	tr := e.opTransfer(e.registrar, name)
	return &nnsOp{method: "keepAgain", target: &e.registrarH, desc: name + " from the registrar to itself (receiver passed as a Buffer)", args: []any{e.nns, name},
		predict: func(now int64, _ wits) (string, string, func(), []string) {
			return tr.predict(now, wits{accounts: map[string]bool{hex.EncodeToString(e.registrar): true}, desc: "registrar"})
		}}
}

func (e *env) opRegisterTLD(name string, expireSec int64) *nnsOp {
	m := e.m
	return &nnsOp{method: "registerTLD", desc: name, args: []any{name, "ops@x.io", int64(3600), int64(600), expireSec, int64(3600)},
		predict: func(now int64, w wits) (string, string, func(), []string) {
			switch {
			case !w.committee:
				return "fail", "not-committee", nil, nil
			case len(labels(name)) != 1:
				return "fail", "not-a-tld", nil, nil
			case m.roots[name] && m.alive(name, now):
				return "fail", "tld-exists", nil, nil
			}
			return "ok", "tld", func() {
				m.roots[name] = true
				m.names[name] = &nameSt{exp: now + expireSec*1000}
				m.recs[rkey(name, name, tSOA)] = []string{fmt.Sprintf("%s ops@x.io %d 3600 600 %d 3600", name, now, expireSec)}
				m.serial[name] = now
			}, nil
		}}
}

func (e *env) opTransfer(to []byte, name string) *nnsOp {
	m := e.m
	return &nnsOp{method: "transfer", desc: fmt.Sprintf("%s to %x…", name, to[:min(4, len(to))]), args: []any{to, name, nil},
		predict: func(now int64, w wits) (string, string, func(), []string) {
			n := m.names[name]
			switch {
			case len(to) != 20:
				return "fail", "invalid-receiver", nil, nil
			case len(labels(name)) < 2:
				return "fail", "tld", nil, nil
			case n == nil:
				return "fail", "no-such-name", nil, nil
			case now >= n.exp:
				return "fail", "expired", nil, nil
			case !w.has(n.owner):
				return "false", "not-owner", nil, nil
			}
			from := n.owner
			reason := "to-other"
			if bytes.Equal(from, to) {
				reason = "to-self"
			} else if bytes.Equal(to, e.holder) {
				reason = "to-contract"
			}
			return "ok", reason, func() {
				if !bytes.Equal(from, to) {
					n.owner = to
					n.admin = nil
					m.addBal(from, name, -1)
					m.addBal(to, name, +1)
				}
			}, []string{evTransfer(from, to, name)}
		}}
}

func (e *env) opRenew(name string, years int64, useDefault bool) *nnsOp {
	m := e.m
	args := []any{name, years}
	if useDefault {
		args = []any{name}
		years = 1
	}
	return &nnsOp{method: "renew", desc: fmt.Sprintf("%s by %d years", name, years), args: args,
		predict: func(now int64, w wits) (string, string, func(), []string) {
			n := m.names[name]
			switch {
			case years < 1 || years > 10:
				return "fail", "bad-years", nil, nil
			case n == nil || now >= n.exp || !m.suffixesAlive(name, 1, now):
				return "fail", "not-alive", nil, nil
			case !m.checkAdmin(n, w):
				return "fail", "not-owner-or-admin", nil, nil
			}
			ne := n.exp + years*msYear
			if len(labels(name)) > 1 && ne > now+10*msYear {
				return "fail", "beyond-ten-years", nil, nil
			}
			old := n.exp
			return "ok", "renewed", func() { n.exp = ne }, []string{fmt.Sprintf("Renew(%s,%d,%d)", name, old, ne)}
		}}
}

func (e *env) opSetAdmin(name string, admin []byte) *nnsOp {
	m := e.m
	var arg any = admin
	if admin == nil {
		arg = nil
	}
	return &nnsOp{method: "setAdmin", desc: fmt.Sprintf("%s admin %x", name, admin), args: []any{name, arg},
		predict: func(now int64, w wits) (string, string, func(), []string) {
			n := m.names[name]
			switch {
			case len(labels(name)) < 2:
				return "fail", "tld", nil, nil
			case admin != nil && !w.has(admin):
				return "fail", "admin-witness-missing", nil, nil
			case n == nil || now >= n.exp || !m.suffixesAlive(name, 1, now):
				return "fail", "not-alive", nil, nil
			case !w.has(n.owner):
				return "fail", "not-owner", nil, nil
			}
			old := n.admin
			return "ok", "admin-set", func() { n.admin = admin }, []string{fmt.Sprintf("SetAdmin(%s,%x,%x)", name, old, admin)}
		}}
}

func (e *env) opUpdateSOA(name string) *nnsOp {
	m := e.m
	e.seq++
	refresh := int64(1000 + e.seq)
	return &nnsOp{method: "updateSOA", desc: name, args: []any{name, "new@x.io", refresh, int64(600), int64(777), int64(3600)},
		predict: func(now int64, w wits) (string, string, func(), []string) {
			n := m.names[name]
			switch {
			case n == nil || now >= n.exp || !m.suffixesAlive(name, 1, now):
				return "fail", "not-alive", nil, nil
			case !m.checkAdmin(n, w):
				return "fail", "not-owner-or-admin", nil, nil
			}
			return "ok", "soa-updated", func() {
				m.recs[rkey(name, name, tSOA)] = []string{fmt.Sprintf("%s new@x.io %d %d 600 777 3600", name, now, refresh)}
				m.serial[name] = now
			}, nil
		}}
}

func validType(t int) bool { return t == tA || t == tCNAME || t == tTXT || t == tAAAA }

// recordPre: common preconditions of record mutations. Data is assumed valid for the type.
func (m *model) recordPre(name string, typ int, now int64, w wits, checkType bool) (string, string) {
	if checkType && !validType(typ) {
		return "", "unsupported-type"
	}
	token := m.tokenOf(name, now)
	if !m.tokenUsable(token, now) {
		return "", "token-missing-or-expired"
	}
	if !m.checkAdmin(m.names[token], w) {
		return "", "not-owner-or-admin"
	}
	return token, ""
}

func (m *model) touchSerial(token string, now int64) {
	m.serial[token] = now
	k := rkey(token, token, tSOA)
	if v := m.recs[k]; len(v) == 1 {
		f := strings.Split(v[0], " ")
		if len(f) == 7 {
			f[2] = fmt.Sprint(now)
			m.recs[k] = []string{strings.Join(f, " ")}
		}
	}
}

func (e *env) opAddRecord(name string, typ int, data string) *nnsOp {
	m := e.m
	return &nnsOp{method: "addRecord", desc: fmt.Sprintf("%s type %d %q", name, typ, data), args: []any{name, int64(typ), data},
		predict: func(now int64, w wits) (string, string, func(), []string) {
			token, why := m.recordPre(name, typ, now, w, true)
			if why != "" {
				return "fail", why, nil, nil
			}
			k := rkey(token, name, typ)
			for _, d := range m.recs[k] {
				if d == data {
					return "fail", "duplicate", nil, nil
				}
			}
			if len(m.recs[k]) >= 16 {
				return "fail", "seventeenth-record", nil, nil
			}
			if typ == tCNAME && len(m.recs[k]) > 0 {
				return "fail", "second-cname", nil, nil
			}
			reason := "added"
			if token != name {
				reason = "added-under-parent-token"
			}
			return "ok", reason, func() { m.recs[k] = append(m.recs[k], data); m.touchSerial(token, now) }, nil
		}}
}

func (e *env) opSetRecord(name string, typ int, id int, data string) *nnsOp {
	m := e.m
	return &nnsOp{method: "setRecord", desc: fmt.Sprintf("%s type %d id %d %q", name, typ, id, data), args: []any{name, int64(typ), int64(id), data},
		predict: func(now int64, w wits) (string, string, func(), []string) {
			token, why := m.recordPre(name, typ, now, w, true)
			if why != "" {
				return "fail", why, nil, nil
			}
			k := rkey(token, name, typ)
			if id < 0 || id >= len(m.recs[k]) {
				return "fail", "no-such-record-id", nil, nil
			}
			return "ok", "replaced", func() { m.recs[k][id] = data; m.touchSerial(token, now) }, nil
		}}
}

func (e *env) opDeleteRecords(name string, typ int) *nnsOp {
	m := e.m
	return &nnsOp{method: "deleteRecords", desc: fmt.Sprintf("%s type %d", name, typ), args: []any{name, int64(typ)},
		predict: func(now int64, w wits) (string, string, func(), []string) {
			if typ == tSOA {
				return "fail", "soa-delete", nil, nil
			}
			token, why := m.recordPre(name, typ, now, w, false)
			if why != "" {
				return "fail", why, nil, nil
			}
			return "ok", "deleted", func() { delete(m.recs, rkey(token, name, typ)); m.touchSerial(token, now) }, nil
		}}
}

// ---- helpers for reads

func strItems(it stackitem.Item) []string {
	var res []string
	for _, x := range world.Arr(it) {
		res = append(res, string(world.Bytes(x)))
	}
	return res
}

func sortedNames(m map[string]bool) []string {
	var r []string
	for k := range m {
		r = append(r, k)
	}
	sort.Strings(r)
	return r
}
