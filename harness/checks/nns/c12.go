package nns

import (
	"fmt"
	"strings"

	"verif/harness/runner"
	"verif/harness/world"
)

var c12Tokens = []string{"aa.com", "bb.com"}

// names records are attached to: tokens, direct sub-names (registered or not), one deeper name
// the last one contains a registrable name ("s1.aa.com") twice (seeded change C12-5: first vs last occurrence)
var c12Names = []string{"aa.com", "bb.com", "s1.aa.com", "s2.aa.com", "s1.bb.com", "zz.s1.aa.com", "cc.com", "zz.s1.aa.com.s1.aa.com", c12LongName}

// a sub-name of aa.com of exactly the maximal length (255 bytes): its trailing-dot form is 256 bytes long
// (seeded change C12-7: a length guard in front of the place where the dot is stripped)
var c12LongName = strings.Repeat("l", 63) + "." + strings.Repeat("m", 63) + "." + strings.Repeat("n", 63) + "." + strings.Repeat("o", 56) + ".aa.com"

var aPool = []string{"1.2.3.4", "8.8.8.8", "93.184.216.34", "5.6.7.8", "11.22.33.44"}
var aaaaPool = []string{"2a01:4f0:1:2::3", "2001:4860:4860::1111", "2a02:6b0::5", "2607:f0d0:1002:51::4"}

// aliases: the names of the pool, now and then a registered TLD, a name nobody registered, an unknown single label
func (e *env) cnamePool() []string {
	return append(append([]string{}, c12Names...), "com", "com", "nobody.com", "org")
}

func (e *env) dataFor(typ int) string {
	r := e.b.Rng
	switch typ {
	case tA:
		return runner.Pick(r, aPool)
	case tAAAA:
		return runner.Pick(r, aaaaPool)
	case tCNAME:
		return runner.Pick(r, e.cnamePool())
	}
	e.seq++
	return fmt.Sprintf("text-%d", e.seq%23)
}

// modelResolve returns (records, status) with status ok / fail / unspecified (exactly three links).
func (m *model) modelResolve(name string, typ int, now int64) ([]string, string) {
	var res []string
	cur := name
	for links := 0; ; links++ {
		if links > 2 {
			// a third link is followed: the contract refuses; the statement only demands refusal from four links on
			// decide by looking whether the chain goes on
			return nil, "three-or-more"
		}
		cur = strings.TrimSuffix(cur, ".")
		if len(labels(cur)) < 2 {
			if links == 0 {
				return nil, "fail" // the queried name must not be a TLD
			}
			// an alias may be any well-formed name, a single label too: a registered TLD then contributes its own records
			// (its SOA) and ends the chain, anything else is not found (seeded change C12-11: the queried name's TLD test
			// applied to every link)
			if !m.alive(cur, now) {
				return nil, "fail"
			}
			return append(res, m.recs[rkey(cur, cur, typ)]...), "ok"
		}
		token := m.tokenOf(cur, now)
		if !m.tokenUsable(token, now) {
			return nil, "fail"
		}
		res = append(res, m.recs[rkey(token, cur, typ)]...)
		cn := m.recs[rkey(token, cur, tCNAME)]
		if len(cn) == 0 || typ == tCNAME {
			return res, "ok"
		}
		cur = cn[0]
	}
}

// chainLength: number of CNAME links reachable from name (cycles count as "many").
func (m *model) chainLength(name string, now int64) int {
	cur := name
	for links := 0; links < 8; links++ {
		cur = strings.TrimSuffix(cur, ".")
		token := m.tokenOf(cur, now)
		if len(labels(cur)) < 2 || !m.tokenUsable(token, now) {
			return links
		}
		cn := m.recs[rkey(token, cur, tCNAME)]
		if len(cn) == 0 {
			return links
		}
		cur = cn[0]
	}
	return 8
}

// recordSweep reads getRecords / getAllRecords / resolve for every pool name and compares with the model.
func (e *env) recordSweep() {
	b := e.b
	m := e.m
	now := int64(e.w.Now)
	for _, name := range c12Names {
		token := m.tokenOf(name, now)
		usable := m.tokenUsable(token, now)
		// getRecords additionally walks every proper suffix of the *name*: with an unregistered
		// intermediate name it refuses although resolve answers; not judged (the statement is silent)
		gap := usable && !m.suffixesAlive(name, 1, now)
		for _, typ := range []int{tA, tAAAA, tCNAME, tTXT, tSOA} {
			r := e.w.Read(e.nns, "getRecords", name, int64(typ))
			b.Read(1)
			want := m.recs[rkey(token, name, typ)]
			switch {
			case !usable:
				if r.OK() && len(strItems(r.Top())) > 0 {
					b.Violation(fmt.Sprintf("getRecords(%s, %d) answers %v although no registered unexpired name encloses it", name, typ, strItems(r.Top())), nil)
				}
				b.Hit("records-unreachable")
			case gap:
				b.Observe("getRecords for a name two levels below its token (unregistered intermediate): " + map[bool]string{true: "answers", false: "refuses"}[r.OK()])
			default:
				if !r.OK() || strings.Join(strItems(r.Top()), "\x00") != strings.Join(want, "\x00") {
					b.Violation(fmt.Sprintf("getRecords(%s, %d) = %v %s, expected %v (token %s)", name, typ, strItems(r.Top()), r.Err, want, token), nil)
				}
			}
		}
		// getAllRecords: set of (name, type, data, id)
		ra := e.w.Read(e.nns, "getAllRecords", name)
		b.Read(1)
		if usable && !gap {
			var want, got []string
			for _, typ := range []int{tA, tCNAME, tSOA, tTXT, tAAAA} {
				for id, d := range m.recs[rkey(token, name, typ)] {
					want = append(want, fmt.Sprintf("%s/%d/%s/%d", name, typ, d, id))
				}
			}
			for _, it := range world.Arr(ra.Top()) {
				f := world.Arr(it)
				if len(f) == 4 {
					got = append(got, fmt.Sprintf("%s/%d/%s/%d", world.Bytes(f[0]), world.Int64(f[1]), world.Bytes(f[2]), world.Int64(f[3])))
				}
			}
			if !ra.OK() || !sameStrSet(got, want) {
				b.Violation(fmt.Sprintf("getAllRecords(%s) = %v %s, expected %v", name, got, ra.Err, want), nil)
			}
		} else if !usable && ra.OK() && len(world.Arr(ra.Top())) > 0 {
			b.Violation(fmt.Sprintf("getAllRecords(%s) answers although no registered unexpired name encloses it", name), nil)
		}
		// resolve, with and without a trailing dot; SOA is a record type like the others here (seeded change C12-12: the
		// chain not followed for SOA)
		for _, typ := range []int{tA, tTXT, tCNAME, tAAAA, tSOA} {
			for _, q := range []string{name, name + "."} {
				rr := e.w.Read(e.nns, "resolve", q, int64(typ))
				b.Read(1)
				want, status := m.modelResolve(name, typ, now)
				links := m.chainLength(name, now)
				if typ == tCNAME {
					links = 0
				}
				switch status {
				case "ok":
					if !rr.OK() || strings.Join(strItems(rr.Top()), "\x00") != strings.Join(want, "\x00") {
						b.Violation(fmt.Sprintf("resolve(%s, %d) = %v %s, expected %v (chain of %d links)", q, typ, strItems(rr.Top()), rr.Err, want, links), nil)
					}
					b.Hit(fmt.Sprintf("resolve-ok-links%d", min(links, 2)))
					if q != name {
						b.Hit("resolve-trailing-dot")
					}
				case "fail":
					if rr.OK() && len(strItems(rr.Top())) > 0 {
						b.Violation(fmt.Sprintf("resolve(%s, %d) answers %v, expected refusal (unreachable name in the chain)", q, typ, strItems(rr.Top())), nil)
					}
				default:
					if links >= 4 {
						if rr.OK() {
							b.Violation(fmt.Sprintf("resolve(%s, %d) follows a CNAME chain of %d links", q, typ, links), nil)
						}
						b.Hit("resolve-refuses-long-chain-or-cycle")
					} else {
						b.Observe("resolve over exactly three CNAME links: " + map[bool]string{true: "answers", false: "refuses"}[rr.OK()])
					}
				}
			}
		}
		// registration while the parent holds records for sub-names
		if len(labels(name)) > 2 {
			av := e.w.Read(e.nns, "isAvailable", name)
			b.Read(1)
			if m.suffixesAlive(name, 1, now) && m.conflict(name) {
				if av.OK() && world.Bool(av.Top()) {
					b.Violation(fmt.Sprintf("isAvailable(%s) is true although its parent holds records for sub-names of it", name), nil)
				}
				b.Hit("conflicting-record-blocks-registration")
			}
		}
	}
	// SOA serial of every token
	for _, t := range c12Tokens {
		if !m.tokenUsable(t, now) {
			continue
		}
		r := e.w.Read(e.nns, "getRecords", t, int64(tSOA))
		b.Read(1)
		s := strItems(r.Top())
		if !r.OK() || len(s) != 1 || len(strings.Split(s[0], " ")) != 7 || strings.Split(s[0], " ")[2] != fmt.Sprint(m.serial[t]) {
			b.Violation(fmt.Sprintf("SOA of %s is %v, expected serial %d (time of the last mutation)", t, s, m.serial[t]), nil)
		}
	}
}

func sameStrSet(a, b []string) bool {
	if len(a) != len(b) {
		return false
	}
	m := map[string]int{}
	for _, x := range a {
		m[x]++
	}
	for _, x := range b {
		m[x]--
	}
	for _, v := range m {
		if v != 0 {
			return false
		}
	}
	return true
}

func runC12(b *runner.Batch) {
	n := []int{1, 4, 3, 7}[b.Index%4]
	e, err := newEnv(b, n, []string{"com"})
	if err != nil {
		b.Inconclusive("world: " + err.Error())
		return
	}
	defer e.w.Close()
	r := b.Rng
	ownerOf := func(name string) []int {
		now := int64(e.w.Now)
		token := e.m.tokenOf(name, now)
		if st := e.m.names[token]; st != nil {
			if i := e.userIdx(st.owner); i >= 0 {
				return []int{i}
			}
		}
		return []int{0}
	}
	do := func(o *nnsOp, users []int) *opResult {
		s, w := e.signerSet(users, false, false, false)
		return e.exec(o, s, w)
	}
	do(e.opRegister("aa.com", e.users[0].hash, 4000), []int{0})
	do(e.opRegister("bb.com", e.users[1].hash, 100000), []int{1})
	do(e.opRegister("cc.com", e.users[2].hash, 100000), []int{2})
	// canonical: 16 records and the refused 17th, second CNAME, setRecord hit and miss, deleteRecords, SOA delete,
	// chains of 0..4 links and a cycle, record under a parent token, conflicting record, expiry
	for i := 0; i < 17; i++ {
		do(e.opAddRecord("bb.com", tTXT, fmt.Sprintf("rec-%d", i)), []int{1})
	}
	do(e.opAddRecord("bb.com", tTXT, "rec-3"), []int{1}) // duplicate (after 16: refused for the count)
	do(e.opSetRecord("bb.com", tTXT, 5, "replaced"), []int{1})
	do(e.opSetRecord("bb.com", tTXT, 16, "miss"), []int{1})
	// the last and the first slot of the full list are slots like the others (seeded change C12-10: an index guard
	// comparing with the largest id instead of the count)
	do(e.opSetRecord("bb.com", tTXT, 15, "last-slot"), []int{1})
	do(e.opSetRecord("bb.com", tTXT, 14, "last-but-one"), []int{1})
	do(e.opDeleteRecords("bb.com", tSOA), []int{1})
	do(e.opAddRecord("bb.com", tSOA, "x"), []int{1})
	do(e.opAddRecord("bb.com", 0, "x"), []int{1})
	do(e.opAddRecord("bb.com", 255, "x"), []int{1})
	e.recordSweep()
	do(e.opDeleteRecords("bb.com", tTXT), []int{1})
	do(e.opAddRecord("aa.com", tCNAME, "s1.aa.com"), []int{0})
	do(e.opAddRecord("aa.com", tCNAME, "s2.aa.com"), []int{0}) // second CNAME
	do(e.opAddRecord("aa.com", tA, "1.2.3.4"), []int{0})
	do(e.opAddRecord("s1.aa.com", tA, "5.6.7.8"), []int{0}) // under the parent token
	do(e.opAddRecord("s1.aa.com", tCNAME, "s2.aa.com"), []int{0})
	do(e.opAddRecord("s2.aa.com", tA, "8.8.8.8"), []int{0})
	e.recordSweep() // aa -> s1 -> s2: two links
	do(e.opAddRecord("s2.aa.com", tCNAME, "bb.com"), []int{0})
	do(e.opAddRecord("bb.com", tA, "11.22.33.44"), []int{1})
	e.recordSweep() // three links from aa.com
	do(e.opAddRecord("bb.com", tCNAME, "cc.com"), []int{1})
	e.recordSweep()                                         // four links from aa.com
	do(e.opAddRecord("cc.com", tCNAME, "cc.com"), []int{2}) // self loop
	e.recordSweep()
	do(e.opAddRecord("zz.s1.aa.com", tTXT, "deep"), []int{0})
	do(e.opRegister("s1.aa.com", e.users[2].hash, 50000), []int{0, 2}) // blocked by the record of zz.s1.aa.com
	e.recordSweep()
	do(e.opDeleteRecords("zz.s1.aa.com", tTXT), []int{0})
	do(e.opRegister("s1.aa.com", e.users[2].hash, 1500), []int{0, 2}) // now it becomes its own token: parent's records are shadowed
	e.recordSweep()

	nops := 150
	if b.Thorough() {
		nops = 300
	}
	types := []int{tA, tAAAA, tCNAME, tTXT, tTXT, tCNAME, tA, tSOA, 0, 255}
	for i := 0; i < nops && b.NViolations() == 0; i++ {
		e.w.Now += uint64(r.IntN(60)) * 1000
		if r.IntN(30) == 0 {
			// jump onto the expiry of a PRNG-chosen live token — also a sub-name token whose parent lives on
			// (seeded change C12-6: two sites disagreeing at the instant of expiry) — with complete read sweeps
			// at exp-1, exp and exp+1; the next operation then runs at one of the three instants
			var live []string
			for _, t := range []string{"aa.com", "s1.aa.com", "s2.aa.com", "s1.bb.com", "bb.com"} {
				if st := e.m.names[t]; st != nil && st.exp > int64(e.w.Now)+1 {
					live = append(live, t)
				}
			}
			if len(live) > 0 {
				t := runner.Pick(r, live)
				exp := e.m.names[t].exp
				for _, at := range []int64{exp - 1, exp, exp + 1} {
					e.w.Now = uint64(at)
					e.recordSweep()
				}
				e.w.Now = uint64(exp + int64(r.IntN(3)) - 1)
				b.Hit("clock-at-token-expiry")
				if len(labels(t)) > 2 && e.m.alive(strings.Join(labels(t)[1:], "."), exp) {
					b.Hit("clock-at-sub-name-token-expiry-under-a-live-parent")
				}
			}
		}
		name := runner.Pick(r, c12Names)
		typ := runner.Pick(r, types)
		users := ownerOf(name)
		if r.IntN(10) == 0 {
			users = []int{r.IntN(3)}
		}
		switch k := r.IntN(20); {
		case k < 10:
			do(e.opAddRecord(name, typ, e.dataFor(typ)), users)
		case k < 14:
			id := r.IntN(4)
			if r.IntN(5) == 0 {
				id = 16 + r.IntN(3)
			}
			do(e.opSetRecord(name, typ, id, e.dataFor(typ)), users)
		case k < 17:
			do(e.opDeleteRecords(name, typ), users)
		case k < 19:
			// (re-)registration of an enclosing name
			nm := runner.Pick(r, []string{"aa.com", "s1.aa.com", "s2.aa.com", "s1.bb.com"})
			owner := r.IntN(3)
			u, _ := e.honestRegisterSigners(nm, e.users[owner].hash, int64(e.w.Now))
			do(e.opRegister(nm, e.users[owner].hash, 800+int64(r.IntN(4000))), u)
		default:
			do(e.opUpdateSOA(runner.Pick(r, c12Tokens)), users)
		}
		e.recordSweep()
		b.State(fmt.Sprintf("recs%d alive%d", len(e.m.recs), e.aliveCount()))
	}
	if b.Index < 2 {
		h := b.HistoryFn()
		if len(h) > 8 {
			h = h[len(h)-8:]
		}
		b.Sample(map[string]any{"committee": n, "tail_of_history": h})
	}
}
