package nns

import (
	"bytes"
	"fmt"
	"strings"

	"github.com/nspcc-dev/neo-go/pkg/core/transaction"
	"github.com/nspcc-dev/neo-go/pkg/util"

	"verif/harness/runner"
	"verif/harness/world"
)

// per-name ownership history for the "former owner / former admin" roles
type hist struct {
	formerOwner map[string][]byte
	formerAdmin map[string][]byte
}

var c11Names = []string{"aa.com", "bb.com", "cc.aa.com", "dd.aa.com", "ee.cc.aa.com", "cc.bb.com"}

const (
	rOwner = iota
	rAdmin
	rFormerOwner
	rFormerAdmin
	rParentOwner
	rParentAdmin
	rStranger
	rCommittee
	rAlphabet
	rMember
	rNobody
	nRoles
)

var roleNames = []string{"owner", "admin", "former-owner", "former-admin", "parent-owner", "parent-admin", "stranger", "committee", "alphabet", "member", "nobody"}

// roleSigners resolves a role relative to a name into concrete signers; ok=false if the role has no holder now.
func (e *env) roleSigners(h *hist, role int, name string) (users []int, committee, alphabet, member, ok bool) {
	st := e.m.names[name]
	l := labels(name)
	var parent *nameSt
	if len(l) > 1 {
		parent = e.m.names[strings.Join(l[1:], ".")]
	}
	pick := func(acc []byte) bool {
		if i := e.userIdx(acc); i >= 0 {
			users = []int{i}
			return true
		}
		return false
	}
	switch role {
	case rOwner:
		if st == nil {
			return
		}
		if len(st.owner) == 0 {
			return nil, true, false, false, true
		}
		ok = pick(st.owner)
	case rAdmin:
		if st == nil || st.admin == nil || bytes.Equal(st.admin, st.owner) {
			return
		}
		ok = pick(st.admin)
	case rFormerOwner:
		fo := h.formerOwner[name]
		if st == nil || fo == nil || bytes.Equal(fo, st.owner) || bytes.Equal(fo, st.admin) {
			return
		}
		ok = pick(fo)
	case rFormerAdmin:
		fa := h.formerAdmin[name]
		if st == nil || fa == nil || bytes.Equal(fa, st.owner) || bytes.Equal(fa, st.admin) {
			return
		}
		ok = pick(fa)
	case rParentOwner:
		if parent == nil || st == nil {
			return
		}
		if len(parent.owner) == 0 {
			// committee owns the parent (a TLD): that is the committee role, unless the name itself is committee-owned
			return
		}
		if bytes.Equal(parent.owner, st.owner) || bytes.Equal(parent.owner, st.admin) {
			return
		}
		ok = pick(parent.owner)
	case rParentAdmin:
		if parent == nil || st == nil || parent.admin == nil || bytes.Equal(parent.admin, st.owner) || bytes.Equal(parent.admin, st.admin) {
			return
		}
		ok = pick(parent.admin)
	case rStranger:
		for i, u := range e.users {
			if st != nil && (bytes.Equal(u.hash, st.owner) || bytes.Equal(u.hash, st.admin)) {
				continue
			}
			if parent != nil && (bytes.Equal(u.hash, parent.owner) || bytes.Equal(u.hash, parent.admin)) {
				continue
			}
			users = []int{i}
			return users, false, false, false, true
		}
	case rCommittee:
		return nil, true, false, false, true
	case rAlphabet:
		return nil, false, true, false, true
	case rMember:
		return nil, false, false, true, true
	case rNobody:
		return nil, false, false, false, true
	}
	return
}

func runC11(b *runner.Batch) {
	// even sizes matter: there the majority (n/2+1) differs from half of the committee (seeded change C11-3)
	n := []int{3, 4, 7, 6, 1, 2}[b.Index%6]
	if !b.Thorough() && b.Index%6 >= 4 {
		n = []int{3, 4}[b.Index%2]
	}
	e, err := newEnv(b, n, []string{"com"})
	if err != nil {
		b.Inconclusive("world: " + err.Error())
		return
	}
	defer e.w.Close()
	// a fourth user so that strangers always exist
	r := b.Rng
	h := &hist{formerOwner: map[string][]byte{}, formerAdmin: map[string][]byte{}}
	scopedFunded := map[util.Uint160]bool{}
	run := func(o *nnsOp, users []int, committee, alphabet, member bool, role string) *opResult {
		s, w := e.signerSet(users, committee, alphabet, member)
		if role != "setup" && len(s) > 0 && r.IntN(8) == 0 {
			// the same keys sign, but with scopes that do not reach the call (None; restricted to another contract); the
			// first of them sends the transaction and pays for it. Nobody witnesses then (seeded change C11-11: the
			// transaction's sender taken for the owner's witness)
			for i := range s {
				if i%2 == 0 {
					s[i] = world.Scoped(s[i].S, transaction.None)
				} else {
					s[i] = world.Scoped(s[i].S, transaction.CustomContracts, e.w.GAS)
				}
			}
			// the sender pays the fees of this transaction out of its own pocket (150 GAS of system fee are attached to
			// every call here): topped up each time, or the ledger refuses the transaction before the contract sees it
			e.w.FundGAS(s[0].Account(), 1000_0000_0000)
			scopedFunded[s[0].Account()] = true
			s[0].Sends = true
			w = wits{accounts: map[string]bool{}, desc: w.desc + " (signing with scopes that do not reach the call)"}
			role += "-scoped-away"
		}
		res := e.exec(o, s, w)
		out := "refused"
		if res.r.Halted() && res.expect == "ok" {
			out = "accepted"
		}
		b.Hit(fmt.Sprintf("%s:%s-by-%s", o.method, out, role))
		return res
	}
	trackTransfer := func(name string, before *nameSt, res *opResult) {
		if res.applied && before != nil {
			if !bytes.Equal(before.owner, e.m.names[name].owner) {
				h.formerOwner[name] = before.owner
				if before.admin != nil {
					h.formerAdmin[name] = before.admin
				}
			}
		}
	}
	// set-up: names with owners and admins
	reg := func(name string, owner int) {
		users, committee := e.honestRegisterSigners(name, e.users[owner].hash, int64(e.w.Now))
		run(e.opRegister(name, e.users[owner].hash, 4000+int64(r.IntN(3000))), users, committee, false, false, "setup")
	}
	reg("aa.com", 0)
	reg("bb.com", 1)
	reg("cc.aa.com", 0)
	run(e.opSetAdmin("aa.com", e.users[1].hash), []int{0, 1}, false, false, false, "setup")
	run(e.opSetAdmin("cc.aa.com", e.users[2].hash), []int{0, 2}, false, false, false, "setup")
	// canonical: transfer clears the admin; former owner and former admin lose their rights
	before := *e.m.names["cc.aa.com"]
	res := run(e.opTransfer(e.users[1].hash, "cc.aa.com"), []int{0}, false, false, false, "owner")
	trackTransfer("cc.aa.com", &before, res)
	run(e.opAddRecord("cc.aa.com", tTXT, "by former owner"), []int{0}, false, false, false, "former-owner")
	run(e.opAddRecord("cc.aa.com", tTXT, "by former admin"), []int{2}, false, false, false, "former-admin")
	run(e.opAddRecord("cc.aa.com", tTXT, "by owner"), []int{1}, false, false, false, "owner")

	nops := 120
	if b.Thorough() {
		nops = 250
	}
	methods := []string{"register", "register", "transfer", "setAdmin", "renew", "updateSOA", "addRecord", "setRecord", "deleteRecords", "registerTLD"}
	for i := 0; i < nops && b.NViolations() == 0; i++ {
		e.w.Now += uint64(r.IntN(120)) * 1000
		now := int64(e.w.Now)
		name := runner.Pick(r, c11Names)
		method := runner.Pick(r, methods)
		role := r.IntN(nRoles)
		st := e.m.names[name]
		// let expired names be re-registered by somebody else now and then
		if st != nil && !e.m.alive(name, now) && method != "register" && r.IntN(2) == 0 {
			method = "register"
		}
		switch method {
		case "registerTLD":
			tld := runner.Pick(r, []string{"net", "org", "com"})
			users, c, a, m, ok := e.roleSigners(h, runner.Pick(r, []int{rStranger, rCommittee, rAlphabet, rMember, rNobody}), "aa.com")
			if ok {
				run(e.opRegisterTLD(tld, 50000), users, c, a, m, "tld-caller")
			}
		case "register":
			if e.registrar != nil && r.IntN(8) == 0 {
				// the owner-to-be is a deployed contract with a payment callback that accepts everything; it neither
				// calls nor signs, so nobody witnesses for it (seeded change C11-8: "a contract consents in its callback")
				who := []int{r.IntN(3)}
				committee := r.IntN(3) == 0
				run(e.opRegister(name, e.registrar, 1500+int64(r.IntN(4000))), who, committee, false, false, "for-a-contract-that-does-not-ask")
				continue
			}
			newOwner := r.IntN(3)
			// signer classes for registration: new owner (+ parent controller), or not
			users := []int{newOwner}
			committee := false
			l := labels(name)
			roleName := "new-owner"
			switch k := r.IntN(6); {
			case k < 3 && len(l) > 2:
				u2, c2 := e.honestRegisterSigners(name, e.users[newOwner].hash, now)
				users, committee = u2, c2
				roleName = "new-owner+parent-controller"
			case k == 3 && len(l) > 2:
				// parent controller without the new owner's witness
				p := e.m.names[strings.Join(l[1:], ".")]
				if p != nil {
					if j := e.userIdx(p.owner); j >= 0 && j != newOwner {
						users = []int{j}
						roleName = "parent-owner-only"
					}
				}
			case k == 4 && len(l) > 2 && r.IntN(2) == 0:
				// the new owner witnesses, but nobody who controls the enclosing name does
				p := e.m.names[strings.Join(l[1:], ".")]
				if p != nil && e.userIdx(p.owner) != newOwner && (p.admin == nil || e.userIdx(p.admin) != newOwner) {
					roleName = "new-owner-without-parent-controller"
				}
			case k == 4:
				users = []int{(newOwner + 1) % 3}
				roleName = "another-user"
			case k == 5:
				users = nil
				committee = true
				roleName = "committee-only"
			}
			before := st
			var cp *nameSt
			if before != nil {
				c := *before
				cp = &c
			}
			res := run(e.opRegister(name, e.users[newOwner].hash, 1500+int64(r.IntN(4000))), users, committee, false, false, roleName)
			if res.applied && cp != nil {
				h.formerOwner[name] = cp.owner
				if cp.admin != nil {
					h.formerAdmin[name] = cp.admin
				}
				b.Hit("re-registration-of-expired-name-by-another")
			}
		default:
			if (method == "renew" || method == "updateSOA") && r.IntN(5) == 0 {
				name = "com" // a committee-owned name
				st = e.m.names[name]
			}
			if st == nil || !e.m.alive(name, now) {
				continue
			}
			users, c, a, m, ok := e.roleSigners(h, role, name)
			if !ok {
				continue
			}
			rn := roleNames[role]
			switch method {
			case "transfer":
				to := e.users[r.IntN(3)].hash
				cp := *st
				res := run(e.opTransfer(to, name), users, c, a, m, rn)
				trackTransfer(name, &cp, res)
			case "setAdmin":
				adm := r.IntN(3)
				// the new admin must witness too: add it unless we test its absence
				u := append([]int{}, users...)
				with := r.IntN(4) != 0
				if with {
					u = append(u, adm)
				}
				oldAdmin := st.admin
				var res *opResult
				if r.IntN(5) == 0 {
					// the admin is dismissed (Null): nobody else has to witness, and the dismissed one is a former admin
					res = run(e.opSetAdmin(name, nil), users, c, a, m, rn+"-dismissal")
					if res.applied && oldAdmin != nil {
						b.Hit("admin-dismissed")
					}
				} else {
					res = run(e.opSetAdmin(name, e.users[adm].hash), u, c, a, m, rn+map[bool]string{true: "+new-admin", false: "-without-new-admin"}[with])
				}
				if res.applied && oldAdmin != nil && !bytes.Equal(oldAdmin, st.admin) {
					h.formerAdmin[name] = oldAdmin
				}
			case "renew":
				// both forms of the method: renew(name, years) and the one-argument overload (seeded change C11-9: the
				// overload taking a path of its own around the witness check)
				run(e.opRenew(name, 1, r.IntN(2) == 0), users, c, a, m, rn)
			case "updateSOA":
				run(e.opUpdateSOA(name), users, c, a, m, rn)
			case "addRecord":
				e.seq++
				run(e.opAddRecord(name, tTXT, fmt.Sprintf("txt %d", e.seq)), users, c, a, m, rn)
			case "setRecord":
				e.seq++
				run(e.opSetRecord(name, tTXT, 0, fmt.Sprintf("set %d", e.seq)), users, c, a, m, rn)
			case "deleteRecords":
				run(e.opDeleteRecords(name, tTXT), users, c, a, m, rn)
			}
		}
		b.State(fmt.Sprintf("alive%d", e.aliveCount()))
	}
	if b.Index < 2 {
		hh := b.HistoryFn()
		if len(hh) > 8 {
			hh = hh[len(hh)-8:]
		}
		b.Sample(map[string]any{"committee": n, "tail_of_history": hh})
	}
}
