package nns

import (
	"fmt"
	"net/netip"
	"strings"

	"verif/harness/runner"
	"verif/harness/world"
)

// ---- independent predicates (written from the property statement, not from the contract)

func validLabel(l string, last bool) bool {
	max := 63
	if last {
		max = 16
	}
	if len(l) < 1 || len(l) > max {
		return false
	}
	for i := 0; i < len(l); i++ {
		c := l[i]
		ok := c >= 'a' && c <= 'z' || c >= '0' && c <= '9' || c == '-'
		if !ok {
			return false
		}
	}
	if l[0] == '-' || l[len(l)-1] == '-' {
		return false
	}
	if last && !(l[0] >= 'a' && l[0] <= 'z') {
		return false
	}
	return true
}

func validName(s string) bool {
	if len(s) < 3 || len(s) > 255 {
		return false
	}
	ls := strings.Split(s, ".")
	for i, l := range ls {
		if !validLabel(l, i == len(ls)-1) {
			return false
		}
	}
	return true
}

func canonicalV4(s string) (netip.Addr, bool) {
	a, err := netip.ParseAddr(s)
	if err != nil || !a.Is4() || a.String() != s {
		return a, false
	}
	return a, true
}

var v4Special = []string{"0.0.0.0/8", "10.0.0.0/8", "100.64.0.0/10", "127.0.0.0/8", "169.254.0.0/16", "172.16.0.0/12", "192.0.0.0/24", "192.0.2.0/24", "192.88.99.0/24", "192.168.0.0/16", "198.18.0.0/15", "198.51.100.0/24", "203.0.113.0/24", "224.0.0.0/3"}
var v4ClearlyNotPublic = []string{"0.0.0.0/8", "10.0.0.0/8", "127.0.0.0/8", "169.254.0.0/16", "172.16.0.0/12", "192.168.0.0/16", "224.0.0.0/3"}

func inAny(a netip.Addr, nets []string) bool {
	for _, n := range nets {
		if netip.MustParsePrefix(n).Contains(a) {
			return true
		}
	}
	return false
}

// mustAcceptA: canonical, outside every special-purpose range, host part not 0/255.
func mustAcceptA(s string) bool {
	a, ok := canonicalV4(s)
	if !ok || inAny(a, v4Special) {
		return false
	}
	last := a.As4()[3]
	return last != 0 && last != 255
}

// mayAcceptA: canonical and not clearly non-public.
func mayAcceptA(s string) bool {
	a, ok := canonicalV4(s)
	return ok && !inAny(a, v4ClearlyNotPublic)
}

func textualV6(s string) (netip.Addr, bool) {
	if strings.ContainsAny(s, "%.") {
		return netip.Addr{}, false
	}
	a, err := netip.ParseAddr(s)
	if err != nil || !a.Is6() || a.Is4In6() {
		return a, false
	}
	return a, true
}

var v6Reserved = []string{"2002::/16", "3ffe::/16", "2001::/23", "2001:db8::/32"}

func mayAcceptAAAA(s string) bool {
	if strings.Contains(s, "%") {
		return false
	}
	a, err := netip.ParseAddr(s)
	if err != nil || !a.Is6() {
		return false
	}
	return netip.MustParsePrefix("2000::/3").Contains(a)
}

func mustAcceptAAAA(s string) bool {
	a, ok := textualV6(s)
	return ok && netip.MustParsePrefix("2000::/3").Contains(a) && !inAny(a, v6Reserved)
}

// knownTrailingCompression: '::' at the very end standing for exactly one group (7 groups written).
func knownTrailingCompression(s string) bool {
	return strings.HasSuffix(s, "::") && strings.Count(s, ":") == 8 && !strings.Contains(strings.TrimSuffix(s, "::"), "::")
}

// ---- the check

type c18env struct {
	*env
	owner     []world.SignerSpec
	committee []world.SignerSpec
	// verdicts on addresses written out in full, by text
	fullVerdict map[string]bool
}

func syntaxRefusal(err string) bool {
	// (bytes that are no UTF-8 make the call fault inside the VM before the contract's own checks: refused all the same)
	return strings.Contains(err, "invalid domain name length") || strings.Contains(err, "invalid domain fragment") || strings.Contains(err, "not UTF-8")
}

// judgeName classifies s through isAvailable / register / registerTLD test invocations.
func (c *c18env) judgeName(s string) {
	b := c.b
	want := validName(s)
	for _, m := range []string{"isAvailable", "register", "registerTLD"} {
		var r world.ReadResult
		switch m {
		case "isAvailable":
			r = c.w.Read(c.nns, m, s)
		case "register":
			r = c.w.ReadWith(world.ReadOpts{Signers: c.owner}, c.nns, m, s, c.users[0].hash, "a@b.c", int64(1), int64(1), int64(1000), int64(1))
		default:
			r = c.w.ReadWith(world.ReadOpts{Signers: c.committee}, c.nns, m, s, "a@b.c", int64(1), int64(1), int64(1000), int64(1))
		}
		b.Read(1)
		accepted := r.OK() || !syntaxRefusal(r.Err)
		if accepted != want {
			b.Violation(fmt.Sprintf("%s(%q): syntax layer %s the name, a %s name by the statement (%s)", m, s, map[bool]string{true: "accepts", false: "refuses"}[accepted], map[bool]string{true: "well-formed", false: "malformed"}[want], trunc(r.Err, 60)), map[string]any{"name": s, "method": m})
		}
		if len(r.Events) > 0 && !r.OK() {
			b.Violation("a refused call emitted notifications", nil)
		}
	}
	b.Eval("name|"+nameClass(s, want), true)
}

func nameClass(s string, ok bool) string {
	return fmt.Sprintf("len%d|labels%d|%v", min(len(s), 70), strings.Count(s, ".")+1, ok)
}

// judgeData classifies record data through addRecord test invocations on a registered name.
func (c *c18env) judgeData(typ int, data string, must, may bool, class string) bool {
	b := c.b
	r := c.w.ReadWith(world.ReadOpts{Signers: c.owner}, c.nns, "addRecord", "rec.com", int64(typ), data)
	b.Read(1)
	accepted := r.OK()
	det := map[string]any{"type": typ, "data": data, "fault": trunc(r.Err, 80)}
	switch {
	case accepted && !may:
		b.Violation(fmt.Sprintf("addRecord accepts %q as type-%d data, which is not well-formed by the statement", data, typ), det)
	case !accepted && must:
		if typ == tAAAA && knownTrailingCompression(data) {
			b.Known("nns-ipv6-trailing-compression", "addRecord(AAAA) refuses addresses whose trailing '::' stands for exactly one group, e.g. 2a00:2:3:4:5:6:7:: (the scanner sees 9 colon-separated fragments)", det)
		} else {
			b.Violation(fmt.Sprintf("addRecord refuses %q, well-formed type-%d data by the statement (%s)", data, typ, trunc(r.Err, 60)), det)
		}
	}
	b.Eval(fmt.Sprintf("data|%d|%s|%v", typ, class, accepted), true)
	if accepted {
		b.Hit(fmt.Sprintf("type%d-accepted", typ))
	} else {
		b.Hit(fmt.Sprintf("type%d-refused", typ))
	}
	return accepted
}

func (c *c18env) judgeA(s, class string) { c.judgeData(tA, s, mustAcceptA(s), mayAcceptA(s), class) }

// judgeAAAA: besides the two bands, the verdict must belong to the address and not to its spelling: where the statement
// leaves the verdict open (the special-purpose blocks inside 2000::/3), a lower-case textual form and the same address
// written out in full (eight groups of four digits) must fare alike (seeded change C18-11: a two-digit group read
// differently from the same group with leading zeros)
func (c *c18env) judgeAAAA(s, class string) {
	accepted := c.judgeData(tAAAA, s, mustAcceptAAAA(s), mayAcceptAAAA(s), class)
	a, ok := textualV6(s)
	if !ok || s != strings.ToLower(s) {
		return
	}
	full := a.StringExpanded()
	if full == s {
		return
	}
	if c.fullVerdict == nil {
		c.fullVerdict = map[string]bool{}
	}
	fv, seen := c.fullVerdict[full]
	if !seen {
		r := c.w.ReadWith(world.ReadOpts{Signers: c.owner}, c.nns, "addRecord", "rec.com", int64(tAAAA), full)
		c.b.Read(1)
		fv = r.OK()
		c.fullVerdict[full] = fv
	}
	if fv != accepted {
		c.b.Violation(fmt.Sprintf("addRecord(AAAA): %q accepted=%v, the same address written out in full %q accepted=%v", s, accepted, full, fv),
			map[string]any{"data": s, "full": full})
	}
	c.b.Eval(fmt.Sprintf("spelling|%s|%v", class, accepted), true)
	c.b.Hit("aaaa-spelling-compared-with-the-full-form")
}

const nameAlphabet = "az09-.A_+ "

// enumerate all strings of exactly length n over the reduced alphabet, index range [lo,hi)
func nthString(n int, idx int) string {
	buf := make([]byte, n)
	for i := n - 1; i >= 0; i-- {
		buf[i] = nameAlphabet[idx%len(nameAlphabet)]
		idx /= len(nameAlphabet)
	}
	return string(buf)
}

func pow10(n int) int {
	r := 1
	for i := 0; i < n; i++ {
		r *= 10
	}
	return r
}

const c18Chunk = 25000

func c18NameBatches(tier string) int {
	maxLen := 5
	if tier == "thorough" {
		maxLen = 6
	}
	total := 0
	for n := 0; n <= maxLen; n++ {
		total += pow10(n)
	}
	return (total + c18Chunk - 1) / c18Chunk
}

func c18Batches(tier string) int {
	extra := 16
	if tier == "thorough" {
		extra = 64
	}
	return c18NameBatches(tier) + extra
}

var octetEdits = []string{"", "0", "00", "01", "1", "9", "10", "99", "100", "127", "128", "169", "172", "192", "223", "224", "239", "240", "254", "255", "256", "999", "+1", "-1", " 1", "1 ", "0x1", "1e1", "a", "٣"}
var groupEdits = []string{"", "0", "1", "f", "F", "10", "ff", "100", "200", "1ff", "7ff", "800", "8a0", "db8", "db9", "fff", "1000", "2000", "2001", "2002", "3ffe", "3fff", "4000", "7fff", "8000", "ffff", "FFFF", "00001", "10000", "g", "+1", "-1", " 1"}

func runC18(b *runner.Batch) {
	e, err := newEnv(b, 1, []string{"com", "org"})
	if err != nil {
		b.Inconclusive("world: " + err.Error())
		return
	}
	defer e.w.Close()
	e.w.KeepHistory = false
	c := &c18env{env: e}
	c.owner, _ = e.signerSet([]int{0}, false, false, false)
	c.committee, _ = e.signerSet([]int{0}, true, false, false)
	s, w := e.signerSet([]int{0}, false, false, false)
	if res := e.exec(e.opRegister("rec.com", e.users[0].hash, 10_000_000), s, w); !res.applied {
		b.Inconclusive("could not register the carrier name")
		return
	}
	nb := c18NameBatches(b.Tier)
	if b.Index < nb {
		// exhaustive names: global index range of this batch over lengths 0..maxLen
		lo, hi := b.Index*c18Chunk, (b.Index+1)*c18Chunk
		maxLen := 5
		if b.Thorough() {
			maxLen = 6
		}
		base := 0
		for n := 0; n <= maxLen; n++ {
			cnt := pow10(n)
			for i := max(lo-base, 0); i < cnt && base+i < hi; i++ {
				c.judgeName(nthString(n, i))
				if b.NViolations() >= 5 {
					return
				}
			}
			base += cnt
		}
		b.Hit("exhaustive-name-chunk")
		if b.Index == 0 {
			b.Sample(map[string]any{"exhaustive_names_examples": []string{"", "a", "a.z", "-a.z", "a..z", "A.z", "a.9z"}})
		}
		return
	}
	k := b.Index - nb
	r := b.Rng
	// structured name mutations at the length boundaries
	rep := func(ch string, n int) string { return strings.Repeat(ch, n) }
	boundary := []string{
		rep("a", 1), rep("a", 2), rep("a", 3), rep("a", 16), rep("a", 17), "a." + rep("b", 16), "a." + rep("b", 17),
		rep("a", 63) + ".com", rep("a", 64) + ".com", rep("a", 62) + "-.com", "-" + rep("a", 62) + ".com", rep("a", 31) + "-" + rep("a", 31) + ".com",
		"9" + rep("a", 15), "a9.9a", "a9.a9", "x.y.z.w.v.com", "x..com", ".com", "com.", "a.b-", "a.-b", "a.b-c", "a.bc", "ab.c",
	}
	// 255 / 256 bytes
	l63 := rep("a", 63)
	n255 := l63 + "." + l63 + "." + l63 + "." + rep("a", 59) + ".com"
	boundary = append(boundary, n255, "a"+n255, n255[1:], strings.ToUpper(n255), strings.Replace(n255, "a.", "_.", 1))
	// over-long names whose every label is valid: only the total length is wrong (seeded change C18-3)
	for _, total := range []int{254, 255, 256, 257, 300, 511, 1000} {
		// labels of 63 bytes, a first label taking the remainder, the TLD "com"
		rest := total - len(".com")
		var labels []string
		for rest > 63 {
			labels = append(labels, l63)
			rest -= 64
		}
		if rest > 0 {
			labels = append([]string{rep("b", rest)}, labels...)
		}
		boundary = append(boundary, strings.Join(labels, ".")+".com")
	}
	// one constraint violated (or met exactly) in one label of an otherwise valid four-label name, at every position
	for pos := 0; pos < 4; pos++ {
		for _, lab := range []string{rep("x", 63), rep("x", 64), "", "-x", "x-", "x-y", "x--y", "X", "xY", "x_y", "9x", "99", "x9", rep("x", 16), rep("x", 17), "x" + rep("9", 15), "x" + rep("9", 16), "x y", "x+", "é"} {
			ls := []string{"ab", "cd", "ef", "com"}
			ls[pos] = lab
			boundary = append(boundary, strings.Join(ls, "."))
		}
	}
	// every byte value at the first, an inner and the last position of a label of an otherwise valid name (the
	// reduced alphabet of the exhaustive part leaves out the neighbours of the accepted ranges in the code table:
	// ',' '/' ':' '@' '[' '`' '{'; seeded change C18-9 lets '/' through inside a label)
	for c := 0; c < 256; c++ {
		ch := string([]byte{byte(c)})
		boundary = append(boundary, "ab."+ch+"xy.com", "ab.x"+ch+"y.com", "ab.xy"+ch+".com", "x"+ch+"y")
	}
	boundary = append(boundary, strings.Repeat("a.", 126)+"com", strings.Repeat("a.", 127)+"com", strings.Repeat("a.", 128)+"com", strings.Repeat("a.", 300)+"com")
	if k == 0 {
		for _, s := range boundary {
			c.judgeName(s)
		}
		b.Hit("name-length-boundaries")
		// CNAME data = names; TXT <= 255
		for _, s := range boundary {
			c.judgeData(tCNAME, s, validName(s), validName(s), "cname-boundary")
		}
		for _, n := range []int{0, 1, 254, 255, 256, 300} {
			c.judgeData(tTXT, rep("t", n), n <= 255, n <= 255, fmt.Sprintf("txt-len%d", n))
		}
		// the limit counts bytes, not characters (seeded change C18-8): two- and three-byte characters around 255 bytes,
		// and bytes that are no UTF-8 at all
		for _, t := range []struct {
			s  string
			ok bool
		}{{rep("é", 127), true}, {rep("é", 127) + "a", true}, {rep("é", 128), false}, {rep("€", 85), true}, {rep("€", 86), false}, {rep("€", 255), false},
			{"\xff\xfe\xfd", true}, {rep("\xff", 255), true}, {rep("\xff", 256), false}, {"a\x00b", true}} {
			c.judgeData(tTXT, t.s, t.ok, t.ok, fmt.Sprintf("txt-multibyte-%dbytes", len(t.s)))
		}
		b.Hit("txt-and-cname-boundaries")
	}
	if k == 1 {
		// all single-octet edits of a valid base, all positions
		base := []string{"93", "184", "216", "34"}
		for pos := 0; pos < 4; pos++ {
			for _, ed := range octetEdits {
				o := append([]string{}, base...)
				o[pos] = ed
				c.judgeA(strings.Join(o, "."), fmt.Sprintf("octet%d-edit", pos))
			}
		}
		for _, s := range []string{"1.2.3", "1.2.3.4.5", "1.2.3.4.", ".1.2.3.4", "1..2.3", "1.2.3.4 ", "01.2.3.4", "1.2.3.04", "1.2.3.4/8", "1,2,3,4", "١.٢.٣.٤", "0.1.2.3", "10.1.2.3", "100.64.1.1", "127.0.0.1", "169.254.1.1", "172.15.1.1", "172.16.1.1", "172.31.1.1", "172.32.1.1", "192.167.1.1", "192.168.1.1", "192.169.1.1", "223.255.255.254", "224.0.0.1", "255.255.255.255", "1.2.3.0", "1.2.3.255", "8.8.8.8", "+1.2.3.4", "1.+2.3.4", "1.2.3.+4", "-1.2.3.4"} {
			c.judgeA(s, "v4-shape")
		}
		// every byte value substituted for, and inserted at, every position of a valid address (the neighbours of the
		// digits in the code table are '/' and ':')
		for _, base := range []string{"93.184.216.34", "8.8.4.4"} {
			for pos := 0; pos <= len(base); pos++ {
				for ch := 0; ch < 256; ch++ {
					if pos < len(base) {
						c.judgeA(base[:pos]+string([]byte{byte(ch)})+base[pos+1:], "v4-byte-substituted")
					}
					c.judgeA(base[:pos]+string([]byte{byte(ch)})+base[pos:], "v4-byte-inserted")
				}
			}
		}
		b.Hit("v4-mutation-classes")
	}
	if k == 2 {
		// all single-group edits of valid bases, all :: positions
		bases := [][]string{{"2a01", "4f0", "1", "2", "3", "4", "5", "6"}, {"2001", "4860", "4860", "0", "0", "0", "0", "8888"}}
		for _, base := range bases {
			for pos := 0; pos < 8; pos++ {
				for _, ed := range groupEdits {
					g := append([]string{}, base...)
					g[pos] = ed
					c.judgeAAAA(strings.Join(g, ":"), fmt.Sprintf("group%d-edit", pos))
				}
			}
			// every byte value substituted for, and inserted at, every position (neighbours of the hexadecimal digits:
			// '/' ':' '@' 'G' '`' 'g')
			full := strings.Join(base, ":")
			for pos := 0; pos <= len(full); pos++ {
				for ch := 0; ch < 256; ch++ {
					if pos < len(full) {
						c.judgeAAAA(full[:pos]+string([]byte{byte(ch)})+full[pos+1:], "v6-byte-substituted")
					}
					c.judgeAAAA(full[:pos]+string([]byte{byte(ch)})+full[pos:], "v6-byte-inserted")
				}
			}
			// every :: position and width
			for start := 0; start <= 8; start++ {
				for width := 1; start+width <= 8; width++ {
					left := strings.Join(base[:start], ":")
					right := strings.Join(base[start+width:], ":")
					c.judgeAAAA(left+"::"+right, fmt.Sprintf("compress@%d/%d", start, width))
				}
			}
		}
		for _, s := range []string{"::", "::1", "2001::", "2001:db8::1", "2001:db9::1", "2001:8a0::1", "2001:ffff::1", "2001:1ff::1", "2001:200::1", "2002::1", "3ffe::1", "3fff::1", "4000::1", "1fff::1", "2000::1", "2a00:2:3:4:5:6:7::", "2a00::2::3", "2a00:::1", ":2a00::1", "2a00::1:", "2a00:1:2:3:4:5:6:7:8", "2a00:1:2:3:4:5:6", "2a00::1.2.3.4", "2a00::1%eth0", "2A00::1", "2a00::00001", "fe80::1", "ff02::1", "fc00::1", "2a00::g"} {
			c.judgeAAAA(s, "v6-shape")
		}
		b.Hit("v6-mutation-classes")
	}
	// grammar-biased PRNG strings
	nrand := 1250
	if b.Thorough() {
		nrand = 16000
	}
	for i := 0; i < nrand && b.NViolations() < 5; i++ {
		switch r.IntN(3) {
		case 0:
			var o []string
			for j := 0; j < runner.Pick(r, []int{4, 4, 4, 4, 3, 5}); j++ {
				if r.IntN(4) == 0 {
					o = append(o, runner.Pick(r, octetEdits))
				} else {
					o = append(o, fmt.Sprint(r.IntN(256)))
				}
			}
			c.judgeA(strings.Join(o, "."), "random")
		case 1:
			ng := runner.Pick(r, []int{8, 8, 8, 7, 6, 5, 4, 3, 9})
			var g []string
			for j := 0; j < ng; j++ {
				switch r.IntN(6) {
				case 0:
					g = append(g, runner.Pick(r, groupEdits))
				default:
					g = append(g, fmt.Sprintf("%x", r.IntN(0x10000)>>uint(4*r.IntN(4))))
				}
			}
			g[0] = runner.Pick(r, []string{"2001", "2a00", "2607", "3001", "2000", "3fff", g[0]})
			s := strings.Join(g, ":")
			if ng < 8 || r.IntN(3) == 0 {
				p := r.IntN(len(g) + 1)
				s = strings.Join(g[:p], ":") + "::" + strings.Join(g[p:], ":")
			}
			c.judgeAAAA(s, "random")
		default:
			// random names around validity
			nl := 1 + r.IntN(4)
			var ls []string
			for j := 0; j < nl; j++ {
				ln := runner.Pick(r, []int{1, 2, 3, 5, 15, 16, 17, 62, 63, 64})
				bs := make([]byte, ln)
				for q := range bs {
					bs[q] = "abcxyz0189-"[r.IntN(11)]
					if r.IntN(60) == 0 {
						bs[q] = "A_ +."[r.IntN(5)]
					}
				}
				ls = append(ls, string(bs))
			}
			c.judgeName(strings.Join(ls, "."))
		}
	}
	// refusals leave no trace: submit a sample of refused inputs as real transactions
	ntx := 250
	if b.Thorough() {
		ntx = 320
	}
	bad := []struct {
		m    string
		args []any
	}{
		{"addRecord", []any{"rec.com", int64(tA), "+1.2.3.4x"}}, {"addRecord", []any{"rec.com", int64(tA), "10.0.0.1"}}, {"addRecord", []any{"rec.com", int64(tA), "256.1.1.1"}},
		{"addRecord", []any{"rec.com", int64(tAAAA), "fe80::1"}}, {"addRecord", []any{"rec.com", int64(tAAAA), "2001:db8::1"}}, {"addRecord", []any{"rec.com", int64(tAAAA), "2a00::g"}},
		{"addRecord", []any{"rec.com", int64(tCNAME), "UPPER.com"}}, {"addRecord", []any{"rec.com", int64(tTXT), strings.Repeat("x", 256)}},
		{"setRecord", []any{"rec.com", int64(tA), int64(0), "1.2.3.256"}},
		{"register", []any{"bad_name.com", e.users[0].hash, "a@b.c", int64(1), int64(1), int64(1000), int64(1)}},
		{"register", []any{"-bad.com", e.users[0].hash, "a@b.c", int64(1), int64(1), int64(1000), int64(1)}},
		{"registerTLD", []any{"9tld", "a@b.c", int64(1), int64(1), int64(1000), int64(1)}},
	}
	for i := 0; i < ntx/len(bad)+1 && b.NViolations() < 5; i++ {
		for _, x := range bad {
			args := append([]any{}, x.args...)
			if i > 0 {
				// vary the malformed input
				if s, ok := args[len(args)-1].(string); ok && x.m != "register" && x.m != "registerTLD" {
					args[len(args)-1] = s + strings.Repeat("!", i)
				} else if s, ok := args[0].(string); ok && x.m != "addRecord" && x.m != "setRecord" {
					args[0] = strings.Repeat("_", i) + s
				}
			}
			tr := e.w.Invoke(c.committee, e.nns, x.m, args...)
			b.Tx(1)
			if tr.Halted() || !tr.Diff.Empty() || len(tr.Events) > 0 {
				b.Violation(fmt.Sprintf("malformed input to %s was not rejected without a state change: %s", x.m, tr.State), e.w.RenderResult(tr, true))
			}
			b.Hit("refusal-transaction-inert")
		}
	}
	// and an accepted one of every record type does change state (positive control)
	for _, x := range []struct {
		typ  int
		data string
	}{{tA, "93.184.216.34"}, {tAAAA, "2a01:4f0:1:2::3"}, {tCNAME, "other.com"}, {tTXT, "hello"}} {
		tr := e.w.Invoke(c.owner, e.nns, "addRecord", "rec.com", int64(x.typ), x.data)
		b.Tx(1)
		if !tr.Halted() || tr.Diff.Empty() {
			b.Violation(fmt.Sprintf("well-formed type-%d data %q was not stored: %s %s", x.typ, x.data, tr.State, tr.Fault), nil)
		}
	}
	if k == 0 {
		b.Sample(map[string]any{"boundary_names_tried": len(boundary), "example": boundary[7]})
	}
}

func init() {
	tier := func(q, t int) func(string) int {
		return func(s string) int {
			if s == "thorough" {
				return t
			}
			return q
		}
	}
	tb := []string{"neo-go v0.107.0 VM, ledger and native contracts are the trusted base", "contracts are compiled at check time from /repo/contracts", "time is virtual: block timestamps and the timestamp of read-only invocations are chosen by the harness"}
	runner.Register(&runner.Check{
		ID: "C10", Level: "exploration",
		Rule:        "PRNG histories of register / registerTLD / transfer (other, self, contract) / renew (1..10, 0, 11, default overload) / setAdmin over 10 names of level 2-4 under a long-lived and a short-lived TLD, 3 users and a contract owner, the clock stepped by seconds and onto the instants exp-1 / exp / exp+1 of live names and TLDs; the shared NNS reference model predicts outcome and notifications; after every operation totalSupply, raw sum of balances, balanceOf, tokensOf, tokens and isAvailable / ownerOf / properties of every pool name (also at the three boundary instants) are compared. distinct = (method, signers, reason, outcome). Every other history starts with a chain under the short-lived TLD whose closest parents outlive the names below them, read at the TLD's expiry.",
		Assumptions: append(tb, "isAvailable under an expired or missing parent chain is logged, not judged"),
		Batches:     tier(192, 2048), Helpers: []string{"holder", "registrar"}, Chunk: 8,
		Floors: []string{"parent-zone-record-named-like-a-free-name", "bought-through-a-re-entering-contract", "register:ok", "register:false", "takeover-of-expired-name", "transfer:ok", "transfer:false", "renew:ok", "renew:fail", "isAvailable@exp-1", "isAvailable@exp", "isAvailable@exp+1", "ownerOf-answers@exp-1", "ownerOf-refuses-under-expired-parent", "parent-tld-boundary", "setAdmin:ok"},
		Run:    runC10,
	})
	runner.Register(&runner.Check{
		ID: "C11", Level: "exploration",
		Rule:        "PRNG histories with evolving ownership (transfers, admin changes, expiry and re-registration by somebody else); every step draws a mutating NNS method, a target name and a role {owner, admin, former owner, former admin, parent owner, parent admin, stranger, committee majority, Alphabet (differs from the majority for 3 and 7 keys), single member, nobody}; arguments are valid so that authorisation alone decides; the model computes who may perform the call now and the call must take effect or be inert (no storage diff, no notification) accordingly. distinct = (method, signers, reason, outcome). One call in eight is signed by the same keys with scopes that do not reach the call (None, restricted to another contract), the first of them standing as the transaction's sender: nobody witnesses then.",
		Assumptions: tb,
		Batches:     tier(192, 2048), Helpers: []string{"holder", "registrar"}, Chunk: 8,
		Floors: []string{"addRecord:accepted-by-owner", "addRecord:accepted-by-admin", "addRecord:refused-by-former-owner", "addRecord:refused-by-former-admin", "addRecord:refused-by-stranger", "addRecord:refused-by-parent-owner",
			"admin-dismissed", "transfer:accepted-by-owner", "transfer:refused-by-admin", "setAdmin:accepted-by-owner+new-admin", "setAdmin:refused-by-owner-without-new-admin", "setAdmin:refused-by-admin+new-admin",
			"renew:accepted-by-owner", "renew:accepted-by-admin", "renew:refused-by-stranger", "renew:accepted-by-committee", "renew:refused-by-alphabet", "updateSOA:refused-by-stranger", "deleteRecords:accepted-by-admin", "deleteRecords:refused-by-stranger", "setRecord:refused-by-stranger",
			"register:accepted-by-new-owner+parent-controller", "register:refused-by-another-user", "register:refused-by-parent-owner-only", "registerTLD:accepted-by-tld-caller", "registerTLD:refused-by-tld-caller", "re-registration-of-expired-name-by-another"},
		Run: runC11,
	})
	runner.Register(&runner.Check{
		ID: "C12", Level: "exploration",
		Rule:        "PRNG sequences of addRecord / setRecord / deleteRecords / updateSOA over 7 names (tokens, registered and unregistered sub-names, a name two levels below its token), types {A, AAAA, CNAME, TXT, SOA, 0, 255}, CNAME graphs of depth 0..4 with self-loops and cycles, 17 adds of one type, missing record ids, registrations of enclosing names interleaved, clock jumps onto token expiry; after every operation getRecords (ordered), getAllRecords (set), resolve with and without trailing dot for every pool name and type, SOA serials and the conflicting-record rule are compared with the model. distinct = (method, signers, reason, outcome). Alias targets also include a registered TLD, an unknown single label and a name nobody registered; the model follows them.",
		Assumptions: append(tb, "resolve over exactly three CNAME links and getRecords for a name with an unregistered intermediate parent are logged, not judged"),
		Batches:     tier(64, 768), Helpers: []string{"holder"}, Chunk: 4,
		Floors: []string{"clock-at-sub-name-token-expiry-under-a-live-parent", "addRecord:ok", "addRecord:fail", "setRecord:ok", "setRecord:fail", "deleteRecords:ok", "deleteRecords:fail", "resolve-ok-links0", "resolve-ok-links1", "resolve-ok-links2", "resolve-refuses-long-chain-or-cycle", "resolve-trailing-dot", "conflicting-record-blocks-registration", "records-unreachable", "clock-at-token-expiry"},
		Run:    runC12,
	})
	runner.Register(&runner.Check{
		ID: "C18", Level: "exploration",
		Rule:        "Names: every string of length <= 5 (quick) / <= 6 (thorough) over the reduced alphabet {a z 0 9 - . A _ + space} plus boundary mutations (1/2/3/16/17/63/64/255/256 bytes) and random label mixes, each classified through isAvailable, register and registerTLD test invocations (refused = one of the two syntax faults) against an independent predicate written from the statement. Record data: all single-octet / single-group edits of valid bases, every '::' position and width, fixed shape lists and grammar-biased PRNG strings, classified through addRecord against a sandwich MUST_ACCEPT <= accepted <= MAY_ACCEPT built on net/netip. A sample of refused inputs is submitted in real blocks and must leave an empty storage diff. distinct = (category, length/label/mutation class, verdict). Every lower-case textual IPv6 form is additionally compared with the same address written out in full (eight groups of four digits): the two must fare alike.",
		Assumptions: append(tb, "MAY_ACCEPT for A = canonical dotted quad outside 0/8, 10/8, 127/8, 169.254/16, 172.16/12, 192.168/16, 224/3; MUST_ACCEPT additionally excludes every IANA special-purpose block and host octets 0/255; AAAA: MAY = any textual IPv6 in 2000::/3, MUST = forms without embedded IPv4 outside 2002::/16, 3ffe::/16, 2001::/23, 2001:db8::/32"),
		Batches:     c18Batches, Helpers: []string{"holder"}, Chunk: 1,
		Floors: []string{"exhaustive-name-chunk", "name-length-boundaries", "txt-and-cname-boundaries", "v4-mutation-classes", "v6-mutation-classes", "type1-accepted", "type1-refused", "type28-accepted", "type28-refused", "type5-accepted", "type5-refused", "type16-accepted", "type16-refused", "refusal-transaction-inert"},
		Run:    runC18,
		Exhaustive: func(tier string) (bool, string) {
			if tier == "thorough" {
				return true, "all 1 111 111 strings of length <= 6 over the 10-letter reduced alphabet (names); address mutation lists are complete, random strings are sampled"
			}
			return true, "all 111 111 strings of length <= 5 over the 10-letter reduced alphabet (names); address mutation lists are complete, random strings are sampled"
		},
	})
}
