package witness

import (
	"fmt"
	"sort"
	"strings"

	"github.com/nspcc-dev/neo-go/pkg/util"

	"verif/harness/runner"
	"verif/harness/world"
)

// trace of one transaction, with contract addresses replaced by names so that two worlds
// deployed from different artifact sets are comparable.
type trace struct {
	key    string
	state  string
	fault  string
	stack  string
	events []string
	diff   []string
}

func nameMap(w *world.World) func(string) string {
	var pairs []string
	for h, d := range w.ByH {
		pairs = append(pairs, h.StringLE(), "<"+d.Name+">", fmt.Sprintf("%x", h.BytesBE()), "<"+d.Name+">")
	}
	rep := strings.NewReplacer(pairs...)
	return rep.Replace
}

func traceOf(w *world.World, key string, r *world.TxResult) trace {
	nm := nameMap(w)
	t := trace{key: key, state: r.State + r.Rejected, fault: stripOffsets(nm(r.Fault)), stack: nm(fmt.Sprint(world.RenderItems(r.Stack)))}
	for _, e := range r.Events {
		t.events = append(t.events, nm(fmt.Sprintf("%s:%s%v", w.NameOf(e.Contract), e.Name, world.RenderItems(e.Items))))
	}
	for id, m := range r.Diff {
		name := fmt.Sprint(id)
		for _, d := range w.C {
			if d.ID == id {
				name = d.Name
			}
		}
		for k, c := range m {
			t.diff = append(t.diff, nm(fmt.Sprintf("%s:%x:%x->%x", name, k, c.Old, c.New)))
		}
	}
	sort.Strings(t.diff)
	return t
}

// stripOffsets removes instruction offsets from fault texts (they move when an executable changes
// without changing behaviour).
func stripOffsets(s string) string {
	f := strings.Fields(s)
	for i := range f {
		if i > 0 && f[i-1] == "instruction" {
			f[i] = "N"
		}
	}
	return strings.Join(f, " ")
}

func (t trace) equal(o trace) (bool, string) {
	switch {
	case t.state != o.state:
		return false, fmt.Sprintf("VM state %s vs %s", t.state, o.state)
	case t.fault != o.fault:
		return false, fmt.Sprintf("fault %q vs %q", t.fault, o.fault)
	case t.stack != o.stack:
		return false, fmt.Sprintf("stack %s vs %s", t.stack, o.stack)
	case strings.Join(t.events, "|") != strings.Join(o.events, "|"):
		return false, fmt.Sprintf("notifications %v vs %v", t.events, o.events)
	case strings.Join(t.diff, "|") != strings.Join(o.diff, "|"):
		return false, "storage diffs differ"
	}
	return true, ""
}

// Differential executes every row of the witness table (all signer sets) on two prepared worlds,
// one deployed from setA and one from setB, and reports the first transactions that differ.
// It returns the number of transactions compared.
func Differential(b *runner.Batch, n int, setA, setB world.Set, labelA, labelB string, only func(i int) bool) int {
	compared := 0
	ms := manifestMethods(b)
	idx := 0
	for _, m := range ms {
		if m.safe {
			continue
		}
		idx++
		if only != nil && !only(idx) {
			continue
		}
		key := fmt.Sprintf("%s.%s/%d", m.art, m.name, m.arity)
		s, ok := table[key]
		if !ok || s.kind == kGasCaller {
			continue
		}
		pa, pb := newPrepWith(b, n, setA), newPrepWith(b, n, setB)
		if pa == nil || pb == nil {
			if pa != nil {
				pa.w.Close()
			}
			if pb != nil {
				pb.w.Close()
			}
			return compared
		}
		sa, sb := pa.signerSets(s), pb.signerSets(s)
		sort.SliceStable(sa, func(i, j int) bool { return !sa[i].sufficient && sa[j].sufficient })
		sort.SliceStable(sb, func(i, j int) bool { return !sb[i].sufficient && sb[j].sufficient })
		for i := range sa {
			// arguments naming contract executables stay per world (update rows)
			ra := pa.w.Invoke(sa[i].signers, pa.instance(m.art), m.name, s.args(pa)...)
			rb := pb.w.Invoke(sb[i].signers, pb.instance(m.art), m.name, s.args(pb)...)
			b.Tx(2)
			ta, tb := traceOf(pa.w, key, ra), traceOf(pb.w, key, rb)
			if strings.HasSuffix(key, ".update/3") {
				ta.diff, tb.diff = nil, nil // the stored executable itself is what differs
			}
			if eq, why := ta.equal(tb); !eq {
				b.Violation(fmt.Sprintf("%s under '%s' behaves differently on the %s and the %s contracts: %s", key, sa[i].label, labelA, labelB, why),
					map[string]any{labelA: pa.w.RenderResult(ra, true), labelB: pb.w.RenderResult(rb, true)})
			}
			compared++
			b.Eval(fmt.Sprintf("diff|%s|%s|%s", key, sa[i].label, ra.State), true)
			if sa[i].sufficient {
				break
			}
		}
		pa.w.Close()
		pb.w.Close()
		if b.NViolations() >= 3 {
			break
		}
	}
	return compared
}

var _ = util.Uint160{}
