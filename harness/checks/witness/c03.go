package witness

import (
	"bytes"
	"fmt"
	"sort"
	"strings"

	"github.com/nspcc-dev/neo-go/pkg/core/transaction"
	"github.com/nspcc-dev/neo-go/pkg/crypto/keys"
	"github.com/nspcc-dev/neo-go/pkg/neotest"
	"github.com/nspcc-dev/neo-go/pkg/util"

	"verif/harness/runner"
	"verif/harness/world"
)

// requirement kinds
const (
	kAlphabet     = "Alphabet"
	kMajority     = "Majority"
	kKeyAlphabet  = "Key(arg)+Alphabet"
	kKey          = "Key(arg)"
	kOwnerAdmin   = "Owner+NewAdmin"
	kNode         = "AlphabetNode(index)"
	kRoleMajority = "RoleMajority(NeoFSAlphabet)"
	kGasCaller    = "GAS-caller"
	kNone         = "none"
	kKeyOrStored  = "Key(arg)|StoredAlphabet"
	kStoredNode   = "StoredAlphabetNode(vote)"
	kKeyOrNode    = "Key(arg)|StoredAlphabetNode(vote)"
)

type spec struct {
	kind string
	args func(p *prep) []any
	// key names the key whose witness is required (kKey, kKeyAlphabet, kOwnerAdmin)
	key func(p *prep) *keys.PrivateKey
	// second key for kOwnerAdmin
	key2 func(p *prep) *keys.PrivateKey
	// noEffect: a sufficient call need not change storage or notify (read-only non-safe methods, native-only effects)
	noEffect bool
	// falseOnRefusal: NEP-17/NEP-11 transfer reports false instead of faulting
	falseOnRefusal bool
	// gateFault: with sufficient witnesses the call reaches this fault (update to the same version)
	gateFault string
	// extra: further insufficient signer sets (holders of another privilege on the same object)
	extra func(p *prep) []signerSet
	// alt: documented alternative sufficient signer sets; each one is run on its own freshly prepared world
	alt func(p *prep) []signerSet
	// never: argument lists nobody is entitled to (a Null party): inert under every signer set, the sufficient one included
	never func(p *prep) [][]any
	// unauth: further argument lists for which the requirement is the same; run under the insufficient signer sets
	// only, where they must be as inert as the main list (e.g. a transfer whose receiver is the present owner)
	unauth func(p *prep) [][]any
	// via: the same request made from inside another contract (target.method(args) calls the method under test); run
	// under the insufficient signer sets only: who relays the request changes nothing about whose witness it needs
	via func(p *prep) (util.Uint160, string, []any)
}

func adminAlone(p *prep) []signerSet {
	return []signerSet{{"appointed-admin", []world.SignerSpec{single(p.admk)}, true}}
}

func adminInsufficient(p *prep) []signerSet {
	return []signerSet{{"appointed-admin", []world.SignerSpec{single(p.admk)}, false}}
}

func sigb(x byte) []byte { return bytes.Repeat([]byte{x}, 64) }

func updateSpec(art string, kind string) spec {
	return spec{kind: kind, gateFault: "already of the latest version", args: func(p *prep) []any { return []any{p.nefs[art], p.mans[art], nil} }}
}

func k(f func(p *prep) *keys.PrivateKey) func(p *prep) *keys.PrivateKey { return f }

var table = map[string]spec{
	// ---- alphabet
	"alphabet.emit/0":           {kind: kNode, args: func(p *prep) []any { return nil }},
	"alphabet.vote/2":           {kind: kAlphabet, noEffect: true, args: func(p *prep) []any { return []any{p.epoch, []any{p.w.Pubs[0].Bytes()}} }},
	"alphabet.onNEP17Payment/3": {kind: kGasCaller},
	"alphabet.update/3":         updateSpec("alphabet", kMajority),
	// ---- audit
	"audit.put/1": {kind: kKey, key: func(p *prep) *keys.PrivateKey { return p.ir[0] }, args: func(p *prep) []any {
		return []any{auditBlob(5, p.cid, p.ir[0].PublicKey().Bytes())}
	}},
	"audit.update/3": updateSpec("audit", kMajority),
	// ---- balance
	"balance.burn/3": {kind: kAlphabet, args: func(p *prep) []any { return []any{p.u0.ScriptHash(), int64(5), []byte{1}} }},
	"balance.lock/5": {kind: kAlphabet, args: func(p *prep) []any {
		return []any{[]byte{1}, p.u0.ScriptHash(), util.Uint160{0xaa, 1}, int64(5), int64(9)}
	}, unauth: func(p *prep) [][]any {
		// onto the lock account that exists, and nothing at all
		return [][]any{{[]byte{1}, p.u0.ScriptHash(), util.Uint160{0xaa, 7}, int64(5), int64(9)}, {[]byte{1}, p.u0.ScriptHash(), util.Uint160{0xaa, 1}, int64(0), int64(9)}}
	}},
	"balance.mint/3":     {kind: kAlphabet, args: func(p *prep) []any { return []any{p.u1.ScriptHash(), int64(5), []byte{1}} }},
	"balance.newEpoch/1": {kind: kAlphabet, args: func(p *prep) []any { return []any{int64(3)} }}, // releases the lock prepared with until = 3
	"balance.transfer/4": {kind: kKey, falseOnRefusal: true, key: func(p *prep) *keys.PrivateKey { return p.u0k }, args: func(p *prep) []any {
		return []any{p.u0.ScriptHash(), p.u1.ScriptHash(), int64(5), nil}
	}, never: func(p *prep) [][]any {
		// ... and the contract's own address as the holder: nobody carries its witness (funded in the prepared world)
		return [][]any{{nil, p.u1.ScriptHash(), int64(5), nil}, {p.u0.ScriptHash(), nil, int64(5), nil}, {nil, nil, int64(5), nil},
			{p.w.H("balance"), p.u1.ScriptHash(), int64(5), nil}, {p.w.H("balance"), p.w.H("balance"), int64(0), nil}}
	}, unauth: func(p *prep) [][]any {
		// to the holder itself, and nothing at all: still the holder's to ask for
		return [][]any{{p.u0.ScriptHash(), p.u0.ScriptHash(), int64(5), nil}, {p.u0.ScriptHash(), p.u1.ScriptHash(), int64(0), nil}, {p.u0.ScriptHash(), p.u0.ScriptHash(), int64(0), nil}}
	}},
	"balance.transferX/4": {kind: kAlphabet, args: func(p *prep) []any { return []any{p.u0.ScriptHash(), p.u1.ScriptHash(), int64(5), []byte{1}} }},
	"balance.update/3":    updateSpec("balance", kMajority),
	// ---- container
	"container.addNextEpochNodes/3":         {kind: kAlphabet, args: func(p *prep) []any { return []any{p.cid, int64(0), []any{p.member.PublicKey().Bytes()}} }},
	"container.commitContainerListUpdate/2": {kind: kAlphabet, args: func(p *prep) []any { return []any{p.cid, []any{int64(1)}} }},
	"container.delete/3":                    {kind: kAlphabet, args: func(p *prep) []any { return []any{p.cid, sigb(2), []byte{}} }},
	"container.newEpoch/1":                  {kind: kAlphabet, noEffect: true, args: func(p *prep) []any { return []any{int64(3)} }},
	"container.onNEP11Payment/4":            {kind: kNone, noEffect: true, args: func(p *prep) []any { return []any{p.u0.ScriptHash(), int64(1), []byte("x"), nil} }},
	// further argument lists: containers that are registered already, with and without meta-on-chain, under every
	// overload (seeded change C03-11: a "nothing to do" return ahead of the witness check keeps what the overload wrote
	// in advance)
	"container.put/4": {kind: kAlphabet, args: func(p *prep) []any { return []any{p.blobNew, sigb(3), p.u0k.PublicKey().Bytes(), []byte{}} }, unauth: func(p *prep) [][]any {
		return [][]any{{p.blobPlain, sigb(1), p.u0k.PublicKey().Bytes(), []byte{}}, {p.blobOld, sigb(1), p.u0k.PublicKey().Bytes(), []byte{}}}
	}},
	"container.put/5": {kind: kAlphabet, args: func(p *prep) []any { return []any{p.blobNew, sigb(3), p.u0k.PublicKey().Bytes(), []byte{}, true} }, unauth: func(p *prep) [][]any {
		return [][]any{{p.blobPlain, sigb(1), p.u0k.PublicKey().Bytes(), []byte{}, true}, {p.blobPlain, sigb(1), p.u0k.PublicKey().Bytes(), []byte{}, false},
			{p.blobOld, sigb(1), p.u0k.PublicKey().Bytes(), []byte{}, true}, {p.blobOld, sigb(1), p.u0k.PublicKey().Bytes(), []byte{}, false}, {p.blobNew, sigb(3), p.u0k.PublicKey().Bytes(), []byte{}, false}}
	}},
	"container.putNamed/6": {kind: kAlphabet, args: func(p *prep) []any { return []any{p.blobNew, sigb(3), p.u0k.PublicKey().Bytes(), []byte{}, "nice", ""} }, unauth: func(p *prep) [][]any {
		return [][]any{{p.blobPlain, sigb(1), p.u0k.PublicKey().Bytes(), []byte{}, "", ""}, {p.blobPlain, sigb(1), p.u0k.PublicKey().Bytes(), []byte{}, "nice", ""},
			{p.blobOld, sigb(1), p.u0k.PublicKey().Bytes(), []byte{}, "", ""}, {p.blobNew, sigb(3), p.u0k.PublicKey().Bytes(), []byte{}, "", ""}}
	}},
	"container.putContainerSize/4": {kind: kKey, key: func(p *prep) *keys.PrivateKey { return p.node0 }, args: func(p *prep) []any {
		return []any{p.epoch, p.cid, int64(77), p.node0.PublicKey().Bytes()}
	}},
	"container.setEACL/4":                  {kind: kAlphabet, args: func(p *prep) []any { return []any{eaclBlob(p.cid), sigb(4), p.u0k.PublicKey().Bytes(), []byte{}} }},
	"container.startContainerEstimation/1": {kind: kAlphabet, args: func(p *prep) []any { return []any{p.epoch} }},
	"container.stopContainerEstimation/1":  {kind: kAlphabet, args: func(p *prep) []any { return []any{p.epoch} }},
	"container.submitObjectPut/2": {kind: kNone, args: func(p *prep) []any {
		m, s := p.metaInfo()
		return []any{m, s}
	}},
	"container.update/3": updateSpec("container", kMajority),
	// ---- neofs (notary mode)
	"neofs.alphabetUpdate/2": {kind: kAlphabet, args: func(p *prep) []any { return []any{[]byte("id1"), []any{p.w.Pubs[0].Bytes()}} }},
	"neofs.bind/2": {kind: kKey, key: func(p *prep) *keys.PrivateKey { return p.u0k }, args: func(p *prep) []any {
		return []any{p.u0.ScriptHash(), []any{p.u1k.PublicKey().Bytes()}}
	}},
	"neofs.unbind/2": {kind: kKey, key: func(p *prep) *keys.PrivateKey { return p.u0k }, args: func(p *prep) []any {
		return []any{p.u0.ScriptHash(), []any{p.u1k.PublicKey().Bytes()}}
	}},
	"neofs.cheque/4": {kind: kAlphabet, args: func(p *prep) []any { return []any{[]byte("chq"), p.u1.ScriptHash(), int64(1000), []byte{1}} }},
	"neofs.innerRingCandidateAdd/1": {kind: kKey, key: func(p *prep) *keys.PrivateKey { return p.cand0 }, args: func(p *prep) []any {
		return []any{p.cand0.PublicKey().Bytes()}
	}},
	"neofs.innerRingCandidateRemove/1": {kind: kKeyOrStored, key: func(p *prep) *keys.PrivateKey { return p.cand1 }, args: func(p *prep) []any {
		return []any{p.cand1.PublicKey().Bytes()}
	}},
	"neofs.onNEP17Payment/3": {kind: kGasCaller},
	"neofs.setConfig/3":      {kind: kAlphabet, args: func(p *prep) []any { return []any{[]byte("cfgid"), []byte("SomeKey"), []byte("v")} }},
	"neofs.update/3":         updateSpec("neofs", kRoleMajority),
	"neofs.withdraw/2":       {kind: kKey, key: func(p *prep) *keys.PrivateKey { return p.u0k }, args: func(p *prep) []any { return []any{p.u0.ScriptHash(), int64(3)} }},
	// ---- neofs deployed with Notary disabled: Alphabet-only methods are votes of single stored Alphabet keys
	"neofs-nonotary.alphabetUpdate/2": {kind: kStoredNode, args: func(p *prep) []any { return []any{[]byte("id1"), []any{p.w.Pubs[0].Bytes()}} }},
	"neofs-nonotary.cheque/4":         {kind: kStoredNode, args: func(p *prep) []any { return []any{[]byte("chq"), p.u1.ScriptHash(), int64(1000), []byte{1}} }},
	"neofs-nonotary.setConfig/3":      {kind: kStoredNode, args: func(p *prep) []any { return []any{[]byte("cfgid"), []byte("SomeKey"), []byte("v")} }},
	"neofs-nonotary.innerRingCandidateRemove/1": {kind: kKeyOrNode, key: func(p *prep) *keys.PrivateKey { return p.cand1 }, args: func(p *prep) []any {
		return []any{p.cand1.PublicKey().Bytes()}
	}},
	"neofs-nonotary.innerRingCandidateAdd/1": {kind: kKey, key: func(p *prep) *keys.PrivateKey { return p.cand0 }, args: func(p *prep) []any {
		return []any{p.cand0.PublicKey().Bytes()}
	}},
	"neofs-nonotary.bind/2": {kind: kKey, key: func(p *prep) *keys.PrivateKey { return p.u0k }, args: func(p *prep) []any {
		return []any{p.u0.ScriptHash(), []any{p.u1k.PublicKey().Bytes()}}
	}},
	"neofs-nonotary.unbind/2": {kind: kKey, key: func(p *prep) *keys.PrivateKey { return p.u0k }, args: func(p *prep) []any {
		return []any{p.u0.ScriptHash(), []any{p.u1k.PublicKey().Bytes()}}
	}},
	"neofs-nonotary.withdraw/2": {kind: kKey, key: func(p *prep) *keys.PrivateKey { return p.u0k }, args: func(p *prep) []any { return []any{p.u0.ScriptHash(), int64(3)} }},
	// ---- neofsid
	"neofsid.addKey/2":    {kind: kAlphabet, args: func(p *prep) []any { return []any{p.ownerID, []any{p.u1k.PublicKey().Bytes()}} }},
	"neofsid.removeKey/2": {kind: kAlphabet, args: func(p *prep) []any { return []any{p.ownerID, []any{p.u0k.PublicKey().Bytes()}} }},
	"neofsid.update/3":    updateSpec("neofsid", kMajority),
	// ---- netmap
	"netmap.addNode/1": {kind: kKeyAlphabet, key: func(p *prep) *keys.PrivateKey { return p.node1 }, args: func(p *prep) []any {
		return []any{node2(p.node1.PublicKey().Bytes(), 1)}
	}},
	"netmap.addPeer/1": {kind: kKeyAlphabet, key: func(p *prep) *keys.PrivateKey { return p.node1 }, args: func(p *prep) []any {
		return []any{nodeBlob(p.node1.PublicKey().Bytes(), 2)}
	}},
	"netmap.addPeerIR/1": {kind: kAlphabet, args: func(p *prep) []any { return []any{nodeBlob(p.node1.PublicKey().Bytes(), 2)} }, unauth: func(p *prep) [][]any {
		// the candidate that is there already, byte for byte
		return [][]any{{nodeBlob(p.node0.PublicKey().Bytes(), 1)}}
	}},
	"netmap.deleteNode/1":     {kind: kAlphabet, args: func(p *prep) []any { return []any{p.node0.PublicKey().Bytes()} }},
	"netmap.lastEpochBlock/0": {kind: kNone, noEffect: true, args: func(p *prep) []any { return nil }},
	"netmap.newEpoch/1":       {kind: kAlphabet, args: func(p *prep) []any { return []any{p.epoch + 1} }},
	"netmap.setConfig/3":      {kind: kAlphabet, args: func(p *prep) []any { return []any{[]byte("id"), []byte("SomeKey"), []byte("v")} }},
	"netmap.subscribeForNewEpoch/1": {kind: kAlphabet, args: func(p *prep) []any { return []any{p.probe} }, via: func(p *prep) (util.Uint160, string, []any) {
		// the contract to be subscribed asks for it itself (seeded change C03-9: "a contract may register itself")
		return p.probe, "subscribe", []any{p.w.H("netmap")}
	}},
	"netmap.update/3":              updateSpec("netmap", kMajority),
	"netmap.updateSnapshotCount/1": {kind: kAlphabet, args: func(p *prep) []any { return []any{int64(5)} }},
	"netmap.updateState/2": {kind: kKeyAlphabet, key: func(p *prep) *keys.PrivateKey { return p.node0 }, args: func(p *prep) []any {
		return []any{int64(3), p.node0.PublicKey().Bytes()}
	}},
	"netmap.updateStateIR/2": {kind: kAlphabet, args: func(p *prep) []any { return []any{int64(3), p.node0.PublicKey().Bytes()} }},
	// ---- nns
	// lapsed.com: registered by u1 with the appointed admin of own.com as its admin, expired, registered anew by an
	// account that signs nothing here: neither u1 nor that admin has any say in it now (seeded change C03-12: the admin
	// of an expired registration carried over into the next one)
	"nns.addRecord/3": {kind: kKey, alt: adminAlone, key: func(p *prep) *keys.PrivateKey { return p.u0k }, args: func(p *prep) []any { return []any{"own.com", int64(16), "second"} }, never: func(p *prep) [][]any {
		return [][]any{{"lapsed.com", int64(16), "by a former party"}}
	}},
	"nns.deleteRecords/2": {kind: kKey, alt: adminAlone, key: func(p *prep) *keys.PrivateKey { return p.u0k }, args: func(p *prep) []any { return []any{"own.com", int64(16)} }, never: func(p *prep) [][]any {
		return [][]any{{"lapsed.com", int64(16)}}
	}},
	"nns.register/7": {kind: kKey, key: func(p *prep) *keys.PrivateKey { return p.u1k }, args: func(p *prep) []any {
		return []any{"fresh.com", p.u1.ScriptHash(), "a@b.c", int64(1), int64(1), int64(1000), int64(1)}
	}, never: func(p *prep) [][]any {
		// a fourth-level name below deep.uone.com (owner u0) for u1, who owns the second-level uone.com: that takes u0's
		// witness as well, which none of the signer sets of this row carries together with u1's (seeded change C03-10: the
		// second-level owner asked instead of the owner of the directly enclosing name)
		return [][]any{{"x.deep.uone.com", p.u1.ScriptHash(), "a@b.c", int64(1), int64(1), int64(1000), int64(1)}}
	}},
	"nns.registerTLD/6": {kind: kMajority, args: func(p *prep) []any { return []any{"org", "a@b.c", int64(1), int64(1), int64(1000), int64(1)} }},
	"nns.renew/2":       {kind: kKey, key: func(p *prep) *keys.PrivateKey { return p.u0k }, args: func(p *prep) []any { return []any{"own.com", int64(1)} }},
	"nns.renew/1": {kind: kKey, key: func(p *prep) *keys.PrivateKey { return p.u0k }, args: func(p *prep) []any { return []any{"own.com"} }, never: func(p *prep) [][]any {
		return [][]any{{"lapsed.com"}}
	}},
	"nns.setAdmin/2": {kind: kOwnerAdmin, key: func(p *prep) *keys.PrivateKey { return p.u0k }, key2: func(p *prep) *keys.PrivateKey { return p.u1k }, args: func(p *prep) []any {
		return []any{"own.com", p.u1.ScriptHash()}
	}},
	"nns.setPrice/1":  {kind: kMajority, args: func(p *prep) []any { return []any{int64(12345)} }},
	"nns.setRecord/4": {kind: kKey, alt: adminAlone, key: func(p *prep) *keys.PrivateKey { return p.u0k }, args: func(p *prep) []any { return []any{"own.com", int64(16), int64(0), "changed"} }},
	"nns.transfer/3": {kind: kKey, falseOnRefusal: true, extra: adminInsufficient, key: func(p *prep) *keys.PrivateKey { return p.u0k }, args: func(p *prep) []any {
		return []any{p.u1.ScriptHash(), "own.com", nil}
	}, unauth: func(p *prep) [][]any {
		// to the present owner itself: nothing would change hands, it still takes the owner to say so (seeded change C03-8)
		return [][]any{{p.u0.ScriptHash(), "own.com", nil}, {p.u0.ScriptHash(), "own.com", []byte("data")}}
	}},
	"nns.update/3": updateSpec("nns", kMajority),
	"nns.updateSOA/6": {kind: kKey, key: func(p *prep) *keys.PrivateKey { return p.u0k }, args: func(p *prep) []any {
		return []any{"own.com", "n@b.c", int64(2), int64(2), int64(2000), int64(2)}
	}},
	// ---- processing / proxy
	"processing.onNEP17Payment/3": {kind: kGasCaller},
	"processing.update/3":         updateSpec("processing", kRoleMajority),
	"proxy.onNEP17Payment/3":      {kind: kGasCaller},
	"proxy.update/3":              updateSpec("proxy", kMajority),
	// ---- reputation
	"reputation.put/3":     {kind: kAlphabet, args: func(p *prep) []any { return []any{int64(3), []byte("peer"), []byte("value")} }},
	"reputation.update/3":  updateSpec("reputation", kMajority),
	"reputation.version/0": {kind: kNone, noEffect: true, args: func(p *prep) []any { return nil }},
}

type signerSet struct {
	label      string
	signers    []world.SignerSpec
	sufficient bool
}

// signer sets preceded by a role re-designation in the previous block; they run last, in the order given
const (
	lblDismissed  = "inner-ring-majority-dismissed-in-the-previous-block"
	lblDesignated = "inner-ring-majority-designated-in-the-previous-block"
)

func g(s neotest.Signer) world.SignerSpec { return world.G(s) }

func single(kp *keys.PrivateKey) world.SignerSpec { return world.G(world.Single(kp)) }

// signerSets: the sets of baseSets plus, for every sufficient set, the same keys signing with a scope that does not
// reach the call: each signer in turn with scope None (what a pure fee payer has) while the others stay Global, and all
// of them restricted to an address that is not the contract. A signature that is there but does not cover the call is no
// witness (seeded changes C07-11 and C11-11: "is among the transaction's signers" asked instead of CheckWitness).
func (p *prep) signerSets(s spec) []signerSet {
	sets := p.baseSets(s)
	var extra []signerSet
	for _, ss := range sets {
		if !ss.sufficient || len(ss.signers) == 0 || p.pre[ss.label] != nil {
			continue
		}
		for i := range ss.signers {
			v := append([]world.SignerSpec{}, ss.signers...)
			v[i] = world.Scoped(v[i].S, transaction.None)
			extra = append(extra, signerSet{fmt.Sprintf("%s/signer-%d-with-scope-None", ss.label, i), v, false})
			// ... and the same as the transaction's sender, which is where a signer that only pays the fees stands
			v = append([]world.SignerSpec{}, v...)
			v[i].Sends = true
			extra = append(extra, signerSet{fmt.Sprintf("%s/signer-%d-sends-with-scope-None", ss.label, i), v, false})
		}
		v := make([]world.SignerSpec, len(ss.signers))
		for i := range ss.signers {
			v[i] = world.Scoped(ss.signers[i].S, transaction.CustomContracts, p.stranger.ScriptHash())
		}
		extra = append(extra, signerSet{ss.label + "/scoped-to-another-address", v, false})
	}
	for i, ss := range sets {
		if ss.sufficient {
			return append(append(append([]signerSet{}, sets[:i]...), extra...), sets[i:]...)
		}
	}
	return append(sets, extra...)
}

// baseSets expands a requirement kind into the signer sets of the quantifier; the sufficient one comes last.
func (p *prep) baseSets(s spec) []signerSet {
	w := p.w
	majIsAlpha := w.Majority.ScriptHash() == w.Alphabet.ScriptHash()
	nobody := signerSet{"nobody", nil, false}
	stranger := signerSet{"stranger", []world.SignerSpec{g(p.stranger)}, false}
	member := signerSet{"single-member", []world.SignerSpec{g(w.Members[0])}, false}
	alpha := signerSet{"alphabet", []world.SignerSpec{g(w.Alphabet)}, false}
	maj := signerSet{"majority", []world.SignerSpec{g(w.Majority)}, false}
	// on committees of even size: half of the committee, the largest coalition that is not a majority
	var half []signerSet
	if p.n%2 == 0 {
		half = []signerSet{{"half-committee", []world.SignerSpec{g(world.Multi(w.Privs, p.n/2))}, false}}
	}
	switch s.kind {
	case kAlphabet:
		maj.sufficient = majIsAlpha
		alpha.sufficient = true
		return append(half, nobody, stranger, member, maj, alpha)
	case kMajority:
		alpha.sufficient = majIsAlpha
		maj.sufficient = true
		return append(half, nobody, stranger, member, alpha, maj)
	case kKey:
		key := s.key(p)
		other := p.u1k
		if other.PublicKey().Cmp(key.PublicKey()) == 0 {
			other = p.u0k
		}
		return []signerSet{nobody, stranger, {"another-key", []world.SignerSpec{single(other)}, false}, alpha, maj,
			{"named-key", []world.SignerSpec{single(key)}, true}}
	case kKeyAlphabet:
		key := s.key(p)
		other := p.u1k
		return []signerSet{nobody, {"named-key-without-alphabet", []world.SignerSpec{single(key)}, false}, {"alphabet-without-named-key", []world.SignerSpec{g(w.Alphabet)}, false},
			{"another-key+alphabet", []world.SignerSpec{single(other), g(w.Alphabet)}, false},
			{"named-key+majority", []world.SignerSpec{single(key), g(w.Majority)}, majIsAlpha},
			{"named-key+single-member", []world.SignerSpec{single(key), g(w.Members[0])}, false},
			{"named-key+alphabet", []world.SignerSpec{single(key), g(w.Alphabet)}, true}}
	case kOwnerAdmin:
		owner, adm := s.key(p), s.key2(p)
		return []signerSet{nobody, stranger, {"owner-without-new-admin", []world.SignerSpec{single(owner)}, false}, {"new-admin-without-owner", []world.SignerSpec{single(adm)}, false},
			{"new-admin+majority", []world.SignerSpec{single(adm), g(w.Majority)}, false},
			{"current-admin-without-owner", []world.SignerSpec{single(p.admk)}, false},
			{"current-admin+new-admin", []world.SignerSpec{single(p.admk), single(adm)}, false},
			{"owner+new-admin", []world.SignerSpec{single(owner), single(adm)}, true}}
	case kNode:
		sets := []signerSet{nobody, stranger, alpha, maj}
		if p.n > 1 {
			sets = append(sets, signerSet{"another-alphabet-node", []world.SignerSpec{g(w.Members[1])}, false})
		}
		return append(sets, signerSet{"own-alphabet-node", []world.SignerSpec{g(w.Members[0])}, true})
	case kRoleMajority:
		// the role is re-designated in the block before each of the last two requests: the dismissed
		// majority has lost the right already, the one designated a block ago holds it already
		ir2, ir3 := p.roleKeys("c03-ir2", 4), p.roleKeys("c03-ir3", 4)
		p.pre = map[string]func() error{
			lblDismissed:  func() error { return w.DesignateIR(world.Pubs(ir2)) },
			lblDesignated: func() error { return w.DesignateIR(world.Pubs(ir3)) },
		}
		return []signerSet{nobody, stranger, member, maj, alpha, {"one-inner-ring-key", []world.SignerSpec{single(p.ir[0])}, false},
			{"inner-ring-majority", []world.SignerSpec{g(p.irMajority)}, true},
			{lblDismissed, []world.SignerSpec{g(p.irMajority)}, false},
			{lblDesignated, []world.SignerSpec{g(world.Multi(ir3, 3))}, true}}
	case kKeyOrStored:
		key := s.key(p)
		// stored Alphabet list of the NeoFS contract = the committee keys here, so its 2/3+1 account is the chain Alphabet account
		return []signerSet{nobody, stranger, member, {"another-key", []world.SignerSpec{single(p.cand0)}, false},
			{"majority", []world.SignerSpec{g(w.Majority)}, majIsAlpha},
			{"named-key", []world.SignerSpec{single(key)}, true}}
	case kStoredNode, kKeyOrNode:
		// the contract keeps its own Alphabet list (= the committee keys here); a vote needs the witness of one
		// of those single keys: no multi-signature account, no other key
		sets := []signerSet{nobody, stranger, {"another-key", []world.SignerSpec{single(p.cand0)}, false}, maj, alpha}
		if s.kind == kKeyOrNode {
			return append(sets, signerSet{"stored-alphabet-node", []world.SignerSpec{g(w.Members[0])}, true}, signerSet{"named-key", []world.SignerSpec{single(s.key(p))}, true})
		}
		return append(sets, signerSet{"stored-alphabet-node", []world.SignerSpec{g(w.Members[0])}, true})
	case kNone:
		return []signerSet{{"nobody", nil, true}}
	}
	return nil
}

func tokenMoves(w *world.World, r *world.TxResult) int {
	n := 0
	for _, ev := range r.Events {
		if (ev.Contract == w.GAS || ev.Contract == w.NEO) && ev.Name == "Transfer" {
			n++
		}
	}
	return n
}

func isFalse(r *world.TxResult) bool {
	return r.Halted() && len(r.Stack) == 1 && !world.IsNull(r.Stack[0]) && !world.Bool(r.Stack[0])
}

// runMethod runs one row group: every signer set on a freshly prepared world.
func runMethod(b *runner.Batch, n int, art, method string, arity int, s spec) {
	key := fmt.Sprintf("%s.%s/%d", art, method, arity)
	p := newPrep(b, n)
	if p == nil {
		return
	}
	defer p.w.Close()
	h := p.instance(art)
	if s.kind == kGasCaller {
		runGasCaller(b, p, art, h, key)
		return
	}
	sets := p.signerSets(s)
	if s.extra != nil {
		sets = append(sets, s.extra(p)...)
	}
	if s.never != nil {
		nsets := sets
		if strings.HasPrefix(key, "nns.") {
			// the appointed admin of own.com (and former admin of lapsed.com) is one more party without a say
			nsets = append(append([]signerSet{}, sets...), adminAlone(p)...)
		}
		for ai, args := range s.never(p) {
			for _, ss := range nsets {
				r := p.w.Invoke(ss.signers, h, method, args...)
				b.Tx(1)
				if !(r.Rejected != "" || r.Faulted() || (r.Halted() && r.Diff.Empty() && len(r.Events) == 0 && tokenMoves(p.w, r) == 0)) {
					b.Violation(fmt.Sprintf("%s with argument list #%d (an argument list nobody in this row is entitled to) under signer set '%s' changed state, moved tokens or notified", key, ai, ss.label),
						map[string]any{"method": key, "signers": ss.label, "committee": n, "tx": p.w.RenderResult(r, true)})
				}
				b.Eval(fmt.Sprintf("%s|never%d|%s|%s|n%d", key, ai, ss.label, r.State, n), true)
			}
		}
		b.Hit("null-party-argument-lists")
	}
	if s.unauth != nil {
		for ai, args := range s.unauth(p) {
			for _, ss := range sets {
				if ss.sufficient || p.pre[ss.label] != nil {
					continue
				}
				r := p.w.Invoke(ss.signers, h, method, args...)
				b.Tx(1)
				if !(r.Rejected != "" || r.Faulted() || (r.Halted() && r.Diff.Empty() && len(r.Events) == 0 && tokenMoves(p.w, r) == 0 && !(s.falseOnRefusal && !isFalse(r)))) {
					b.Violation(fmt.Sprintf("%s with further argument list #%d under the insufficient signer set '%s' changed state, moved tokens, notified or reported success", key, ai, ss.label),
						map[string]any{"method": key, "signers": ss.label, "committee": n, "tx": p.w.RenderResult(r, true)})
				}
				b.Eval(fmt.Sprintf("%s|unauth%d|%s|%s|n%d", key, ai, ss.label, r.State, n), true)
			}
		}
		b.Hit("further-argument-lists-under-insufficient-sets")
	}
	if s.via != nil {
		tgt, m, args := s.via(p)
		for _, ss := range sets {
			if ss.sufficient || p.pre[ss.label] != nil {
				continue
			}
			r := p.w.Invoke(ss.signers, tgt, m, args...)
			b.Tx(1)
			if !(r.Rejected != "" || r.Faulted() || (r.Halted() && r.Diff.Empty() && len(r.Events) == 0 && tokenMoves(p.w, r) == 0)) {
				b.Violation(fmt.Sprintf("%s asked for from inside the contract it is about, under the insufficient signer set '%s', changed state, moved tokens or notified", key, ss.label),
					map[string]any{"method": key, "signers": ss.label, "committee": n, "tx": p.w.RenderResult(r, true)})
			}
			b.Eval(fmt.Sprintf("%s|via-contract|%s|%s|n%d", key, ss.label, r.State, n), true)
		}
		b.Hit("request-relayed-by-the-contract-it-is-about")
	}
	// insufficient sets first (they must leave the prepared state untouched), sufficient ones last
	rank := func(x signerSet) int {
		switch {
		case p.pre[x.label] != nil:
			return 2
		case x.sufficient:
			return 1
		}
		return 0
	}
	sort.SliceStable(sets, func(i, j int) bool { return rank(sets[i]) < rank(sets[j]) })
	doneSufficient := false
	for _, ss := range sets {
		if ss.sufficient && doneSufficient && s.gateFault == "" {
			continue // the prepared state is consumed by the first sufficient call
		}
		if pre := p.pre[ss.label]; pre != nil {
			if err := pre(); err != nil {
				b.Inconclusive("step before signer set '" + ss.label + "': " + err.Error())
				return
			}
			b.Tx(1)
		}
		args := s.args(p)
		r := p.w.Invoke(ss.signers, h, method, args...)
		b.Tx(1)
		det := func() any {
			return map[string]any{"method": key, "requirement": s.kind, "signers": ss.label, "committee": n, "tx": p.w.RenderResult(r, true)}
		}
		effect := r.Halted() && (!r.Diff.Empty() || len(r.Events) > 0)
		inert := r.Rejected != "" || r.Faulted() || (r.Halted() && r.Diff.Empty() && len(r.Events) == 0 && tokenMoves(p.w, r) == 0)
		out := "inert"
		switch {
		case effect:
			out = "effect"
		case r.Halted():
			out = "halt-no-effect"
		}
		if !ss.sufficient {
			if !inert {
				b.Violation(fmt.Sprintf("%s under signer set '%s' (requires %s) changed state, moved tokens or notified", key, ss.label, s.kind), det())
			}
			if s.falseOnRefusal && r.Halted() && !isFalse(r) {
				b.Violation(fmt.Sprintf("%s under signer set '%s' did not report false", key, ss.label), det())
			}
			if s.gateFault != "" && strings.Contains(r.Fault, s.gateFault) {
				// the witness check precedes the version check in every update: reaching the latter means the gate was passed
				b.Violation(fmt.Sprintf("%s under signer set '%s' (requires %s) passed the witness gate and was stopped only by the version check", key, ss.label, s.kind), det())
			}
			b.Hit("insufficient:" + ss.label)
			if strings.Contains(ss.label, "-with-scope-None") || strings.Contains(ss.label, "/scoped-to-another-address") {
				if r.Rejected != "" {
					b.Hit("scoped-away-set-rejected-by-the-ledger")
				} else {
					b.Hit("scoped-away-set-executed")
				}
			}
		} else {
			doneSufficient = true
			switch {
			case s.gateFault != "":
				// update to the same version: the witness gate is passed iff the version check is reached
				if r.Halted() || !strings.Contains(r.Fault, s.gateFault) {
					b.Violation(fmt.Sprintf("%s with its required witnesses (%s) did not pass the witness gate: %s %s", key, ss.label, r.State, r.Fault), det())
				}
				if !r.Diff.Empty() {
					b.Violation(fmt.Sprintf("%s refused for the version but changed storage", key), det())
				}
			case !r.Halted():
				b.Violation(fmt.Sprintf("%s with exactly its required witnesses (%s, %s) failed: %s", key, s.kind, ss.label, r.Fault), det())
			case s.falseOnRefusal && isFalse(r):
				b.Violation(fmt.Sprintf("%s with its required witnesses reported false", key), det())
			case !s.noEffect && !effect:
				b.Violation(fmt.Sprintf("%s with its required witnesses succeeded without any effect", key), det())
			}
			b.Hit("sufficient:" + s.kind)
		}
		b.Eval(fmt.Sprintf("%s|%s|%s|n%d", key, ss.label, out, n), true)
		b.Hit("method:" + key)
	}
	b.State(fmt.Sprintf("%s|n%d", key, n))
	if s.alt == nil {
		return
	}
	for _, ss := range s.alt(p) {
		p2 := newPrep(b, n)
		if p2 == nil {
			return
		}
		r := p2.w.Invoke(ss.signers, p2.instance(art), method, s.args(p2)...)
		b.Tx(1)
		if !r.Halted() || (!s.noEffect && r.Diff.Empty() && len(r.Events) == 0) {
			b.Violation(fmt.Sprintf("%s with the documented alternative witness (%s) failed or had no effect: %s %s", key, ss.label, r.State, r.Fault),
				map[string]any{"method": key, "signers": ss.label, "committee": n, "tx": p2.w.RenderResult(r, true)})
		}
		b.Hit("sufficient-alternative:" + ss.label)
		b.Eval(fmt.Sprintf("%s|%s|%s|n%d", key, ss.label, r.State, n), true)
		p2.w.Close()
	}
}

// runGasCaller: onNEP17Payment is inert when called directly by anybody; it takes effect through a native GAS transfer.
func runGasCaller(b *runner.Batch, p *prep, art string, h util.Uint160, key string) {
	w := p.w
	for _, ss := range []signerSet{{"nobody", nil, false}, {"stranger", []world.SignerSpec{g(p.stranger)}, false}, {"single-member", []world.SignerSpec{g(w.Members[0])}, false},
		{"majority", []world.SignerSpec{g(w.Majority)}, false}, {"alphabet", []world.SignerSpec{g(w.Alphabet)}, false}} {
		r := w.Invoke(ss.signers, h, "onNEP17Payment", p.u0.ScriptHash(), int64(1_0000_0000), nil)
		b.Tx(1)
		if !(r.Faulted() || r.Rejected != "") {
			b.Violation(fmt.Sprintf("%s called directly under signer set '%s' was not refused", key, ss.label), map[string]any{"tx": w.RenderResult(r, true)})
		}
		b.Eval(fmt.Sprintf("%s|direct|%s|%s", key, ss.label, r.State), true)
		b.Hit("insufficient:" + ss.label)
	}
	r := w.Invoke([]world.SignerSpec{g(p.u0)}, w.GAS, "transfer", p.u0.ScriptHash(), h, int64(1_0000_0000), nil)
	b.Tx(1)
	if !r.Halted() || tokenMoves(w, r) == 0 {
		b.Violation(fmt.Sprintf("%s: a native GAS transfer to the contract failed: %s", key, r.Fault), map[string]any{"tx": w.RenderResult(r, true)})
	}
	b.Eval(fmt.Sprintf("%s|via-GAS|%s", key, r.State), true)
	b.Hit("sufficient:" + kGasCaller)
	b.Hit("method:" + key)
}

// ---- safe methods and verify

var safeArgs = map[string]func(p *prep) []any{
	"audit.get/1":                          func(p *prep) []any { return []any{[]byte("nothing")} },
	"audit.listByCID/2":                    func(p *prep) []any { return []any{int64(1), p.cid} },
	"audit.listByEpoch/1":                  func(p *prep) []any { return []any{int64(1)} },
	"audit.listByNode/3":                   func(p *prep) []any { return []any{int64(1), p.cid, p.ir[0].PublicKey().Bytes()} },
	"balance.balanceOf/1":                  func(p *prep) []any { return []any{p.u0.ScriptHash()} },
	"container.alias/1":                    func(p *prep) []any { return []any{p.cid} },
	"container.containersOf/1":             func(p *prep) []any { return []any{p.ownerID} },
	"container.eACL/1":                     func(p *prep) []any { return []any{p.cid} },
	"container.get/1":                      func(p *prep) []any { return []any{p.cid} },
	"container.getContainerSize/1":         func(p *prep) []any { return []any{append([]byte("cnr\x02"), p.cid...)} },
	"container.iterateAllContainerSizes/1": func(p *prep) []any { return []any{int64(2)} },
	"container.iterateContainerSizes/2":    func(p *prep) []any { return []any{int64(2), p.cid} },
	"container.list/1":                     func(p *prep) []any { return []any{p.ownerID} },
	"container.listContainerSizes/1":       func(p *prep) []any { return []any{int64(2)} },
	"container.nodes/2":                    func(p *prep) []any { return []any{p.cid, int64(0)} },
	"container.owner/1":                    func(p *prep) []any { return []any{p.cid} },
	"container.replicasNumbers/1":          func(p *prep) []any { return []any{p.cid} },
	"container.verifyPlacementSignatures/3": func(p *prep) []any {
		m, s := p.metaInfo()
		return []any{p.cid, m, s}
	},
	"neofs.config/1":           func(p *prep) []any { return []any{[]byte("WithdrawFee")} },
	"neofsid.key/1":            func(p *prep) []any { return []any{p.ownerID} },
	"netmap.config/1":          func(p *prep) []any { return []any{[]byte("ContainerFee")} },
	"netmap.listNodes/1":       func(p *prep) []any { return []any{int64(2)} },
	"netmap.snapshot/1":        func(p *prep) []any { return []any{int64(1)} },
	"netmap.snapshotByEpoch/1": func(p *prep) []any { return []any{int64(1)} },
	"nns.balanceOf/1":          func(p *prep) []any { return []any{p.u0.ScriptHash()} },
	"nns.getAllRecords/1":      func(p *prep) []any { return []any{"own.com"} },
	"nns.getRecords/2":         func(p *prep) []any { return []any{"own.com", int64(16)} },
	"nns.isAvailable/1":        func(p *prep) []any { return []any{"own.com"} },
	"nns.ownerOf/1":            func(p *prep) []any { return []any{"own.com"} },
	"nns.properties/1":         func(p *prep) []any { return []any{"own.com"} },
	"nns.resolve/2":            func(p *prep) []any { return []any{"own.com", int64(16)} },
	"nns.tokensOf/1":           func(p *prep) []any { return []any{p.u0.ScriptHash()} },
	"reputation.get/2":         func(p *prep) []any { return []any{int64(1), []byte("peer")} },
	"reputation.getByID/1":     func(p *prep) []any { return []any{[]byte("\x01peer")} },
	"reputation.listByEpoch/1": func(p *prep) []any { return []any{int64(1)} },
}

type mdesc struct {
	art, name string
	arity     int
	safe      bool
}

func manifestMethods(b *runner.Batch) []mdesc {
	var res []mdesc
	for _, art := range world.ContractNames {
		a := b.Set[art]
		if a == nil {
			continue
		}
		for _, m := range a.Manifest.ABI.Methods {
			if strings.HasPrefix(m.Name, "_") {
				continue
			}
			res = append(res, mdesc{art, m.Name, len(m.Parameters), m.Safe})
		}
	}
	sort.Slice(res, func(i, j int) bool {
		a, c := res[i], res[j]
		return fmt.Sprint(a.art, a.name, a.arity) < fmt.Sprint(c.art, c.name, c.arity)
	})
	return res
}

func runSafe(b *runner.Batch, n int) {
	p := newPrep(b, n)
	if p == nil {
		return
	}
	defer p.w.Close()
	for _, m := range manifestMethods(b) {
		if !m.safe || m.name == "verify" {
			continue
		}
		key := fmt.Sprintf("%s.%s/%d", m.art, m.name, m.arity)
		var args []any
		if m.arity > 0 {
			f := safeArgs[key]
			if f == nil {
				b.Inconclusive("no argument builder for the safe method " + key)
				continue
			}
			args = f(p)
		}
		r := p.w.Invoke([]world.SignerSpec{g(p.w.Alphabet), g(p.w.Majority)}, p.instance(m.art), m.name, args...)
		b.Tx(1)
		if !r.Diff.Empty() || len(r.Events) > 0 {
			b.Violation(fmt.Sprintf("safe method %s changed storage or notified inside a fully witnessed transaction", key), map[string]any{"tx": p.w.RenderResult(r, true)})
		}
		if r.Halted() {
			b.Hit("safe-method-halted")
		}
		b.Eval(fmt.Sprintf("safe|%s|%s|n%d", key, r.State, n), true)
		b.Hit("safe:" + key)
	}
}

// runVerify: the verify methods of Proxy / Alphabet / Processing, invoked directly and used as a contract witness.
func runVerify(b *runner.Batch, n int) {
	p := newPrep(b, n)
	if p == nil {
		return
	}
	defer p.w.Close()
	w := p.w
	majIsAlpha := w.Majority.ScriptHash() == w.Alphabet.ScriptHash()
	for _, c := range []struct {
		art         string
		majorityToo bool
	}{{"proxy", true}, {"alphabet", true}, {"processing", false}} {
		h := p.instance(c.art)
		w.FundGAS(h, 50_0000_0000) // as a transaction signer the contract may be asked for fees; keep it solvent
		for _, ss := range []struct {
			label   string
			signers []world.SignerSpec
			ok      bool
		}{
			{"nobody", nil, false},
			{"stranger", []world.SignerSpec{g(p.stranger)}, false},
			{"single-member", []world.SignerSpec{g(w.Members[0])}, false},
			{"majority", []world.SignerSpec{g(w.Majority)}, c.majorityToo || majIsAlpha},
			{"alphabet", []world.SignerSpec{g(w.Alphabet)}, true},
		} {
			// (a) direct read-only invocation
			rd := w.ReadWith(world.ReadOpts{Signers: ss.signers}, h, "verify")
			b.Read(1)
			got := rd.OK() && world.Bool(rd.Top())
			if got != ss.ok {
				b.Violation(fmt.Sprintf("%s.verify under signer set '%s' returned %v (%s), expected %v", c.art, ss.label, got, rd.Err, ss.ok), nil)
			}
			// (b) the contract as a transaction signer: the block must refuse the transaction unless verify accepts
			all := append([]world.SignerSpec{{S: w.Payer, Scope: transaction.None}}, ss.signers...)
			all = append(all, world.SignerSpec{Contract: h, Scope: transaction.None})
			r := w.InvokeAs(all, w.GAS, "balanceOf", h)
			b.Tx(1)
			accepted := r.Rejected == ""
			if accepted != ss.ok {
				b.Violation(fmt.Sprintf("a transaction carrying %s as signer under '%s' was %s", c.art, ss.label, map[bool]string{true: "accepted", false: "rejected (" + r.Rejected + ")"}[accepted]), nil)
			}
			b.Eval(fmt.Sprintf("verify|%s|%s|%v|n%d", c.art, ss.label, accepted, n), true)
			if ss.ok {
				b.Hit("verify-accepts:" + c.art)
			} else {
				b.Hit("verify-refuses:" + c.art)
			}
		}
	}
}

// ---- batches: one per (committee size, method) + safe + verify per size

func sizes(tier string) []int {
	if tier == "thorough" {
		return []int{3, 1, 4, 7, 6}
	}
	return []int{3, 1, 4}
}

func runC03(b *runner.Batch) {
	ms := manifestMethods(b)
	var unsafe []mdesc
	for _, m := range ms {
		if !m.safe {
			unsafe = append(unsafe, m)
		}
	}
	for _, m := range ms {
		if m.art == "neofs" {
			if _, ok := table[fmt.Sprintf("neofs-nonotary.%s/%d", m.name, m.arity)]; ok {
				unsafe = append(unsafe, mdesc{"neofs-nonotary", m.name, m.arity, false})
			}
		}
	}
	sz := sizes(b.Tier)
	per := len(unsafe) + 2
	n := sz[(b.Index/per)%len(sz)]
	i := b.Index % per
	switch {
	case b.Index >= per*len(sz):
		return
	case i == len(unsafe):
		runSafe(b, n)
	case i == len(unsafe)+1:
		runVerify(b, n)
	default:
		m := unsafe[i]
		key := fmt.Sprintf("%s.%s/%d", m.art, m.name, m.arity)
		s, ok := table[key]
		if !ok {
			b.Inconclusive("method " + key + " is in a manifest but has no row in the witness table")
			return
		}
		runMethod(b, n, m.art, m.name, m.arity, s)
		if b.Index < 3 {
			b.Sample(map[string]any{"method": key, "requirement": s.kind, "committee": n})
		}
	}
}

func init() {
	runner.Register(&runner.Check{
		ID: "C03", Level: "exploration",
		Rule: "The method list is read from the manifests compiled from the working tree (non-safe callable methods of 11 contracts). Each method gets a freshly prepared world (all contracts deployed, live container with roster, candidates, names, deposits) and is executed under every signer set of its requirement kind {nobody, stranger, single committee member, Majority where the Alphabet is required and vice versa, the named key without the Alphabet, the Alphabet without the named key, another key, the appointed admin of the name without its owner, the Inner Ring majority dismissed by a re-designation in the previous block, ...}, insufficient sets first, the sufficient one last, on committees of 3, 1 and 4 (quick) / 3, 1, 4, 7 and 6 (thorough); on even sizes half of the committee (n/2 of n) is a further insufficient set. Every sufficient set is also run with scopes that do not reach the call (each signer in turn with scope None, also standing as the transaction's sender; all signers restricted to another address): insufficient. Methods that name an object get further argument lists naming objects that exist already (registered containers with and without meta-on-chain, the stored candidate, the existing lock account) under the insufficient sets. Documented alternative witnesses (the appointed admin for NNS record methods, the Inner Ring majority designated in the previous block) are run as further sufficient sets; an insufficient set that reaches an update's version check counts as having passed the witness gate. Classification per transaction: effect (HALT with storage diff or notification) / inert (FAULT, rejected, or HALT without diff, notification or native token transfer). Safe methods are called inside a fully witnessed transaction; verify methods are invoked directly and used as contract witnesses of real transactions. distinct = (method, signer set, outcome, committee size).",
		Assumptions: []string{"neo-go v0.107.0 VM, ledger and native contracts are the trusted base", "contracts are compiled at check time from /repo/contracts",
			"update with sufficient witnesses is judged by reaching the version check (same-version fault); the successful upgrade itself is exercised by C16", "a method without a row in the table makes the run inconclusive"},
		Batches: func(tier string) int { return 110 * len(sizes(tier)) }, // room for methods added to a manifest
		Helpers: []string{"probe"},
		Chunk:   4,
		Floors: []string{"sufficient:" + kAlphabet, "sufficient:" + kMajority, "sufficient:" + kKey, "sufficient:" + kKeyAlphabet, "sufficient:" + kOwnerAdmin, "sufficient:" + kNode, "sufficient:" + kRoleMajority, "sufficient:" + kGasCaller, "sufficient:" + kNone, "sufficient:" + kKeyOrStored, "sufficient:" + kStoredNode, "sufficient:" + kKeyOrNode,
			"insufficient:nobody", "insufficient:" + lblDismissed, "sufficient-alternative:appointed-admin", "insufficient:current-admin+new-admin", "insufficient:appointed-admin", "insufficient:single-member", "insufficient:majority", "insufficient:alphabet", "insufficient:named-key-without-alphabet", "insufficient:alphabet-without-named-key", "safe-method-halted", "verify-accepts:proxy", "verify-refuses:proxy", "verify-accepts:processing", "verify-refuses:processing", "verify-accepts:alphabet"},
		Run: runC03,
		Finish: func(m *runner.Merged, cov map[string]any) {
			n := 0
			for k := range m.Hits {
				if strings.HasPrefix(k, "method:") {
					n++
				}
			}
			cov["non_safe_methods_exercised"] = n
		},
	})
}
