// Package witness holds the monitor of C03: every non-safe method of every
// manifest is inert without its documented witnesses and takes effect with them.
package witness

import (
	"bytes"
	"crypto/sha256"
	"encoding/binary"
	"fmt"
	"strings"

	"github.com/nspcc-dev/neo-go/pkg/crypto/keys"
	"github.com/nspcc-dev/neo-go/pkg/neotest"
	"github.com/nspcc-dev/neo-go/pkg/smartcontract"
	"github.com/nspcc-dev/neo-go/pkg/util"
	"github.com/nspcc-dev/neo-go/pkg/vm/stackitem"

	"verif/harness/runner"
	"verif/harness/world"
)

// prep is a prepared world in which every method has valid arguments.
type prep struct {
	b  *runner.Batch
	w  *world.World
	n  int
	ir []*keys.PrivateKey

	u0, u1, stranger neotest.Signer
	u0k, u1k         *keys.PrivateKey
	admk             *keys.PrivateKey // appointed admin of own.com (not its owner)
	nonotary         util.Uint160     // a second NeoFS contract, deployed with Notary disabled
	pre              map[string]func() error
	node0, node1     *keys.PrivateKey // node0: candidate in both lists and in the previous map; node1: fresh
	cand0, cand1     *keys.PrivateKey // cand0: not yet a candidate; cand1: listed
	member           *keys.PrivateKey // placement roster member
	cid              []byte           // live container (meta enabled) of u0
	blobNew          []byte           // a container blob not yet registered
	blobOld          []byte           // the registered container p.cid (meta-on-chain switched on)
	blobPlain        []byte           // a second registered container, without meta-on-chain
	ownerID          []byte
	epoch            int64
	irMajority       neotest.Signer // N/2+1 of the NeoFSAlphabet role keys
	irAll            neotest.Signer // 2/3+1 of them
	probe            util.Uint160
	nefs             map[string][]byte
	mans             map[string][]byte
}

func ownerID(sh util.Uint160) []byte {
	b := append([]byte{0x35}, sh.BytesBE()...)
	return append(b, 9, 9, 9, 9)
}

func containerBlob(owner []byte, nonce byte) []byte {
	b := []byte{0x0a, 0x02, 1, 2, 0x12, 0x1b, 0x0a, 0x19}
	b = append(b, owner...)
	return append(b, 0x1a, nonce, 0x42)
}

func eaclBlob(cid []byte) []byte {
	b := []byte{0x0a, 0x00, 0x12, 0x22, 0x0a, 0x20}
	b = append(b, cid...)
	return append(b, 1, 2)
}

func nodeBlob(pub []byte, tag byte) []byte {
	return append(append([]byte{0x0a, 0x21}, pub...), tag, 0x01)
}

func node2(pub []byte, state int64) stackitem.Item {
	return stackitem.NewStruct([]stackitem.Item{
		stackitem.NewArray([]stackitem.Item{stackitem.Make("grpc://n:1")}),
		stackitem.NewMapWithValue([]stackitem.MapElement{{Key: stackitem.Make("Capacity"), Value: stackitem.Make("1")}}),
		stackitem.NewByteArray(pub), stackitem.Make(state)})
}

func auditBlob(epoch int64, cid, from []byte) []byte {
	b := []byte{0x0a, 0x00, 0x11}
	var e8 [8]byte
	binary.LittleEndian.PutUint64(e8[:], uint64(epoch))
	b = append(b, e8[:]...)
	b = append(b, 0x1a, byte(2+len(cid)), 0x0a, byte(len(cid)))
	b = append(b, cid...)
	b = append(b, 0x22, byte(len(from)))
	return append(append(b, from...), 7)
}

func must(b *runner.Batch, r *world.TxResult, what string) bool {
	if !r.Halted() {
		b.Inconclusive(fmt.Sprintf("preparation step %s failed: %s %s %s", what, r.Rejected, r.State, r.Fault))
		return false
	}
	return true
}

func newPrep(b *runner.Batch, n int) *prep { return newPrepWith(b, n, b.Set) }

// newPrepWith builds the prepared world from the given contract set.
func newPrepWith(b *runner.Batch, n int, set world.Set) *prep {
	w, err := world.New(world.Options{N: n, Seed: b.Seed, Batch: b.Index*1000 + n})
	if err != nil {
		b.Inconclusive("world: " + err.Error())
		return nil
	}
	w.SysFee = 150_0000_0000
	w.KeepHistory = false
	p := &prep{b: b, w: w, n: n}
	for i := 0; i < 3; i++ {
		p.ir = append(p.ir, world.Key(b.Seed, b.Index, "c03-ir", i))
	}
	sorted := append([]*keys.PrivateKey{}, p.ir...)
	// multi signers need sorted keys; world.Multi sorts internally through NewMultiSigner
	p.irMajority = world.Multi(sorted, smartcontract.GetMajorityHonestNodeCount(3))
	p.irAll = world.Multi(sorted, 3*2/3+1)
	cfg := []any{[]byte("ContainerFee"), int64(1), []byte("ContainerAliasFee"), int64(1)}
	if err := w.DeployFS(set, world.FSOptions{NetmapConfig: cfg, Alphabet: true, IR: world.Pubs(p.ir), ExtraTLDs: []string{"com"}}); err != nil {
		if strings.Contains(err.Error(), "alphabet witness check failed") {
			// the set-up calls carry exactly the documented requirement (the Alphabet's multi-signature)
			b.Violation("set-up refused although the transaction carries the Alphabet's multi-signature (2/3+1 of the committee): "+err.Error(), nil)
			w.Close()
			return nil
		}
		b.Inconclusive("deploy: " + err.Error())
		w.Close()
		return nil
	}
	var pubs []any
	for _, pk := range w.Pubs {
		pubs = append(pubs, pk.Bytes())
	}
	proc, err := w.Deploy("processing", set["processing"], []any{util.Uint160{1}})
	if err == nil {
		_, err = w.Deploy("neofs", set["neofs"], []any{false, proc.Hash, pubs, []any{[]byte("InnerRingCandidateFee"), int64(10), []byte("WithdrawFee"), int64(10)}})
	}
	if err == nil {
		// Processing.verify asks the NeoFS contract for the Alphabet address: redeploy Processing pointing to it
		delete(w.C, "processing")
		snd := world.Single(world.Key(b.Seed, b.Index, "c03-procdeployer", n))
		w.FundGAS(snd.ScriptHash(), 500_0000_0000)
		_, err = w.DeployFrom(snd, "processing", set["processing"], []any{w.H("neofs")})
	}
	if err == nil {
		var d *world.Deployed
		snd := world.Single(world.Key(b.Seed, b.Index, "c03-nonotarydeployer", n))
		w.FundGAS(snd.ScriptHash(), 500_0000_0000)
		d, err = w.DeployFrom(snd, "neofs-nonotary", set["neofs"], []any{true, w.H("processing"), pubs, []any{[]byte("InnerRingCandidateFee"), int64(10), []byte("WithdrawFee"), int64(10)}})
		if err == nil {
			p.nonotary = d.Hash
		}
	}
	if err != nil {
		b.Inconclusive("deploy main-chain contracts: " + err.Error())
		w.Close()
		return nil
	}
	p.u0k, p.u1k = world.Key(b.Seed, b.Index, "c03-user", 0), world.Key(b.Seed, b.Index, "c03-user", 1)
	p.u0, p.u1 = world.Single(p.u0k), world.Single(p.u1k)
	p.stranger = world.Single(world.Key(b.Seed, b.Index, "c03-stranger", 0))
	p.admk = world.Key(b.Seed, b.Index, "c03-admin", 0)
	p.node0, p.node1 = world.Key(b.Seed, b.Index, "c03-node", 0), world.Key(b.Seed, b.Index, "c03-node", 1)
	p.cand0, p.cand1 = world.Key(b.Seed, b.Index, "c03-cand", 0), world.Key(b.Seed, b.Index, "c03-cand", 1)
	p.member = world.Key(b.Seed, b.Index, "c03-member", 0)
	for _, k := range []*keys.PrivateKey{p.u0k, p.u1k, p.admk, p.cand0, p.cand1, p.node0, p.node1} {
		w.FundGAS(world.Hash160Of(k), 1000_0000_0000)
	}
	w.FundGAS(p.stranger.ScriptHash(), 1000_0000_0000)
	// the committee's accounts may stand as senders too
	for _, a := range []util.Uint160{w.Alphabet.ScriptHash(), w.Majority.ScriptHash(), w.Members[0].ScriptHash(), p.irMajority.ScriptHash()} {
		w.FundGAS(a, 1000_0000_0000)
	}
	w.FundNEO(p.u0.ScriptHash(), 100)
	A := w.Alpha()
	ok := must(b, w.Invoke(A, w.H("balance"), "mint", p.u0.ScriptHash(), int64(100000), []byte{1}), "mint") &&
		must(b, w.Invoke(A, w.H("balance"), "lock", []byte{7}, p.u0.ScriptHash(), util.Uint160{0xaa, 7}, int64(50), int64(3)), "lock until 3") &&
		must(b, w.Invoke(A, w.H("balance"), "mint", w.H("balance"), int64(300), []byte{2}), "mint to the contract's own address") &&
		must(b, w.Invoke(A, w.H("netmap"), "addPeerIR", nodeBlob(p.node0.PublicKey().Bytes(), 1)), "addPeerIR") &&
		must(b, w.Invoke([]world.SignerSpec{world.G(world.Single(p.node0)), world.G(w.Alphabet)}, w.H("netmap"), "addNode", node2(p.node0.PublicKey().Bytes(), 1)), "addNode") &&
		must(b, w.Invoke(A, w.H("netmap"), "newEpoch", int64(1)), "tick 1") &&
		must(b, w.Invoke(A, w.H("netmap"), "newEpoch", int64(2)), "tick 2")
	if !ok {
		w.Close()
		return nil
	}
	p.epoch = 2
	p.ownerID = ownerID(p.u0.ScriptHash())
	blob := containerBlob(p.ownerID, 1)
	h := sha256.Sum256(blob)
	p.cid = h[:]
	p.blobNew = containerBlob(p.ownerID, 2)
	p.blobOld, p.blobPlain = blob, containerBlob(p.ownerID, 3)
	sig := bytes.Repeat([]byte{1}, 64)
	ok = must(b, w.Invoke(A, w.H("container"), "put", blob, sig, p.u0k.PublicKey().Bytes(), []byte{}, true), "container put") &&
		must(b, w.Invoke(A, w.H("container"), "put", p.blobPlain, sig, p.u0k.PublicKey().Bytes(), []byte{}), "container put (no meta)") &&
		must(b, w.Invoke(A, w.H("container"), "addNextEpochNodes", p.cid, int64(0), []any{p.member.PublicKey().Bytes()}), "roster") &&
		must(b, w.Invoke(A, w.H("container"), "commitContainerListUpdate", p.cid, []any{int64(1)}), "commit") &&
		must(b, w.Invoke([]world.SignerSpec{world.G(p.u0)}, w.H("nns"), "register", "own.com", p.u0.ScriptHash(), "a@b.c", int64(1), int64(1), int64(100000), int64(1)), "nns register") &&
		must(b, w.Invoke([]world.SignerSpec{world.G(p.u0)}, w.H("nns"), "addRecord", "own.com", int64(16), "first"), "nns addRecord") &&
		// a second-level name of u1 with a third-level name below it that belongs to u0: whoever registers under the
		// latter needs u0, the owner of the directly enclosing name
		must(b, w.Invoke([]world.SignerSpec{world.G(p.u1)}, w.H("nns"), "register", "uone.com", p.u1.ScriptHash(), "a@b.c", int64(1), int64(1), int64(100000), int64(1)), "nns register (u1)") &&
		must(b, w.Invoke([]world.SignerSpec{world.G(p.u1), world.G(p.u0)}, w.H("nns"), "register", "deep.uone.com", p.u0.ScriptHash(), "a@b.c", int64(1), int64(1), int64(100000), int64(1)), "nns register (deep)") &&
		must(b, w.Invoke([]world.SignerSpec{world.G(p.u0), world.G(world.Single(p.admk))}, w.H("nns"), "setAdmin", "own.com", world.Hash160Of(p.admk)), "nns setAdmin") &&
		must(b, w.Invoke([]world.SignerSpec{world.G(p.u1)}, w.H("nns"), "register", "lapsed.com", p.u1.ScriptHash(), "a@b.c", int64(1), int64(1), int64(1000), int64(1)), "nns register (lapsed)") &&
		must(b, w.Invoke([]world.SignerSpec{world.G(p.u1), world.G(world.Single(p.admk))}, w.H("nns"), "setAdmin", "lapsed.com", world.Hash160Of(p.admk)), "nns setAdmin (lapsed)") &&
		must(b, w.Invoke([]world.SignerSpec{world.G(p.u1)}, w.H("nns"), "addRecord", "lapsed.com", int64(16), "first life"), "nns addRecord (lapsed)") &&
		must(b, w.Invoke([]world.SignerSpec{world.G(p.u0)}, w.GAS, "transfer", p.u0.ScriptHash(), w.H("neofs"), int64(100_0000_0000), nil), "deposit") &&
		must(b, w.Invoke([]world.SignerSpec{world.G(world.Single(p.cand1))}, w.H("neofs"), "innerRingCandidateAdd", p.cand1.PublicKey().Bytes()), "candidate add") &&
		must(b, w.Invoke([]world.SignerSpec{world.G(p.u0)}, w.GAS, "transfer", p.u0.ScriptHash(), w.H("alphabet0"), int64(1000), nil), "fund alphabet0") &&
		must(b, w.Invoke([]world.SignerSpec{world.G(p.u0)}, w.GAS, "transfer", p.u0.ScriptHash(), p.nonotary, int64(100_0000_0000), nil), "deposit (no notary)") &&
		must(b, w.Invoke([]world.SignerSpec{world.G(world.Single(p.cand1))}, p.nonotary, "innerRingCandidateAdd", p.cand1.PublicKey().Bytes()), "candidate add (no notary)")
	if !ok {
		w.Close()
		return nil
	}
	// lapsed.com expires (1000 s) and is registered anew by an account that signs nothing afterwards
	w.Now += 2000 * 1000
	newOwner := world.Single(world.Key(b.Seed, b.Index, "c03-newowner", 0))
	w.FundGAS(newOwner.ScriptHash(), 1000_0000_0000)
	if !must(b, w.Invoke([]world.SignerSpec{world.G(newOwner)}, w.H("nns"), "register", "lapsed.com", newOwner.ScriptHash(), "a@b.c", int64(1), int64(1), int64(100000), int64(1)), "nns register (lapsed, anew)") {
		w.Close()
		return nil
	}
	if pr := b.Helpers["probe"]; pr != nil {
		d, err := w.Deploy("probe", pr, int64(1))
		if err != nil {
			b.Inconclusive("deploy probe: " + err.Error())
			w.Close()
			return nil
		}
		p.probe = d.Hash
	}
	p.nefs, p.mans = map[string][]byte{}, map[string][]byte{}
	for name, a := range set {
		p.nefs[name], p.mans[name] = a.NEFBytes, a.ManBytes
	}
	return p
}

func (p *prep) roleKeys(role string, n int) []*keys.PrivateKey {
	var res []*keys.PrivateKey
	for i := 0; i < n; i++ {
		res = append(res, world.Key(p.b.Seed, p.b.Index, role, i))
	}
	return res
}

// contractName maps a manifest (artifact) name to the deployed instance used for it.
func (p *prep) instance(art string) util.Uint160 {
	if art == "alphabet" {
		return p.w.H("alphabet0")
	}
	if art == "neofs-nonotary" {
		return p.nonotary
	}
	return p.w.H(art)
}

func (p *prep) metaInfo() ([]byte, []any) {
	oid := sha256.Sum256([]byte("object"))
	mp := stackitem.NewMapWithValue([]stackitem.MapElement{
		{Key: stackitem.Make("cid"), Value: stackitem.NewByteArray(p.cid)},
		{Key: stackitem.Make("oid"), Value: stackitem.NewByteArray(oid[:])},
		{Key: stackitem.Make("size"), Value: stackitem.Make(int64(1))},
		{Key: stackitem.Make("validuntil"), Value: stackitem.Make(int64(p.w.Height()) + 1000)},
		{Key: stackitem.Make("network"), Value: stackitem.Make(int64(world.Magic))},
		{Key: stackitem.Make("deleted"), Value: stackitem.NewArray([]stackitem.Item{})},
		{Key: stackitem.Make("locked"), Value: stackitem.NewArray([]stackitem.Item{})},
	})
	data, _ := stackitem.Serialize(mp)
	return data, []any{[]any{p.member.Sign(data)}}
}
