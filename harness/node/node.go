// Package node is substrate B of DESIGN.md: a real in-process neo-go node
// (blockchain + network server + Notary service + RPC server with in-process
// clients) whose blocks are produced by the harness.
package node

import (
	"context"
	"encoding/hex"
	"fmt"
	"os"
	"path/filepath"
	"sync"
	"time"

	"github.com/nspcc-dev/neo-go/pkg/config"
	"github.com/nspcc-dev/neo-go/pkg/config/netmode"
	"github.com/nspcc-dev/neo-go/pkg/core"
	"github.com/nspcc-dev/neo-go/pkg/core/block"
	"github.com/nspcc-dev/neo-go/pkg/core/storage"
	"github.com/nspcc-dev/neo-go/pkg/core/transaction"
	"github.com/nspcc-dev/neo-go/pkg/crypto/hash"
	"github.com/nspcc-dev/neo-go/pkg/crypto/keys"
	"github.com/nspcc-dev/neo-go/pkg/io"
	"github.com/nspcc-dev/neo-go/pkg/network"
	"github.com/nspcc-dev/neo-go/pkg/rpcclient"
	"github.com/nspcc-dev/neo-go/pkg/services/notary"
	"github.com/nspcc-dev/neo-go/pkg/services/rpcsrv"
	"github.com/nspcc-dev/neo-go/pkg/smartcontract"
	"github.com/nspcc-dev/neo-go/pkg/vm/emit"
	"github.com/nspcc-dev/neo-go/pkg/wallet"
	"go.uber.org/zap"

	"verif/harness/world"
)

// Magic of the node's network.
const Magic = netmode.UnitTestNet

// Node is an in-process neo-go node.
type Node struct {
	Chain  *core.Blockchain
	Net    *network.Server
	RPC    *rpcsrv.Server
	Privs  []*keys.PrivateKey
	Pubs   keys.PublicKeys
	ValM   int
	ValScr []byte
	Dir    string

	mu       sync.Mutex
	shiftMS  int64 // added to the wall clock when a block is stamped (ShiftTime)
	Blocks   int
	TxCount  int
	stop     chan struct{}
	wg       sync.WaitGroup
	lastTS   uint64
	BlockErr error
}

// New starts a node with n committee members (all validators), derived deterministically.
func New(seed uint64, batch, n int, blockTime time.Duration, log *zap.Logger) (*Node, error) {
	if log == nil {
		log = zap.NewNop()
	}
	privs := world.Keys(seed, batch, "committee", n)
	pubs := world.Pubs(privs)
	standby := make([]string, n)
	for i := range pubs {
		standby[i] = hex.EncodeToString(pubs[i].Bytes())
	}
	cfg := config.Blockchain{ProtocolConfiguration: config.ProtocolConfiguration{
		Magic:                           Magic,
		MaxTraceableBlocks:              1000000,
		TimePerBlock:                    blockTime,
		StandbyCommittee:                standby,
		ValidatorsCount:                 uint32(n),
		VerifyTransactions:              true,
		P2PSigExtensions:                true,
		P2PNotaryRequestPayloadPoolSize: 1000,
		MemPoolSize:                     50000,
		MaxValidUntilBlockIncrement:     5760,
	}}
	chain, err := core.NewBlockchain(storage.NewMemoryStore(), cfg, log)
	if err != nil {
		return nil, err
	}
	go chain.Run()
	dir, err := os.MkdirTemp(os.Getenv("TMPDIR"), "verif-node-")
	if err != nil {
		return nil, err
	}
	wpath := filepath.Join(dir, "notary.json")
	w, err := wallet.NewWallet(wpath)
	if err != nil {
		return nil, err
	}
	for _, p := range privs {
		acc := wallet.NewAccountFromPrivateKey(p)
		if err := acc.Encrypt("pass", keys.ScryptParams{N: 2, R: 1, P: 1}); err != nil {
			return nil, err
		}
		w.AddAccount(acc)
	}
	w.Scrypt = keys.ScryptParams{N: 2, R: 1, P: 1}
	if err := w.SavePretty(); err != nil {
		return nil, err
	}
	appCfg := config.ApplicationConfiguration{}
	appCfg.P2P.Addresses = []string{"127.0.0.1:0"}
	appCfg.P2P.MinPeers = 0
	appCfg.P2P.MaxPeers = 10
	appCfg.P2P.AttemptConnPeers = 1
	appCfg.P2P.DialTimeout = time.Second
	appCfg.P2P.ProtoTickInterval = time.Second
	appCfg.P2P.PingInterval = 30 * time.Second
	appCfg.P2P.PingTimeout = 90 * time.Second
	srvCfg, err := network.NewServerConfig(config.Config{ProtocolConfiguration: cfg.ProtocolConfiguration, ApplicationConfiguration: appCfg})
	if err != nil {
		return nil, err
	}
	srvCfg.MinPeers = 0
	netSrv, err := network.NewServer(srvCfg, chain, chain.GetStateSyncModule(), log)
	if err != nil {
		return nil, err
	}
	ncfg := notary.Config{
		MainCfg: config.P2PNotary{Enabled: true, UnlockWallet: config.Wallet{Path: wpath, Password: "pass"}},
		Chain:   chain,
		Log:     log,
	}
	nd := &Node{Chain: chain, Net: netSrv, Privs: privs, Pubs: pubs, Dir: dir, stop: make(chan struct{})}
	ntr, err := notary.NewNotary(ncfg, netSrv.Net, netSrv.GetNotaryPool(), func(tx *transaction.Transaction) error {
		return netSrv.RelayTxn(tx)
	})
	if err != nil {
		return nil, err
	}
	netSrv.AddService(ntr)
	chain.SetNotary(ntr)
	errCh := make(chan error, 16)
	rpcCfg := config.RPC{}
	rpcCfg.Enabled = true
	rpcCfg.MaxGasInvoke = 200_0000_0000
	rpcCfg.SessionEnabled = true
	rpcCfg.SessionExpirationTime = 600
	rpcCfg.MaxIteratorResultItems = 1000
	rpcCfg.MaxFindResultItems = 1000
	nd.RPC = rpcsrv.New(chain, rpcCfg, netSrv, nil, log, errCh)
	netSrv.AddService(nd.RPC)
	netSrv.Start()
	nd.ValM = smartcontract.GetDefaultHonestNodeCount(n)
	nd.ValScr, err = smartcontract.CreateMultiSigRedeemScript(nd.ValM, pubs.Copy())
	if err != nil {
		return nil, err
	}
	return nd, nil
}

// Client returns a new in-process RPC client. Its context is never cancelled by the harness
// (cancelling while the RPC server shuts down panics inside neo-go).
func (nd *Node) Client() (*rpcclient.Internal, error) {
	cli, err := rpcclient.NewInternal(context.Background(), nd.RPC.RegisterLocal)
	if err != nil {
		return nil, err
	}
	if err := cli.Init(); err != nil {
		return nil, err
	}
	return cli, nil
}

// ShiftTime moves the clock the block timestamps are taken from forward (chain time passes without blocks).
func (nd *Node) ShiftTime(d time.Duration) {
	nd.mu.Lock()
	nd.shiftMS += d.Milliseconds()
	nd.mu.Unlock()
}

// ProduceBlock takes the verified mempool transactions into a new block.
func (nd *Node) ProduceBlock() error {
	nd.mu.Lock()
	defer nd.mu.Unlock()
	txs := nd.Chain.GetMemPool().GetVerifiedTransactions()
	if len(txs) > 200 {
		txs = txs[:200]
	}
	top := nd.Chain.BlockHeight()
	prev, err := nd.Chain.GetHeader(nd.Chain.GetHeaderHash(top))
	if err != nil {
		return err
	}
	ts := uint64(time.Now().UnixMilli() + nd.shiftMS)
	if ts <= prev.Timestamp {
		ts = prev.Timestamp + 1
	}
	b := &block.Block{
		Header: block.Header{
			PrevHash:      prev.Hash(),
			Timestamp:     ts,
			Index:         top + 1,
			NextConsensus: hash.Hash160(nd.ValScr),
			Script:        transaction.Witness{VerificationScript: nd.ValScr},
		},
		Transactions: txs,
	}
	b.RebuildMerkleRoot()
	buf := io.NewBufBinWriter()
	for i := 0; i < nd.ValM; i++ {
		emit.Bytes(buf.BinWriter, nd.Privs[i].SignHashable(uint32(Magic), b))
	}
	b.Script.InvocationScript = buf.Bytes()
	if err := nd.Chain.AddBlock(b); err != nil {
		return err
	}
	nd.Blocks++
	nd.TxCount += len(txs)
	return nil
}

// Run produces a block every interval until Stop.
func (nd *Node) Run(interval time.Duration) {
	nd.wg.Add(1)
	go func() {
		defer nd.wg.Done()
		tk := time.NewTicker(interval)
		defer tk.Stop()
		for {
			select {
			case <-nd.stop:
				return
			case <-tk.C:
				if err := nd.ProduceBlock(); err != nil {
					nd.mu.Lock()
					nd.BlockErr = err
					nd.mu.Unlock()
				}
			}
		}
	}()
}

// Stop stops block production (the node itself is left running; the process is expected to exit).
func (nd *Node) Stop() {
	close(nd.stop)
	nd.wg.Wait()
}

// Cleanup removes the node's temp directory.
func (nd *Node) Cleanup() { os.RemoveAll(nd.Dir) }

// Height returns the chain height.
func (nd *Node) Height() uint32 { return nd.Chain.BlockHeight() }

// ValidatorAccount returns member i's view of the validators' multisig account.
func (nd *Node) ValidatorAccount(i int) (*wallet.Account, error) {
	acc := wallet.NewAccountFromPrivateKey(nd.Privs[i])
	if err := acc.ConvertMultisig(nd.ValM, nd.Pubs.Copy()); err != nil {
		return nil, err
	}
	return acc, nil
}

// String describes the node.
func (nd *Node) String() string {
	return fmt.Sprintf("node(n=%d, height=%d)", len(nd.Privs), nd.Height())
}
