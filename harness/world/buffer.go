package world

import (
	"fmt"

	"github.com/nspcc-dev/neo-go/pkg/io"
	"github.com/nspcc-dev/neo-go/pkg/smartcontract/callflag"
	"github.com/nspcc-dev/neo-go/pkg/util"
	"github.com/nspcc-dev/neo-go/pkg/vm/emit"
	"github.com/nspcc-dev/neo-go/pkg/vm/opcode"
	"github.com/nspcc-dev/neo-go/pkg/vm/stackitem"
)

// Buf is a byte-string argument that reaches the contract as a Buffer stack item, the way a value computed by the
// calling script (CAT, CONVERT) does, instead of the ByteString a pushed literal is.
type Buf []byte

// callScript is smartcontract.CreateCallScript with top-level Buf arguments converted to Buffers by the script itself.
func callScript(h util.Uint160, method string, args []any) ([]byte, error) {
	var bufs []int
	plain := make([]any, len(args))
	for i, a := range args {
		if b, ok := a.(Buf); ok {
			bufs = append(bufs, i)
			plain[i] = []byte(b)
		} else {
			plain[i] = a
		}
	}
	if len(bufs) == 0 {
		return nil, nil
	}
	bw := io.NewBufBinWriter()
	emit.Array(bw.BinWriter, plain...)
	for _, i := range bufs {
		// [arr] -> [arr arr arr] -> [arr arr item] -> [arr arr buf] -> [arr arr i buf] -> [arr]
		emit.Opcodes(bw.BinWriter, opcode.DUP, opcode.DUP)
		emit.Int(bw.BinWriter, int64(i))
		emit.Opcodes(bw.BinWriter, opcode.PICKITEM)
		emit.Instruction(bw.BinWriter, opcode.CONVERT, []byte{byte(stackitem.BufferT)})
		emit.Int(bw.BinWriter, int64(i))
		emit.Opcodes(bw.BinWriter, opcode.SWAP, opcode.SETITEM)
	}
	emit.AppCallNoArgs(bw.BinWriter, h, method, callflag.All)
	if bw.Err != nil {
		return nil, fmt.Errorf("script with Buffer arguments: %w", bw.Err)
	}
	return bw.Bytes(), nil
}
