package world

import (
	"encoding/hex"
	"fmt"
	"math/big"

	"github.com/nspcc-dev/neo-go/pkg/crypto/keys"
	"github.com/nspcc-dev/neo-go/pkg/util"
	"github.com/nspcc-dev/neo-go/pkg/vm/stackitem"
)

// RenderArgs renders call arguments for logs.
func RenderArgs(args []any) []any {
	res := make([]any, len(args))
	for i, a := range args {
		res[i] = RenderArg(a)
	}
	return res
}

// RenderArg renders one Go argument.
func RenderArg(a any) any {
	switch v := a.(type) {
	case nil:
		return nil
	case []byte:
		if len(v) > 80 {
			return fmt.Sprintf("0x%s…(%dB)", hex.EncodeToString(v[:24]), len(v))
		}
		return "0x" + hex.EncodeToString(v)
	case util.Uint160:
		return "h160:" + v.StringLE()
	case util.Uint256:
		return "h256:" + v.StringLE()
	case *keys.PublicKey:
		return "pub:" + hex.EncodeToString(v.Bytes())
	case *big.Int:
		return v.String()
	case []any:
		return RenderArgs(v)
	case string:
		if len(v) > 120 {
			return fmt.Sprintf("%q…(%dB)", v[:60], len(v))
		}
		return v
	case stackitem.Item:
		return RenderItem(v)
	default:
		return fmt.Sprint(v)
	}
}

// RenderItems renders stack items.
func RenderItems(items []stackitem.Item) []any {
	res := make([]any, len(items))
	for i, it := range items {
		res[i] = RenderItem(it)
	}
	return res
}

// RenderItem renders a stack item compactly.
func RenderItem(it stackitem.Item) any {
	switch v := it.(type) {
	case nil:
		return nil
	case stackitem.Null:
		return nil
	case *stackitem.BigInteger:
		return v.Big().String()
	case stackitem.Bool:
		return bool(v)
	case *stackitem.ByteArray, *stackitem.Buffer:
		b, _ := it.TryBytes()
		if len(b) > 80 {
			return fmt.Sprintf("0x%s…(%dB)", hex.EncodeToString(b[:24]), len(b))
		}
		return "0x" + hex.EncodeToString(b)
	case *stackitem.Array:
		return RenderItems(v.Value().([]stackitem.Item))
	case *stackitem.Struct:
		return RenderItems(v.Value().([]stackitem.Item))
	case *stackitem.Map:
		var res []any
		for _, e := range v.Value().([]stackitem.MapElement) {
			res = append(res, []any{RenderItem(e.Key), RenderItem(e.Value)})
		}
		return map[string]any{"map": res}
	default:
		return it.String()
	}
}

// Bytes of an item ("" for Null).
func Bytes(it stackitem.Item) []byte {
	if it == nil {
		return nil
	}
	if _, ok := it.(stackitem.Null); ok {
		return nil
	}
	b, err := it.TryBytes()
	if err != nil {
		return nil
	}
	return b
}

// Int of an item (nil if not convertible).
func Int(it stackitem.Item) *big.Int {
	if it == nil {
		return nil
	}
	if _, ok := it.(stackitem.Null); ok {
		return big.NewInt(0)
	}
	v, err := it.TryInteger()
	if err != nil {
		return nil
	}
	return v
}

// Int64 of an item (0 if not convertible).
func Int64(it stackitem.Item) int64 {
	v := Int(it)
	if v == nil {
		return 0
	}
	return v.Int64()
}

// Arr of an item (nil if not an array/struct).
func Arr(it stackitem.Item) []stackitem.Item {
	if it == nil {
		return nil
	}
	switch it.(type) {
	case *stackitem.Array, *stackitem.Struct:
		v := it.Value().([]stackitem.Item)
		if v == nil {
			v = []stackitem.Item{}
		}
		return v
	}
	return nil
}

// IsNull reports Null.
func IsNull(it stackitem.Item) bool {
	if it == nil {
		return true
	}
	_, ok := it.(stackitem.Null)
	return ok
}

// Bool of an item.
func Bool(it stackitem.Item) bool {
	if it == nil {
		return false
	}
	b, err := it.TryBool()
	return err == nil && b
}

// Canon renders an item to a canonical string (for set comparison / hashing).
func Canon(it stackitem.Item) string {
	return fmt.Sprint(RenderItemFull(it))
}

// RenderItemFull renders without truncation.
func RenderItemFull(it stackitem.Item) any {
	switch v := it.(type) {
	case nil:
		return nil
	case stackitem.Null:
		return nil
	case *stackitem.BigInteger:
		return v.Big().String()
	case stackitem.Bool:
		return bool(v)
	case *stackitem.ByteArray, *stackitem.Buffer:
		b, _ := it.TryBytes()
		return "0x" + hex.EncodeToString(b)
	case *stackitem.Array:
		return renderFull(v.Value().([]stackitem.Item))
	case *stackitem.Struct:
		return renderFull(v.Value().([]stackitem.Item))
	case *stackitem.Map:
		var res []any
		for _, e := range v.Value().([]stackitem.MapElement) {
			res = append(res, []any{RenderItemFull(e.Key), RenderItemFull(e.Value)})
		}
		return map[string]any{"map": res}
	default:
		return it.String()
	}
}

func renderFull(items []stackitem.Item) []any {
	res := make([]any, len(items))
	for i, it := range items {
		res[i] = RenderItemFull(it)
	}
	return res
}

// LEInt decodes a raw storage value holding a NeoVM integer (little-endian two's complement;
// the empty value is zero).
func LEInt(v []byte) *big.Int {
	if len(v) == 0 {
		return big.NewInt(0)
	}
	return Int(stackitem.NewByteArray(v))
}
