package world

import (
	"bytes"
	"encoding/json"
	"fmt"
	"os"
	"path/filepath"

	"github.com/nspcc-dev/neo-go/pkg/compiler"
	"github.com/nspcc-dev/neo-go/pkg/config"
	"github.com/nspcc-dev/neo-go/pkg/smartcontract/binding"
	"github.com/nspcc-dev/neo-go/pkg/smartcontract/manifest"
	"github.com/nspcc-dev/neo-go/pkg/smartcontract/rpcbinding"
	"gopkg.in/yaml.v3"
)

// Generated are the three artifacts the build pipeline produces for a contract.
type Generated struct {
	NEF, Manifest, Binding []byte
}

// Regenerate runs the build pipeline (compile, manifest, bindings config,
// RPC binding generator) for one contract of the repository, in a temp dir.
func Regenerate(repo, name string) (*Generated, error) {
	compileMu.Lock()
	defer compileMu.Unlock()
	config.Version = "0.107.0"
	tmp, err := os.MkdirTemp("", "verif-regen-")
	if err != nil {
		return nil, err
	}
	defer os.RemoveAll(tmp)
	dir := filepath.Join(repo, "contracts", name)
	o := &compiler.Options{
		Outfile:      filepath.Join(tmp, name+".nef"),
		ManifestFile: filepath.Join(tmp, name+".manifest.json"),
		BindingsFile: filepath.Join(tmp, name+".bindings.yml"),
	}
	if _, err := FillOptions(o, filepath.Join(dir, "config.yml")); err != nil {
		return nil, err
	}
	if _, err := compiler.CompileAndSave(dir, o); err != nil {
		return nil, fmt.Errorf("compile %s: %w", name, err)
	}
	g := &Generated{}
	if g.NEF, err = os.ReadFile(filepath.Join(tmp, name+".nef")); err != nil {
		return nil, err
	}
	if g.Manifest, err = os.ReadFile(filepath.Join(tmp, name+".manifest.json")); err != nil {
		return nil, err
	}
	bs, err := os.ReadFile(filepath.Join(tmp, name+".bindings.yml"))
	if err != nil {
		return nil, err
	}
	cfg := binding.NewConfig()
	dec := yaml.NewDecoder(bytes.NewReader(bs))
	dec.KnownFields(true)
	if err := dec.Decode(&cfg); err != nil {
		return nil, err
	}
	m := new(manifest.Manifest)
	if err := json.Unmarshal(g.Manifest, m); err != nil {
		return nil, err
	}
	cfg.Manifest = m
	var out bytes.Buffer
	cfg.Output = &out
	if err := rpcbinding.Generate(cfg); err != nil {
		return nil, err
	}
	g.Binding = out.Bytes()
	return g, nil
}
