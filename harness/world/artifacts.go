package world

import (
	"encoding/json"
	"fmt"
	"os"
	"path/filepath"
	"strings"
	"sync"

	clisc "github.com/nspcc-dev/neo-go/cli/smartcontract"
	"github.com/nspcc-dev/neo-go/pkg/compiler"
	"github.com/nspcc-dev/neo-go/pkg/config"
	"github.com/nspcc-dev/neo-go/pkg/smartcontract/manifest"
	"github.com/nspcc-dev/neo-go/pkg/smartcontract/nef"
)

// ContractNames lists the 11 contracts of the repository.
var ContractNames = []string{"alphabet", "audit", "balance", "container", "neofs", "neofsid", "netmap", "nns", "processing", "proxy", "reputation"}

// Artifact is a compiled contract.
type Artifact struct {
	Name     string
	NEF      *nef.File
	Manifest *manifest.Manifest
	NEFBytes []byte
	ManBytes []byte
}

// RepoDir is the repository the contracts are compiled from.
func RepoDir() string {
	if d := os.Getenv("VERIF_REPO"); d != "" {
		return d
	}
	return "/repo"
}

// FillOptions fills compiler options from a contract's config.yml the way the
// neo-go CLI does.
func FillOptions(o *compiler.Options, confFile string) (*compiler.Options, error) {
	conf, err := clisc.ParseContractConfig(confFile)
	if err != nil {
		return nil, err
	}
	o.Name = conf.Name
	o.SourceURL = conf.SourceURL
	o.ContractEvents = conf.Events
	o.DeclaredNamedTypes = conf.NamedTypes
	o.ContractSupportedStandards = conf.SupportedStandards
	o.Permissions = make([]manifest.Permission, len(conf.Permissions))
	for i := range conf.Permissions {
		o.Permissions[i] = manifest.Permission(conf.Permissions[i])
	}
	o.SafeMethods = conf.SafeMethods
	o.Overloads = conf.Overloads
	return o, nil
}

var compileMu sync.Mutex

// CompileDir compiles a contract directory (with config.yml) in memory.
func CompileDir(name, dir string) (*Artifact, error) {
	compileMu.Lock()
	defer compileMu.Unlock()
	config.Version = "0.107.0"
	o, err := FillOptions(&compiler.Options{}, filepath.Join(dir, "config.yml"))
	if err != nil {
		return nil, fmt.Errorf("config of %s: %w", name, err)
	}
	ne, di, err := compiler.CompileWithOptions(dir, nil, o)
	if err != nil {
		return nil, fmt.Errorf("compile %s: %w", name, err)
	}
	m, err := compiler.CreateManifest(di, o)
	if err != nil {
		return nil, fmt.Errorf("manifest of %s: %w", name, err)
	}
	return NewArtifact(name, ne, m)
}

// CompileSource compiles a helper contract given as Go source text.
func CompileSource(name, src string, o *compiler.Options) (*Artifact, error) {
	compileMu.Lock()
	defer compileMu.Unlock()
	config.Version = "0.107.0"
	if o == nil {
		o = &compiler.Options{}
	}
	if o.Name == "" {
		o.Name = name
	}
	if o.Permissions == nil {
		o.Permissions = []manifest.Permission{*manifest.NewPermission(manifest.PermissionWildcard)}
	}
	ne, di, err := compiler.CompileWithOptions(name+".go", strings.NewReader(src), o)
	if err != nil {
		return nil, fmt.Errorf("compile helper %s: %w", name, err)
	}
	m, err := compiler.CreateManifest(di, o)
	if err != nil {
		return nil, fmt.Errorf("manifest of helper %s: %w", name, err)
	}
	return NewArtifact(name, ne, m)
}

// NewArtifact wraps a NEF and a manifest.
func NewArtifact(name string, ne *nef.File, m *manifest.Manifest) (*Artifact, error) {
	nb, err := ne.Bytes()
	if err != nil {
		return nil, err
	}
	mb, err := json.Marshal(m)
	if err != nil {
		return nil, err
	}
	return &Artifact{Name: name, NEF: ne, Manifest: m, NEFBytes: nb, ManBytes: mb}, nil
}

// ArtifactFromBytes parses raw NEF and manifest.
func ArtifactFromBytes(name string, nb, mb []byte) (*Artifact, error) {
	ne, err := nef.FileFromBytes(nb)
	if err != nil {
		return nil, fmt.Errorf("nef of %s: %w", name, err)
	}
	m := new(manifest.Manifest)
	if err := json.Unmarshal(mb, m); err != nil {
		return nil, fmt.Errorf("manifest of %s: %w", name, err)
	}
	return &Artifact{Name: name, NEF: &ne, Manifest: m, NEFBytes: nb, ManBytes: mb}, nil
}

// Set is a named set of artifacts.
type Set map[string]*Artifact

// CompileTree compiles all 11 contracts from <repo>/contracts.
func CompileTree(repo string) (Set, error) {
	res := Set{}
	for _, n := range ContractNames {
		a, err := CompileDir(n, filepath.Join(repo, "contracts", n))
		if err != nil {
			return nil, err
		}
		res[n] = a
	}
	return res, nil
}

// EmbeddedTree loads contract.nef/manifest.json committed in <repo>/contracts.
func EmbeddedTree(repo string) (Set, error) {
	res := Set{}
	for _, n := range ContractNames {
		nb, err := os.ReadFile(filepath.Join(repo, "contracts", n, "contract.nef"))
		if err != nil {
			return nil, err
		}
		mb, err := os.ReadFile(filepath.Join(repo, "contracts", n, "manifest.json"))
		if err != nil {
			return nil, err
		}
		a, err := ArtifactFromBytes(n, nb, mb)
		if err != nil {
			return nil, err
		}
		res[n] = a
	}
	return res, nil
}

// Save writes the set to dir as <name>.nef / <name>.manifest.json.
func (s Set) Save(dir string) error {
	if err := os.MkdirAll(dir, 0o755); err != nil {
		return err
	}
	for n, a := range s {
		if err := os.WriteFile(filepath.Join(dir, n+".nef"), a.NEFBytes, 0o644); err != nil {
			return err
		}
		if err := os.WriteFile(filepath.Join(dir, n+".manifest.json"), a.ManBytes, 0o644); err != nil {
			return err
		}
	}
	return nil
}

// LoadSet reads every <name>.nef in dir.
func LoadSet(dir string) (Set, error) {
	ents, err := os.ReadDir(dir)
	if err != nil {
		return nil, err
	}
	res := Set{}
	for _, e := range ents {
		if !strings.HasSuffix(e.Name(), ".nef") {
			continue
		}
		n := strings.TrimSuffix(e.Name(), ".nef")
		nb, err := os.ReadFile(filepath.Join(dir, e.Name()))
		if err != nil {
			return nil, err
		}
		mb, err := os.ReadFile(filepath.Join(dir, n+".manifest.json"))
		if err != nil {
			return nil, err
		}
		a, err := ArtifactFromBytes(n, nb, mb)
		if err != nil {
			return nil, err
		}
		res[n] = a
	}
	return res, nil
}

// Renamed returns a copy of the artifact whose manifest carries another
// contract name (and therefore deploys to another address).
func (a *Artifact) Renamed(name string) *Artifact {
	m := *a.Manifest
	m.Name = name
	res, err := NewArtifact(a.Name, a.NEF, &m)
	if err != nil {
		panic(err)
	}
	return res
}
