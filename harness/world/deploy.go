package world

import (
	"fmt"

	"github.com/nspcc-dev/neo-go/pkg/core/native/noderoles"
	"github.com/nspcc-dev/neo-go/pkg/crypto/keys"
	"github.com/nspcc-dev/neo-go/pkg/smartcontract"
	"github.com/nspcc-dev/neo-go/pkg/util"
)

// FSOptions select what DeployFS sets up.
type FSOptions struct {
	// Contracts to deploy besides nns (always first). nil = the FS-chain set
	// {netmap, balance, neofsid, container, reputation, audit, proxy}.
	Contracts []string
	// NetmapConfig are key/value pairs for netmap's _deploy.
	NetmapConfig []any
	// ExtraTLDs registered at NNS deployment besides "neofs".
	ExtraTLDs []string
	// Alphabet deploys one alphabet contract per committee member.
	Alphabet bool
	// IR designates these keys to the NeoFSAlphabet role (nil: the committee).
	IR keys.PublicKeys
	// SkipRole leaves the NeoFSAlphabet role undesignated.
	SkipRole bool
}

// DefaultFS is the side-chain set.
var DefaultFS = []string{"netmap", "balance", "neofsid", "container", "reputation", "audit", "proxy"}

// AM returns the signer pair Alphabet + Majority (Global), deduplicated by the
// transaction builder when they coincide.
func (w *World) AM() []SignerSpec {
	return []SignerSpec{G(w.Alphabet), G(w.Majority)}
}

// Alpha returns the Alphabet signer (Global).
func (w *World) Alpha() []SignerSpec { return []SignerSpec{G(w.Alphabet)} }

// Major returns the Majority signer (Global).
func (w *World) Major() []SignerSpec { return []SignerSpec{G(w.Majority)} }

// RegisterNNS registers <name>.neofs owned by the Majority account with a TXT
// record holding the contract hash, as the Inner Ring / deploy procedure does.
func (w *World) RegisterNNS(name string, h util.Uint160) error {
	nns := w.H("nns")
	r := w.Invoke(w.Major(), nns, "register", name+".neofs", w.Majority.ScriptHash(), "ops@nspcc.ru", int64(3600), int64(600), int64(10*365*24*3600), int64(3600))
	if !r.Halted() || !Bool(r.Stack[0]) {
		return fmt.Errorf("register %s.neofs: %s %s", name, r.State, r.Fault)
	}
	r = w.Invoke(w.Major(), nns, "addRecord", name+".neofs", int64(16), h.StringLE())
	if !r.Halted() {
		return fmt.Errorf("addRecord %s.neofs: %s %s", name, r.State, r.Fault)
	}
	return nil
}

// DesignateIR sets the NeoFSAlphabet role.
func (w *World) DesignateIR(pubs keys.PublicKeys) error {
	arg := make([]any, len(pubs))
	for i := range pubs {
		arg[i] = pubs[i].Bytes()
	}
	r := w.Invoke(w.Major(), w.Roles, "designateAsRole", int64(noderoles.NeoFSAlphabet), arg)
	if !r.Halted() {
		return fmt.Errorf("designate NeoFSAlphabet: %s %s %s", r.Rejected, r.State, r.Fault)
	}
	return nil
}

// DeployFS deploys NNS and the requested FS contracts and registers them.
func (w *World) DeployFS(set Set, o FSOptions) error {
	// committee accounts need nothing (the payer pays), but keep them non-empty
	// for contracts that look at balances.
	tlds := []any{[]any{"neofs", "ops@nspcc.io"}}
	for _, t := range o.ExtraTLDs {
		tlds = append(tlds, []any{t, "ops@nspcc.io"})
	}
	if _, err := w.Deploy("nns", set["nns"], []any{tlds}); err != nil {
		return err
	}
	if w.C["nns"].ID != 1 {
		return fmt.Errorf("nns got id %d", w.C["nns"].ID)
	}
	if !o.SkipRole {
		ir := o.IR
		if ir == nil {
			ir = w.Pubs
		}
		if err := w.DesignateIR(ir); err != nil {
			return err
		}
	}
	list := o.Contracts
	if list == nil {
		list = DefaultFS
	}
	for _, n := range list {
		var data any
		switch n {
		case "netmap":
			cfg := o.NetmapConfig
			if cfg == nil {
				cfg = []any{}
			}
			data = []any{false, util.Uint160{}, util.Uint160{}, []any{}, cfg}
		case "balance":
			data = []any{false, util.Uint160{}, util.Uint160{}}
		case "neofsid":
			data = []any{false, util.Uint160{}, util.Uint160{}}
		case "container":
			data = []any{false, []byte{}, []byte{}, []byte{}, []byte{}, ""}
		case "reputation", "audit":
			data = []any{false}
		case "proxy":
			data = nil
		default:
			return fmt.Errorf("DeployFS: unknown contract %s", n)
		}
		d, err := w.Deploy(n, set[n], data, w.AM()...)
		if err != nil {
			return err
		}
		if err := w.RegisterNNS(n, d.Hash); err != nil {
			return err
		}
	}
	if o.Alphabet {
		for i := 0; i < w.N; i++ {
			name := fmt.Sprintf("alphabet%d", i)
			snd := Single(Key(w.Opt.Seed, w.Opt.Batch, "alphadeployer", i))
			if err := w.FundGAS(snd.ScriptHash(), 1000_0000_0000); err != nil {
				return err
			}
			d, err := w.DeployFrom(snd, name, set["alphabet"], []any{false, []byte{}, []byte{}, name, int64(i), int64(w.N)}, w.AM()...)
			if err != nil {
				return err
			}
			if err := w.RegisterNNS(name, d.Hash); err != nil {
				return err
			}
		}
	}
	return nil
}

// Reelect replaces the whole committee by the given keys through the native NEO
// election: every new key registers as a candidate, a voter holding a fifth of
// the voted NEO supply votes for each of them, and blocks are added until
// getCommittee answers with the new keys. The signers of the world (Alphabet,
// Majority, Members, Privs, Pubs) then are the new committee's; the former
// ones are kept in FormerAlphabet / FormerMajority. The consensus node(s) that
// stamp the blocks stay the genesis ones (blocks are not verified).
func (w *World) Reelect(newPrivs []*keys.PrivateKey) error {
	if len(newPrivs) != w.N {
		return fmt.Errorf("reelect: %d keys for a committee of %d", len(newPrivs), w.N)
	}
	per := int64(30_000_000 / len(newPrivs))
	for i, k := range newPrivs {
		acc := Single(k)
		if err := w.FundGAS(acc.ScriptHash(), 1100_0000_0000); err != nil {
			return err
		}
		fee := w.SysFee
		w.SysFee = 1010_0000_0000 // the registration price (1000 GAS) is burnt as system fee
		r := w.Invoke([]SignerSpec{G(acc)}, w.NEO, "registerCandidate", k.PublicKey().Bytes())
		w.SysFee = fee
		if !r.Halted() || !Bool(r.Stack[0]) {
			return fmt.Errorf("registerCandidate %d: %s %s", i, r.State, r.Fault)
		}
		voter := Single(Key(w.Opt.Seed, w.Opt.Batch, "voter", w.elections*100+i))
		if err := w.FundNEO(voter.ScriptHash(), per); err != nil {
			return err
		}
		if r := w.Invoke([]SignerSpec{G(voter)}, w.NEO, "vote", voter.ScriptHash(), k.PublicKey().Bytes()); !r.Halted() || !Bool(r.Stack[0]) {
			return fmt.Errorf("vote %d: %s %s", i, r.State, r.Fault)
		}
	}
	w.elections++
	want := map[string]bool{}
	for _, k := range newPrivs {
		want[string(k.PublicKey().Bytes())] = true
	}
	elected := func() bool {
		r := w.Read(w.NEO, "getCommittee")
		if !r.OK() {
			return false
		}
		cs := Arr(r.Top())
		if len(cs) != len(newPrivs) {
			return false
		}
		for _, c := range cs {
			if !want[string(Bytes(c))] {
				return false
			}
		}
		return true
	}
	for i := 0; i < 3*w.N+3 && !elected(); i++ {
		w.EmptyBlocks(1)
	}
	if !elected() {
		return fmt.Errorf("reelect: the committee did not change")
	}
	w.FormerAlphabet, w.FormerMajority = w.Alphabet, w.Majority
	w.Privs = newPrivs
	w.Pubs = Pubs(newPrivs)
	w.Majority = Multi(w.Privs, smartcontract.GetMajorityHonestNodeCount(w.N))
	w.Alphabet = Multi(w.Privs, w.N*2/3+1)
	w.Members = nil
	for _, p := range w.Privs {
		w.Members = append(w.Members, Single(p))
	}
	return nil
}
