// Package world is substrate A of DESIGN.md: a real neo-go ledger with the
// contracts compiled from the repository's working tree, deterministic keys,
// a neutral fee payer, virtual time, and a recorder of everything that happens.
package world

import (
	"crypto/sha256"
	"fmt"
	"sort"

	"github.com/nspcc-dev/neo-go/pkg/crypto/keys"
	"github.com/nspcc-dev/neo-go/pkg/neotest"
	"github.com/nspcc-dev/neo-go/pkg/util"
	"github.com/nspcc-dev/neo-go/pkg/wallet"
)

// Key derives a private key from (seed, batch, role, index); never crypto/rand.
func Key(seed uint64, batch int, role string, index int) *keys.PrivateKey {
	for ctr := 0; ; ctr++ {
		h := sha256.Sum256([]byte(fmt.Sprintf("verif/%d/%d/%s/%d/%d", seed, batch, role, index, ctr)))
		k, err := keys.NewPrivateKeyFromBytes(h[:])
		if err == nil {
			return k
		}
	}
}

// Keys derives n keys for a role, sorted by public key.
func Keys(seed uint64, batch int, role string, n int) []*keys.PrivateKey {
	res := make([]*keys.PrivateKey, n)
	for i := range res {
		res[i] = Key(seed, batch, role, i)
	}
	sort.Slice(res, func(i, j int) bool { return res[i].PublicKey().Cmp(res[j].PublicKey()) < 0 })
	return res
}

// Pubs returns public keys of the given private keys.
func Pubs(privs []*keys.PrivateKey) keys.PublicKeys {
	res := make(keys.PublicKeys, len(privs))
	for i := range privs {
		res[i] = privs[i].PublicKey()
	}
	return res
}

// Single makes a single-key signer.
func Single(p *keys.PrivateKey) neotest.Signer {
	return neotest.NewSingleSigner(wallet.NewAccountFromPrivateKey(p))
}

// Multi makes an m-of-n multi-signature signer holding all n keys.
func Multi(privs []*keys.PrivateKey, m int) neotest.Signer {
	pubs := Pubs(privs)
	accs := make([]*wallet.Account, len(privs))
	for i := range privs {
		accs[i] = wallet.NewAccountFromPrivateKey(privs[i])
		if err := accs[i].ConvertMultisig(m, pubs.Copy()); err != nil {
			panic(err)
		}
	}
	return neotest.NewMultiSigner(accs...)
}

// Hash160Of returns script hash of a key's standard account.
func Hash160Of(p *keys.PrivateKey) util.Uint160 {
	return p.PublicKey().GetScriptHash()
}
