package world

import (
	"bufio"
	"encoding/hex"
	"encoding/json"
	"errors"
	"fmt"
	"io"
	"math/big"
	"sort"

	"github.com/nspcc-dev/neo-go/pkg/config"
	"github.com/nspcc-dev/neo-go/pkg/config/netmode"
	"github.com/nspcc-dev/neo-go/pkg/core"
	"github.com/nspcc-dev/neo-go/pkg/core/block"
	istorage "github.com/nspcc-dev/neo-go/pkg/core/interop/storage"
	"github.com/nspcc-dev/neo-go/pkg/core/native/nativenames"
	"github.com/nspcc-dev/neo-go/pkg/core/state"
	"github.com/nspcc-dev/neo-go/pkg/core/storage"
	"github.com/nspcc-dev/neo-go/pkg/core/transaction"
	"github.com/nspcc-dev/neo-go/pkg/crypto/keys"
	"github.com/nspcc-dev/neo-go/pkg/neorpc/result"
	"github.com/nspcc-dev/neo-go/pkg/neotest"
	"github.com/nspcc-dev/neo-go/pkg/smartcontract"
	"github.com/nspcc-dev/neo-go/pkg/smartcontract/callflag"
	"github.com/nspcc-dev/neo-go/pkg/smartcontract/trigger"
	"github.com/nspcc-dev/neo-go/pkg/util"
	"github.com/nspcc-dev/neo-go/pkg/vm/stackitem"
	"github.com/nspcc-dev/neo-go/pkg/vm/vmstate"
	"go.uber.org/zap"
)

// Magic of every world.
const Magic = netmode.UnitTestNet

// StartTime is the virtual time (ms) of the first harness block.
const StartTime uint64 = 1_700_000_000_000

// DefaultSysFee is the fixed system fee attached to transactions.
const DefaultSysFee int64 = 30_0000_0000

// Options of a world.
type Options struct {
	N      int    // committee size
	Seed   uint64 // VERIF_SEED
	Batch  int    // batch index (key derivation)
	Notary bool   // P2PSigExtensions
	Log    io.Writer
	// Store: use this store instead of a fresh MemoryStore (dump-based worlds).
	Store storage.Store
	// NoFunding: skip the initial funding of the neutral payer (reopened stores).
	NoFunding bool
	// Validators: number of consensus nodes (the first ones of the committee); 0 = one for every third world
	// (Batch%3 == 1) with several committee members, the whole committee otherwise; -1 = the whole committee.
	// A committee larger than the validator set is the normal shape of a public network.
	Validators int
}

// Deployed describes a deployed contract.
type Deployed struct {
	Name string
	Hash util.Uint160
	ID   int32
	Art  *Artifact
}

// SignerSpec is one transaction signer.
type SignerSpec struct {
	S        neotest.Signer // key-based signer; nil for a contract-based witness
	Contract util.Uint160   // contract-based witness (empty scripts)
	Scope    transaction.WitnessScope
	Allowed  []util.Uint160
	Label    string
	// BadSig makes the witness invalid (signature of another payload).
	BadSig bool
	// Sends makes this signer the transaction's sender (first signer, pays the fees) in place of the neutral payer.
	Sends bool
}

// Account returns signer's script hash.
func (s SignerSpec) Account() util.Uint160 {
	if s.S == nil {
		return s.Contract
	}
	return s.S.ScriptHash()
}

// G makes a Global-scope signer spec.
func G(s neotest.Signer) SignerSpec { return SignerSpec{S: s, Scope: transaction.Global} }

// Scoped makes a signer spec with explicit scope.
func Scoped(s neotest.Signer, sc transaction.WitnessScope, allowed ...util.Uint160) SignerSpec {
	return SignerSpec{S: s, Scope: sc, Allowed: allowed}
}

// Event is a notification.
type Event struct {
	Contract util.Uint160
	Name     string
	Items    []stackitem.Item
}

// Change of one storage key. nil Old = added, nil New = removed.
type Change struct {
	Old, New []byte
}

// Diff is storage changes keyed by contract id then raw key.
type Diff map[int32]map[string]Change

// Empty reports whether nothing changed.
func (d Diff) Empty() bool {
	for _, m := range d {
		if len(m) > 0 {
			return false
		}
	}
	return true
}

// Count returns number of changed keys.
func (d Diff) Count() int {
	n := 0
	for _, m := range d {
		n += len(m)
	}
	return n
}

// TxResult is the call+return+diff record of a transaction.
type TxResult struct {
	Seq       int
	Block     uint32
	TS        uint64
	Contract  util.Uint160
	CName     string
	Method    string
	Args      []any
	Signers   []SignerSpec
	Rejected  string // block refused the transaction (verification failure)
	State     string // HALT / FAULT
	Fault     string
	Stack     []stackitem.Item
	Gas       int64
	Events    []Event // only of HALTed executions
	Discarded []Event // events emitted before a fault (never judged)
	Diff      Diff    // of the whole block (single-tx blocks: of the tx)
	Hash      util.Uint256
	Script    []byte
}

// Halted reports a HALTed execution.
func (r *TxResult) Halted() bool { return r.Rejected == "" && r.State == "HALT" }

// Faulted reports FAULT.
func (r *TxResult) Faulted() bool { return r.Rejected == "" && r.State == "FAULT" }

// World is a ledger with contracts.
type World struct {
	Opt   Options
	Chain *core.Blockchain
	N     int
	Privs []*keys.PrivateKey
	Pubs  keys.PublicKeys

	Validator neotest.Signer // block signing multisig (default honest count)
	Alphabet  neotest.Signer // 2n/3+1
	Majority  neotest.Signer // n/2+1
	Members   []neotest.Signer
	Payer     neotest.Signer
	PayerKey  *keys.PrivateKey

	C    map[string]*Deployed
	ByH  map[util.Uint160]*Deployed
	ids  []int32
	Now  uint64 // virtual clock (ms): timestamp of the next block
	Step uint64 // ms added per block

	GAS, NEO, Mgmt, Roles, NotaryH, Policy, Ledger util.Uint160

	nonce   uint32
	seq     int
	last    map[int32]map[string][]byte
	History []*TxResult
	log     *bufio.Writer
	SysFee  int64
	// KeepHistory makes the world retain TxResults (for samples/replays).
	KeepHistory bool
	// after Reelect: the multi-signature accounts of the committee that was voted out
	FormerAlphabet, FormerMajority neotest.Signer
	elections                      int
}

// New creates a chain; no contracts are deployed yet.
func New(o Options) (*World, error) {
	if o.N <= 0 {
		o.N = 1
	}
	w := &World{Opt: o, N: o.N, C: map[string]*Deployed{}, ByH: map[util.Uint160]*Deployed{}, Now: StartTime, Step: 1000, SysFee: DefaultSysFee, KeepHistory: true}
	w.Privs = Keys(o.Seed, o.Batch, "committee", o.N)
	w.Pubs = Pubs(w.Privs)
	standby := make([]string, o.N)
	for i := range w.Pubs {
		standby[i] = hex.EncodeToString(w.Pubs[i].Bytes())
	}
	nval := o.Validators
	if nval == 0 && o.N > 1 && o.Batch%3 == 1 {
		// unless told otherwise every third world with several committee members has one consensus node only
		nval = 1
	}
	if nval <= 0 || nval > o.N {
		nval = o.N
	}
	cfg := config.Blockchain{ProtocolConfiguration: config.ProtocolConfiguration{
		Magic:                       Magic,
		MaxTraceableBlocks:          1000000,
		TimePerBlock:                1000000000,
		StandbyCommittee:            standby,
		ValidatorsCount:             uint32(nval),
		VerifyTransactions:          true,
		P2PSigExtensions:            o.Notary,
		MaxValidUntilBlockIncrement: 100000,
		MemPoolSize:                 1000,
	}}
	var st storage.Store = storage.NewMemoryStore()
	if o.Store != nil {
		st = o.Store
	}
	bc, err := core.NewBlockchain(st, cfg, zap.NewNop())
	if err != nil {
		return nil, err
	}
	go bc.Run()
	w.Chain = bc
	w.Validator = Multi(w.Privs[:nval], smartcontract.GetDefaultHonestNodeCount(nval))
	w.Majority = Multi(w.Privs, smartcontract.GetMajorityHonestNodeCount(o.N))
	w.Alphabet = Multi(w.Privs, o.N*2/3+1)
	for _, p := range w.Privs {
		w.Members = append(w.Members, Single(p))
	}
	w.PayerKey = Key(o.Seed, o.Batch, "payer", 0)
	w.Payer = Single(w.PayerKey)
	for _, n := range []struct {
		name string
		dst  *util.Uint160
	}{{nativenames.Gas, &w.GAS}, {nativenames.Neo, &w.NEO}, {nativenames.Management, &w.Mgmt}, {nativenames.Designation, &w.Roles}, {nativenames.Policy, &w.Policy}, {nativenames.Ledger, &w.Ledger}} {
		h, err := bc.GetNativeContractScriptHash(n.name)
		if err != nil {
			return nil, err
		}
		*n.dst = h
	}
	if o.Notary {
		h, err := bc.GetNativeContractScriptHash(nativenames.Notary)
		if err == nil {
			w.NotaryH = h
		}
	}
	if o.Log != nil {
		w.log = bufio.NewWriter(o.Log)
	}
	if o.NoFunding {
		// continue the virtual clock after the existing chain
		if hdr, err := bc.GetHeader(bc.GetHeaderHash(bc.BlockHeight())); err == nil && hdr.Timestamp >= w.Now {
			w.Now = hdr.Timestamp + w.Step
		}
		return w, nil
	}
	// fund the neutral payer from the validators' account (the genesis holder)
	r := w.invokeRaw([]SignerSpec{G(w.Validator)}, w.GAS, "transfer", []any{w.Validator.ScriptHash(), w.Payer.ScriptHash(), int64(20_000_000_0000_0000), nil}, true)
	if !r.Halted() {
		return nil, fmt.Errorf("funding payer: %s %s %s", r.Rejected, r.State, r.Fault)
	}
	return w, nil
}

// Close stops the chain.
func (w *World) Close() {
	if w.log != nil {
		w.log.Flush()
	}
	w.Chain.Close()
}

// Height is the current block height.
func (w *World) Height() uint32 { return w.Chain.BlockHeight() }

// FundGAS sends GAS from the payer.
func (w *World) FundGAS(to util.Uint160, amount int64) error {
	r := w.invokeRaw([]SignerSpec{G(w.Payer)}, w.GAS, "transfer", []any{w.Payer.ScriptHash(), to, amount, nil}, true)
	if !r.Halted() {
		return fmt.Errorf("fund GAS: %s %s %s", r.Rejected, r.State, r.Fault)
	}
	return nil
}

// FundNEO sends NEO from the validators' account.
func (w *World) FundNEO(to util.Uint160, amount int64) error {
	r := w.invokeRaw([]SignerSpec{G(w.Payer), G(w.Validator)}, w.NEO, "transfer", []any{w.Validator.ScriptHash(), to, amount, nil}, false)
	if !r.Halted() {
		return fmt.Errorf("fund NEO: %s %s %s", r.Rejected, r.State, r.Fault)
	}
	return nil
}

// Pending is a prepared transaction.
type Pending struct {
	tx  *transaction.Transaction
	res *TxResult
}

// Tx returns the underlying transaction.
func (p *Pending) Tx() *transaction.Transaction { return p.tx }

func dedupSigners(signers []SignerSpec) []SignerSpec {
	seen := map[util.Uint160]bool{}
	var res []SignerSpec
	for _, s := range signers {
		h := s.Account()
		if seen[h] {
			continue
		}
		seen[h] = true
		res = append(res, s)
	}
	return res
}

// withPayer puts the neutral payer in front, unless one of the signers is marked as the sender: that one goes first then.
func (w *World) withPayer(signers []SignerSpec) []SignerSpec {
	for i, sg := range signers {
		if sg.Sends {
			all := []SignerSpec{sg}
			all = append(all, signers[:i]...)
			return append(all, signers[i+1:]...)
		}
	}
	return append([]SignerSpec{{S: w.Payer, Scope: transaction.None}}, signers...)
}

// Prepare builds and signs a transaction calling contract.method(args) paid by
// the neutral payer and witnessed by signers.
func (w *World) Prepare(signers []SignerSpec, h util.Uint160, method string, args ...any) *Pending {
	all := w.withPayer(signers)
	return w.prepare(all, h, method, args, true)
}

// PrepareScript is Prepare for a raw script.
func (w *World) PrepareScript(signers []SignerSpec, script []byte, label string) *Pending {
	all := w.withPayer(signers)
	return w.prepareScript(all, script, util.Uint160{}, label, nil, true)
}

func (w *World) prepare(all []SignerSpec, h util.Uint160, method string, args []any, dedup bool) *Pending {
	script, err := callScript(h, method, args)
	if script == nil && err == nil {
		script, err = smartcontract.CreateCallScript(h, method, args...)
	}
	if err != nil {
		panic(fmt.Sprintf("script for %s: %v", method, err))
	}
	return w.prepareScript(all, script, h, method, args, dedup)
}

func (w *World) prepareScript(all []SignerSpec, script []byte, h util.Uint160, method string, args []any, dedup bool) *Pending {
	if dedup {
		// a signer given explicitly overrides the payer's None scope
		if len(all) > 1 {
			for _, s := range all[1:] {
				if s.Account() == all[0].Account() {
					all[0] = s
				}
			}
		}
		all = dedupSigners(all)
	}
	tx := transaction.New(script, w.SysFee)
	w.nonce++
	tx.Nonce = w.nonce
	tx.ValidUntilBlock = w.Chain.BlockHeight() + 1000
	for _, s := range all {
		sg := transaction.Signer{Account: s.Account(), Scopes: s.Scope}
		if s.Scope&transaction.CustomContracts != 0 {
			sg.AllowedContracts = s.Allowed
		}
		tx.Signers = append(tx.Signers, sg)
	}
	tx.NetworkFee = 5_0000_0000
	for _, s := range all {
		if s.S == nil {
			tx.Scripts = append(tx.Scripts, transaction.Witness{InvocationScript: []byte{}, VerificationScript: []byte{}})
			continue
		}
		if s.BadSig {
			other := *tx
			other.Nonce ^= 0x5a5a5a5a
			o2 := transaction.New(script, w.SysFee)
			o2.Nonce = other.Nonce
			o2.ValidUntilBlock = tx.ValidUntilBlock
			o2.Signers = tx.Signers
			o2.NetworkFee = tx.NetworkFee
			inv := s.S.SignHashable(uint32(Magic), o2)
			tx.Scripts = append(tx.Scripts, transaction.Witness{InvocationScript: inv, VerificationScript: s.S.Script()})
			continue
		}
		if err := s.S.SignTx(Magic, tx); err != nil {
			panic(fmt.Sprintf("sign: %v", err))
		}
	}
	w.seq++
	res := &TxResult{Seq: w.seq, Contract: h, Method: method, Args: args, Signers: all, Hash: tx.Hash(), Script: script}
	if d := w.ByH[h]; d != nil {
		res.CName = d.Name
	}
	return &Pending{tx: tx, res: res}
}

// Invoke runs one transaction in its own block.
func (w *World) Invoke(signers []SignerSpec, h util.Uint160, method string, args ...any) *TxResult {
	p := w.Prepare(signers, h, method, args...)
	return w.Block(p)[0]
}

// invokeRaw uses signers as given (first is the sender).
func (w *World) invokeRaw(all []SignerSpec, h util.Uint160, method string, args []any, _ bool) *TxResult {
	p := w.prepare(all, h, method, args, true)
	return w.Block(p)[0]
}

// InvokeAs runs a transaction whose first signer (sender, fee payer) is given.
func (w *World) InvokeAs(all []SignerSpec, h util.Uint160, method string, args ...any) *TxResult {
	return w.invokeRaw(all, h, method, args, true)
}

func (w *World) newBlock(ts uint64, txs []*transaction.Transaction) (*block.Block, error) {
	top := w.Chain.BlockHeight()
	prev, err := w.Chain.GetHeader(w.Chain.GetHeaderHash(top))
	if err != nil {
		return nil, err
	}
	if ts <= prev.Timestamp {
		ts = prev.Timestamp + 1
	}
	b := &block.Block{
		Header: block.Header{
			PrevHash:      prev.Hash(),
			Timestamp:     ts,
			Index:         top + 1,
			NextConsensus: w.Validator.ScriptHash(),
			Script:        transaction.Witness{VerificationScript: w.Validator.Script()},
		},
		Transactions: txs,
	}
	b.RebuildMerkleRoot()
	return b, nil
}

// Block puts prepared transactions into one block (timestamp = virtual clock)
// and returns their records. If the block is refused because a transaction
// fails verification, every transaction is reported as Rejected.
func (w *World) Block(ps ...*Pending) []*TxResult {
	txs := make([]*transaction.Transaction, len(ps))
	for i, p := range ps {
		txs[i] = p.tx
	}
	before := w.snapshotAll()
	for _, p := range ps {
		w.logCall(p.res)
	}
	b, err := w.newBlock(w.Now, txs)
	if err != nil {
		panic(err)
	}
	b.Script.InvocationScript = w.Validator.SignHashable(uint32(Magic), b)
	err = w.Chain.AddBlock(b)
	res := make([]*TxResult, len(ps))
	if err != nil {
		for i, p := range ps {
			p.res.Rejected = err.Error()
			p.res.Diff = Diff{}
			res[i] = p.res
			w.logReturn(p.res)
		}
		if w.KeepHistory {
			w.History = append(w.History, res...)
		}
		return res
	}
	w.Now = b.Timestamp + w.Step
	after := w.dumpAll()
	w.last = after
	d := diffOf(before, after)
	for i, p := range ps {
		r := p.res
		r.Block = b.Index
		r.TS = b.Timestamp
		r.Diff = d
		aers, err := w.Chain.GetAppExecResults(p.tx.Hash(), trigger.Application)
		if err != nil || len(aers) == 0 {
			r.Rejected = fmt.Sprintf("no application log: %v", err)
		} else {
			a := aers[0]
			r.State = a.VMState.String()
			r.Fault = a.FaultException
			r.Stack = a.Stack
			r.Gas = a.GasConsumed
			evs := make([]Event, len(a.Events))
			for j, e := range a.Events {
				items, _ := e.Item.Value().([]stackitem.Item)
				evs[j] = Event{Contract: e.ScriptHash, Name: e.Name, Items: items}
			}
			if a.VMState == vmstate.Halt {
				r.Events = evs
			} else {
				r.Discarded = evs
			}
		}
		res[i] = r
		w.logReturn(r)
	}
	if w.KeepHistory {
		w.History = append(w.History, res...)
	}
	return res
}

// EmptyBlocks adds n empty blocks.
func (w *World) EmptyBlocks(n int) {
	for i := 0; i < n; i++ {
		b, err := w.newBlock(w.Now, nil)
		if err != nil {
			panic(err)
		}
		b.Script.InvocationScript = w.Validator.SignHashable(uint32(Magic), b)
		if err := w.Chain.AddBlock(b); err != nil {
			panic(err)
		}
		w.Now = b.Timestamp + w.Step
	}
}

// RegisterID makes the world track storage of a contract id.
func (w *World) trackID(id int32) {
	for _, x := range w.ids {
		if x == id {
			return
		}
	}
	w.ids = append(w.ids, id)
	sort.Slice(w.ids, func(i, j int) bool { return w.ids[i] < w.ids[j] })
	w.last = nil
}

func (w *World) snapshotAll() map[int32]map[string][]byte {
	if w.last == nil {
		w.last = w.dumpAll()
	}
	return w.last
}

func (w *World) dumpAll() map[int32]map[string][]byte {
	res := make(map[int32]map[string][]byte, len(w.ids))
	for _, id := range w.ids {
		res[id] = w.Dump(id)
	}
	return res
}

// Dump returns the complete storage of a contract.
func (w *World) Dump(id int32) map[string][]byte {
	m := map[string][]byte{}
	w.Chain.SeekStorage(id, nil, func(k, v []byte) bool {
		m[string(k)] = append([]byte(nil), v...)
		return true
	})
	return m
}

// DumpOf returns the storage of a named contract.
func (w *World) DumpOf(name string) map[string][]byte { return w.Dump(w.C[name].ID) }

func diffOf(a, b map[int32]map[string][]byte) Diff {
	d := Diff{}
	for id, bm := range b {
		am := a[id]
		for k, v := range bm {
			ov, ok := am[k]
			if !ok {
				d.add(id, k, Change{nil, v})
			} else if string(ov) != string(v) {
				d.add(id, k, Change{ov, v})
			}
		}
		for k, ov := range am {
			if _, ok := bm[k]; !ok {
				d.add(id, k, Change{ov, nil})
			}
		}
	}
	return d
}

func (d Diff) add(id int32, k string, c Change) {
	if d[id] == nil {
		d[id] = map[string]Change{}
	}
	d[id][k] = c
}

// ReadResult is the outcome of a test invocation.
type ReadResult struct {
	Err   string // fault message, "" on HALT
	Stack []stackitem.Item
	Gas   int64
	// Events emitted by the test invocation (used to check that safe methods stay quiet).
	Events []Event
}

// OK reports HALT.
func (r ReadResult) OK() bool { return r.Err == "" }

// Top returns the single result item (nil if none).
func (r ReadResult) Top() stackitem.Item {
	if len(r.Stack) == 0 {
		return nil
	}
	return r.Stack[len(r.Stack)-1]
}

// ReadOpts tune a test invocation.
type ReadOpts struct {
	TS      uint64 // timestamp of the synthetic block; 0 = virtual clock
	Signers []SignerSpec
	// IterAsRPC leaves iterators as Interop items holding a result.Iterator with inlined values
	// (what an RPC server without sessions returns) instead of expanding them into arrays.
	IterAsRPC bool
}

// Read test-invokes contract.method in a synthetic next block at the virtual clock.
func (w *World) Read(h util.Uint160, method string, args ...any) ReadResult {
	return w.ReadWith(ReadOpts{}, h, method, args...)
}

// ReadWith is Read with options. Iterators on the result stack are expanded
// into arrays before the context is finalized.
func (w *World) ReadWith(o ReadOpts, h util.Uint160, method string, args ...any) ReadResult {
	script, err := smartcontract.CreateCallScript(h, method, args...)
	if err != nil {
		panic(fmt.Sprintf("script for %s: %v", method, err))
	}
	return w.ReadScript(o, script)
}

// ReadScript test-executes a script.
func (w *World) ReadScript(o ReadOpts, script []byte) ReadResult {
	tx := transaction.New(script, 0)
	tx.Nonce = 1
	tx.ValidUntilBlock = w.Chain.BlockHeight() + 1
	for _, s := range o.Signers {
		sg := transaction.Signer{Account: s.Account(), Scopes: s.Scope}
		if s.Scope&transaction.CustomContracts != 0 {
			sg.AllowedContracts = s.Allowed
		}
		tx.Signers = append(tx.Signers, sg)
	}
	if len(tx.Signers) == 0 {
		tx.Signers = []transaction.Signer{{Account: w.Payer.ScriptHash(), Scopes: transaction.None}}
	}
	ts := o.TS
	if ts == 0 {
		ts = w.Now
	}
	top := w.Chain.BlockHeight()
	prev, err := w.Chain.GetHeader(w.Chain.GetHeaderHash(top))
	if err != nil {
		panic(err)
	}
	b := &block.Block{Header: block.Header{Index: top + 1, Timestamp: ts, PrevHash: prev.Hash()}}
	ic, err := w.Chain.GetTestVM(trigger.Application, tx, b)
	if err != nil {
		panic(err)
	}
	defer ic.Finalize()
	ic.VM.GasLimit = 200_0000_0000
	ic.VM.LoadWithFlags(script, callflag.All)
	err = ic.VM.Run()
	res := ReadResult{Gas: ic.VM.GasConsumed()}
	for _, e := range ic.Notifications {
		items, _ := e.Item.Value().([]stackitem.Item)
		res.Events = append(res.Events, Event{Contract: e.ScriptHash, Name: e.Name, Items: items})
	}
	if err != nil {
		res.Err = err.Error()
		if res.Err == "" {
			res.Err = "fault"
		}
		return res
	}
	st := ic.VM.Estack().ToArray()
	wasIterator := make([]bool, len(st))
	for i := range st {
		if ip, ok := st[i].(*stackitem.Interop); ok {
			_, wasIterator[i] = ip.Value().(*istorage.Iterator)
		}
	}
	for i := range st {
		st[i] = expandIterators(st[i])
		if arr, ok := st[i].(*stackitem.Array); ok && o.IterAsRPC && wasIterator[i] {
			st[i] = stackitem.NewInterop(result.Iterator{Values: arr.Value().([]stackitem.Item)})
		}
	}
	res.Stack = st
	return res
}

const iterLimit = 100000

func expandIterators(it stackitem.Item) stackitem.Item {
	if ip, ok := it.(*stackitem.Interop); ok {
		if iter, ok := ip.Value().(*istorage.Iterator); ok {
			var arr []stackitem.Item
			for n := 0; iter.Next() && n < iterLimit; n++ {
				arr = append(arr, iter.Value())
			}
			return stackitem.NewArray(arr)
		}
	}
	return it
}

// ---- deployment ---------------------------------------------------------

// Deploy deploys an artifact under the given name with the given witnesses
// (the neutral payer is the sender, so the contract hash derives from it).
func (w *World) Deploy(name string, a *Artifact, data any, signers ...SignerSpec) (*Deployed, error) {
	return w.DeployFrom(w.Payer, name, a, data, signers...)
}

// DeployFrom is Deploy with an explicit (funded) sender.
func (w *World) DeployFrom(sender neotest.Signer, name string, a *Artifact, data any, signers ...SignerSpec) (*Deployed, error) {
	all := append([]SignerSpec{{S: sender, Scope: transaction.None}}, signers...)
	r := w.invokeRaw(all, w.Mgmt, "deploy", []any{a.NEFBytes, a.ManBytes, data}, true)
	if !r.Halted() {
		return nil, fmt.Errorf("deploy %s: %s %s %s", name, r.Rejected, r.State, r.Fault)
	}
	h := state.CreateContractHash(sender.ScriptHash(), a.NEF.Checksum, a.Manifest.Name)
	cs := w.Chain.GetContractState(h)
	if cs == nil {
		return nil, fmt.Errorf("deploy %s: contract state not found", name)
	}
	d := &Deployed{Name: name, Hash: h, ID: cs.ID, Art: a}
	w.C[name] = d
	w.ByH[h] = d
	w.trackID(cs.ID)
	return d, nil
}

// Adopt registers an already deployed contract (by hash) under a name.
func (w *World) Adopt(name string, h util.Uint160) (*Deployed, error) {
	cs := w.Chain.GetContractState(h)
	if cs == nil {
		return nil, fmt.Errorf("adopt %s: no contract %s", name, h.StringLE())
	}
	a, err := NewArtifact(name, &cs.NEF, &cs.Manifest)
	if err != nil {
		return nil, err
	}
	d := &Deployed{Name: name, Hash: h, ID: cs.ID, Art: a}
	w.C[name] = d
	w.ByH[h] = d
	w.trackID(cs.ID)
	return d, nil
}

// H returns the hash of a named deployed contract.
func (w *World) H(name string) util.Uint160 {
	d := w.C[name]
	if d == nil {
		panic("contract not deployed: " + name)
	}
	return d.Hash
}

// ---- logging ------------------------------------------------------------

func (w *World) logCall(r *TxResult) {
	if w.log == nil {
		return
	}
	m := map[string]any{"k": "call", "seq": r.Seq, "c": r.CName, "m": r.Method, "args": RenderArgs(r.Args), "signers": RenderSigners(w, r.Signers), "ts": w.Now}
	b, _ := json.Marshal(m)
	w.log.Write(b)
	w.log.WriteByte('\n')
	w.log.Flush()
}

func (w *World) logReturn(r *TxResult) {
	if w.log == nil {
		return
	}
	b, _ := json.Marshal(w.RenderResult(r, false))
	w.log.Write(b)
	w.log.WriteByte('\n')
	w.log.Flush()
}

// RenderResult renders a record for replays / samples.
func (w *World) RenderResult(r *TxResult, withCall bool) map[string]any {
	m := map[string]any{"k": "ret", "seq": r.Seq, "block": r.Block}
	if withCall {
		m["k"] = "tx"
		m["c"] = r.CName
		if r.CName == "" {
			m["c"] = r.Contract.StringLE()
		}
		m["m"] = r.Method
		m["args"] = RenderArgs(r.Args)
		m["signers"] = RenderSigners(w, r.Signers)
		m["ts"] = r.TS
	}
	if r.Rejected != "" {
		m["rejected"] = r.Rejected
		return m
	}
	m["state"] = r.State
	if r.Fault != "" {
		m["fault"] = r.Fault
	}
	if len(r.Stack) > 0 {
		m["stack"] = RenderItems(r.Stack)
	}
	if len(r.Events) > 0 {
		m["events"] = w.RenderEvents(r.Events)
	}
	if len(r.Discarded) > 0 {
		m["discarded"] = w.RenderEvents(r.Discarded)
	}
	if n := r.Diff.Count(); n > 0 {
		m["diffkeys"] = n
	}
	return m
}

// RenderEvents renders events.
func (w *World) RenderEvents(evs []Event) []any {
	res := make([]any, len(evs))
	for i, e := range evs {
		res[i] = []any{w.NameOf(e.Contract), e.Name, RenderItems(e.Items)}
	}
	return res
}

// NameOf gives a readable name of a contract hash.
func (w *World) NameOf(h util.Uint160) string {
	if d := w.ByH[h]; d != nil {
		return d.Name
	}
	switch h {
	case w.GAS:
		return "GAS"
	case w.NEO:
		return "NEO"
	case w.Mgmt:
		return "Management"
	case w.Roles:
		return "RoleManagement"
	}
	return h.StringLE()
}

// RenderSigners renders signer list.
func RenderSigners(w *World, ss []SignerSpec) []string {
	res := make([]string, len(ss))
	for i, s := range ss {
		l := s.Label
		if l == "" {
			l = w.LabelOf(s.Account())
		}
		res[i] = l + ":" + s.Scope.String()
		if s.BadSig {
			res[i] += ":badsig"
		}
	}
	return res
}

// LabelOf names well-known accounts.
func (w *World) LabelOf(h util.Uint160) string {
	switch {
	case h == w.Payer.ScriptHash():
		return "payer"
	case h == w.Alphabet.ScriptHash() && h == w.Majority.ScriptHash():
		return "alphabet=majority"
	case h == w.Alphabet.ScriptHash():
		return "alphabet"
	case h == w.Majority.ScriptHash():
		return "majority"
	case h == w.Validator.ScriptHash():
		return "validators"
	}
	for i, m := range w.Members {
		if m.ScriptHash() == h {
			return fmt.Sprintf("member%d", i)
		}
	}
	if d := w.ByH[h]; d != nil {
		return "contract:" + d.Name
	}
	return h.StringLE()[:8]
}

// ---- token helpers ------------------------------------------------------

// GASOf returns native GAS balance.
func (w *World) GASOf(h util.Uint160) *big.Int { return w.Chain.GetUtilityTokenBalance(h) }

// NEOOf returns native NEO balance.
func (w *World) NEOOf(h util.Uint160) *big.Int {
	b, _ := w.Chain.GetGoverningTokenBalance(h)
	return b
}

// ErrInconclusive marks a batch that could not judge.
var ErrInconclusive = errors.New("inconclusive")
