#!/usr/bin/env python3
"""Generates /verif/MANIFEST.json from the table below (kept by hand)."""
import json, os
HERE = os.path.dirname(os.path.dirname(os.path.abspath(__file__)))
ids = [json.loads(l)['id'] for l in open(os.path.join(HERE, 'properties.jsonl'))]
TB = "Trusted base: neo-go v0.107.0 (VM, ledger, native contracts, compiler library from the module cache), the harness's own models. Contracts are compiled from /repo's working tree at check time."
checks = {
 "C01": dict(tech="runtime monitoring: conservation invariant over raw storage scans + shadow ledger replayed from Transfer notifications, after every block of PRNG workloads on a real neo-go ledger",
   text="Held on the executions observed: thousands of hostile transaction sequences per run; every block is followed by a raw scan (sum = supply, no negative balance, key shapes), a supply-delta check against successful mint/burn amounts, Transfer/TransferX pairing and a notification-replay ledger compared with the chain. No proof; reach comes from workload diversity (amount pool, signer classes, committee sizes, multi-tx blocks).", ref="§3 C01"),
 "C02": dict(tech="runtime monitoring: per-transaction authorisation monitor correlating observed balance decreases (storage diff) with the transaction's signer set",
   text="Held on the executions observed: every transaction whose storage diff lowers an account is checked for that account's witness, the Alphabet's, or the account being the calling contract; refusing transfers must report false and leave an empty diff. Prediction-free oracle, sound under refactoring.", ref="§3 C02"),
 "C03": dict(tech="runtime monitoring: table-driven witness monitor over every method found in the compiled manifests; per transaction effect/inert classification from storage diffs of all contracts, notifications and native token transfers",
   text="Held on the executions observed: each of the non-safe methods read from the manifests is executed on a freshly prepared world under every signer set of its documented requirement (insufficient ones must be inert, the exact requirement must succeed), on committees where the 2/3+1 and majority accounts differ (3, 7) and coincide (1); safe methods are called in fully witnessed transactions (empty diff, no notification); verify methods are invoked directly and used as contract witnesses of real transactions. A manifest method without a table row makes the run inconclusive.", ref="§3 C03"),
 "C04": dict(tech="runtime monitoring: container registry reference model; complete read sweep of every getter/lister plus raw storage scan and NNS records after every block",
   text="Held on the executions observed: put/putNamed/put(meta)/delete/setEACL histories over colliding populations; the model predicts success and the exact PutSuccess/DeleteSuccess/SetEACLSuccess notifications; every getter for every id ever used (and unused / malformed ids), count, list, containersOf for all owners, alias TXT records and the raw storage (no residue of deleted ids, tombstones present) are compared after every block.", ref="§3 C04"),
 "C05": dict(tech="runtime monitoring: payment monitor over TransferX notifications and Balance storage diffs of every container put, with owner balances driven to the fee threshold",
   text="Held on the executions observed: for every successful put the multiset of fee transfers and the balance deltas must equal N transfers of the configured fee (+ alias fee), in the transaction that emits PutSuccess; puts at total-1 must fail with an empty diff; fee settings incl. 0 and changes between puts; committees of 1, 4, 7.", ref="§3 C05"),
 "C06": dict(tech="runtime monitoring: epoch/tick reference model with probe subscriber contracts; exact Tick call sequence per tick from the application log, read-back of epoch, maps and candidates after every block",
   text="Held on the executions observed: success of newEpoch is predicted from (Alphabet witness, epoch > current, no rejecting subscriber) and compared; on success the published maps in both formats, the tick height, the unchanged candidate set, exactly one NewEpoch event and exactly one call per subscriber in subscription order are checked; on failure an empty storage diff everywhere (incl. subscribers).", ref="§3 C06"),
 "C07": dict(tech="runtime monitoring: candidate state-machine reference model; predicted effect/refusal and notifications per call, both candidate lists read after every call",
   text="Held on the executions observed: every add/update/remove call over all presence classes, state values and signer combinations is classified effect/inert and compared with the model; the legacy and structured candidate lists must equal the model after every call.", ref="§3 C07"),
 "C08": dict(tech="runtime monitoring: exhaustive small-scope history enumeration on the real ledger with a retention-window model; complete read sweeps and raw storage scans after every resize and tick",
   text="Held on the executions observed; the bounded scope named in the quantifier (counts 0..12, resize epochs 0..30, one resize in quick / up to two in thorough) is executed completely, every history followed by read sweeps of snapshot/snapshotByEpoch/listNodes/netmap and storage scans against the model; plus random longer histories in thorough.", ref="§3 C08"),
 "C10": dict(tech="runtime monitoring: NNS reference model with virtual time; accounting and lifecycle reads after every operation and at the instants exp-1/exp/exp+1",
   text="Held on the executions observed: registrations, takeovers of expired names, transfers, renewals and admin changes over names of level 2-4 under a long- and a short-lived TLD; totalSupply, the raw sum of balances, balanceOf, tokensOf, tokens, isAvailable, ownerOf and properties are compared with the model after every operation and at the boundary instants of live names and parent TLDs; every ownership change must carry exactly the predicted Transfer notification.", ref="§3 C10"),
 "C11": dict(tech="runtime monitoring: history-aware authorisation monitor; per call the model computes the principals that may act now, outcome must be effect/inert accordingly",
   text="Held on the executions observed: every mutating NNS method crossed with roles (owner, admin, former owner/admin, parent owner/admin, stranger, committee majority, Alphabet, member, nobody) on committees of 1/3/4/7 over evolving ownership histories; unauthorised calls must leave an empty storage diff and no notification, authorised ones with valid arguments must take effect.", ref="§3 C11"),
 "C12": dict(tech="runtime monitoring: record/resolution reference model; ordered getRecords, getAllRecords and resolve read for every pool name and type after every operation",
   text="Held on the executions observed: record operations over tokens, sub-names and interleaved registrations, CNAME graphs up to depth 4 with cycles, the 16-record and single-CNAME limits, SOA serial refresh, conflicting-record rule and unreachability after expiry are compared with the model through all three read paths.", ref="§3 C12"),
 "C14": dict(tech="runtime monitoring: roster reference model compared in order through the iterators, and an independent crypto/ecdsa oracle counting distinct signing members over generated signature matrices",
   text="Held on the executions observed: roster histories crossing the 2-byte counter boundaries are read back in order; verifyPlacementSignatures=true (and a successful submitObjectPut) is accepted only if the Go oracle finds >= REP distinct members with a valid signature in every vector; honest matrices must be accepted.", ref="§3 C14"),
 "C09": dict(tech="runtime monitoring: executable lock model stepping with the transaction stream; exact multiset of unlock transfers and balance deltas per epoch tick, state read-back of every lock after every block",
   text="Held on the executions observed: lock/burn/transfer/tick histories with many locks sharing parents and expiry epochs; each tick's unlock events and balance deltas must equal the model's expired set exactly (exactly-once by construction of the model).", ref="§3 C09"),
 "C16": dict(tech="runtime monitoring: differential read-API and raw-storage comparison across real upgrades (down-versioned build of the tree, legacy-layout shim, recorded network dumps) under all signer sets and version numbers around both bounds",
   text="Held on the executions observed: the tree's own update/_deploy(isUpdate) code is executed (a) on the real code reporting an older version under every signer set on committees of 3 and 7, (b) over synthetic storages in every old layout class x notary-flag variant x version numbers around both bounds, (c) over the repository's three network dumps; refusals must change nothing, accepted upgrades must leave the whole read API and the raw storage equal to the reference, migrated subscribers/locks must keep working.", ref="§3 C16"),
 "C17": dict(tech="runtime monitoring: ballot reference model stepping with every invocation; exhaustive short call sequences plus PRNG histories; exactly-once check of effect and notification in the firing transaction",
   text="Held on the executions observed; all setConfig call sequences of length 3 (quick) / 4 (thorough) for 1..3 Alphabet keys over {stranger, members} x 2 ids x gaps {0,1,20,21} are executed on the real contract, plus PRNG histories for 1..7 keys over cheque, alphabetUpdate, candidate removal; the model names the invocation in which each decision fires and the effect/notification must appear exactly there; strangers must never count.", ref="§3 C17"),
 "C18": dict(tech="runtime monitoring: exhaustive small-scope input enumeration through read-only invocations of the real contract, judged by independent predicates (names) and a MUST/MAY sandwich over net/netip (addresses)",
   text="Held on the executions observed; the finite scope named in the quantifier (all strings of length <= 5 quick / <= 6 thorough over the reduced alphabet, complete address mutation lists) is executed completely, plus boundary lengths and up to a million grammar-biased random strings; a sample of refusals is submitted as real transactions and must leave an empty storage diff.", ref="§3 C18"),
 "C19": dict(tech="runtime monitoring: conservation (ledger identity) monitor over native GAS Transfer notifications and balances after every transaction; exact payout oracle for Alphabet emit",
   text="Held on the executions observed: the NeoFS contract's GAS balance is compared after every transaction with the model (received - approved cheques) and with the sum of native Transfer events; deposits, withdraw fees (once to Processing / once per Alphabet key), candidate fees and cheques are checked for exact amounts, events and refusals in both Notary modes; emit's outgoing multiset and all balance deltas equal floor(g/2) and floor((g-floor(g/2))*7/8/N) with conservation; Proxy/Processing/Alphabet refuse NEO (except Alphabet), a foreign NEP-17 token and direct callback calls.", ref="§3 C19"),
 "C20": dict(tech="runtime monitoring: multimap reference models of five stores; every getter/lister read for every pool element after every operation; known-finding matcher for prefix-scan aliasing",
   text="Held on the executions observed, with three recorded known findings (prefix-scan aliasing of variable-length epoch encodings in Reputation, Audit and container estimations, see KNOWN_FINDINGS.json): puts over prefix-related epochs/ids/keys, clean-up boundaries, access rules (previous network map, Inner Ring membership, Alphabet) are compared with exact-store models; any discrepancy the aliasing matcher does not explain completely is a VIOLATION.", ref="§3 C20"),
}
man = {
 "version": 1,
 "setup_cmd": "./setup.sh",
 "hooks": {"guard": "verif", "enable": "go build -tags verif (the ./run script builds the harness, which imports /repo through a replace directive, with -tags verif)",
           "baseline_off_cmd": "cd /repo && GOFLAGS=-mod=mod GOPROXY=off GOSUMDB=off go test -vet=off -count=1 -timeout 25m ./...",
           "source_commits": [], "add_only": True},
 "engines": [{"name": "harness", "path": "harness/", "serves_properties": sorted(checks), "kind_free_text": "Go: real neo-go ledger (world), recorder, reference models, batch runner in child processes"}],
 "checks": [],
 "not_applicable": [],
 "notes": "Technique family: runtime monitoring and sanitizers. See DESIGN.md. Exit 0 held / 1 VIOLATION / 2 inconclusive (no VIOLATION line).",
}
for i in ids:
    if i in checks:
        c = checks[i]
        man["checks"].append({
            "property_id": i, "quick_cmd": f"./run {i} quick", "thorough_cmd": f"./run {i} thorough",
            "evidence_file": f"/verif/evidence/{i}.json", "replay_cmd_template": f"./run {i} --replay {{path}}",
            "engine": "harness",
            "level_claimed": {"category": c.get("level", "exploration"), "text": c["text"], "design_ref": c["ref"]},
            "level_note": c.get("note", TB), "technique": c["tech"]})
    else:
        man["not_applicable"].append({"property_id": i, "reason": "check under construction (design in DESIGN.md §3); not yet claimed"})
json.dump(man, open(os.path.join(HERE, 'MANIFEST.json'), 'w'), indent=1)
print("checks:", len(man["checks"]), "not claimed:", len(man["not_applicable"]))
