#!/bin/sh
# tools/sweep.sh <tier> <seed>...  : runs every claimed check at the given seeds and prints one verdict line each.
HERE=$(cd "$(dirname "$0")/.." && pwd)
TIER=$1; shift
for S in "$@"; do
  for ID in $(python3 -c "import json;print(' '.join(c['property_id'] for c in json.load(open('$HERE/MANIFEST.json'))['checks']))"); do
    OUT=$(VERIF_SEED=$S "$HERE/run" "$ID" "$TIER" 2>&1); RC=$?
    echo "seed=$S rc=$RC $(echo "$OUT" | tail -1 | cut -c1-200)"
    if [ $RC -ne 0 ]; then BAD=1; echo "$OUT" | grep -v '^VIOLATION' | head -5 | cut -c1-300; fi
  done
done
exit ${BAD:-0}
